HOOKS = dict(
    guard="wirefilter_verif",
    enable="harness/.cargo/config.toml passes --cfg wirefilter_verif (and --check-cfg) to every crate, including the path dependencies /repo/engine and /repo/ffi",
    baseline_off_cmd="cd /repo && cargo test --workspace --no-fail-fast --offline",
    source_commits=[],
    add_only=True,
)
NOTES = ("Every check: cargo-builds /verif/harness against /repo's working tree, runs TLC on the property's "
         "models (in-model theorems + vector emission), replays the vectors into the engine, records random "
         "engine traces and validates them with the trace specifications, runs a canary, writes evidence. "
         "Exit 2 = tool error. known_findings.json lists recorded/fixed defects.")
NOT_APPLICABLE = {}
TECH = "TLA+ specification model-checked with TLC; TLC-generated vectors replayed into the engine; recorded engine traces validated against the trace specification"
META = {
    "C01": dict(
        text="The L2 parser transcription is model-checked against an independent stratified-grammar recogniser and "
             "denotation on every word sequence up to the bound (precedence, flattening, not-binding), and the full "
             "operator x type x boundary-value x nil x optional matrix is enumerated by TLC; every emitted vector is executed "
             "against the real parse/compile/execute pipeline. Random scalar filters beyond the bounds are validated as traces.",
        design_ref="DESIGN.md section 6 C01",
        note="Trusted: TLC, the harness's token renderer and abs() projection, Rust's integer/IP text formatting for random literals. "
             "Bounded: chains up to 9 words exhaustively, deeper ones by random traces.",
        technique=TECH),
}
