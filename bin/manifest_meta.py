HOOKS = dict(
    guard="wirefilter_verif",
    enable="harness/.cargo/config.toml passes --cfg wirefilter_verif (and --check-cfg) to every crate, including the path dependencies /repo/engine and /repo/ffi",
    baseline_off_cmd="cd /repo && cargo test --workspace --no-fail-fast --offline",
    source_commits=["a69fd67", "543abda"],
    add_only=True,
)
NOTES = ("Every check: cargo-builds /verif/harness against /repo's working tree, runs TLC on the property's "
         "models (in-model theorems + vector emission), replays the vectors into the engine, records random "
         "engine traces and validates them with the trace specifications, runs a canary, writes evidence. "
         "Exit 2 = tool error. known_findings.json lists recorded/fixed defects.")
NOT_APPLICABLE = {}
TECH = "TLA+ specification model-checked with TLC; TLC-generated vectors replayed into the engine; recorded engine traces validated against the trace specification"
META = {
    "C01": dict(
        text="The L2 parser transcription is model-checked against an independent stratified-grammar recogniser and "
             "denotation on every word sequence up to the bound (precedence, flattening, not-binding), and the full "
             "operator x type x boundary-value x nil x optional matrix is enumerated by TLC; every emitted vector is executed "
             "against the real parse/compile/execute pipeline. Random scalar filters beyond the bounds are validated as traces.",
        design_ref="DESIGN.md section 6 C01",
        note="Trusted: TLC, the harness's token renderer and abs() projection, Rust's integer/IP text formatting for random literals. "
             "Bounded: chains up to 9 words exhaustively, deeper ones by random traces.",
        technique=TECH),
}
def _m(text, ref, note="Trusted: TLC, the harness's token renderer and abs() projection. Random exploration judged by the specification; exhaustive only where an MC stage is listed in the evidence."):
    return dict(text=text, design_ref=ref, note=note, technique=TECH)
META.update({
    "C02": _m("Recorded executions of random container filters are accepted only if every result equals the L1 semantics (GetPath, row-major Flatten, element-wise logic with truncation, any/all).", "DESIGN.md section 6 C02"),
    "C03": _m("Recorded executions of random calls are accepted only if results equal EvalCall/FnSem: arguments in order, defaults, typed absence, per-element application with dropped absent results, concat.", "DESIGN.md section 6 C03"),
    "C04": _m("Parse verdicts of well-typed and mutated programs must equal the L2 parser/type-checker model; accepted programs must execute without panic.", "DESIGN.md section 6 C04"),
    "C05": _m("Exploration judged by the specification: every generated input is parsed in a child process and the trace specification admits only the outcomes AST / well-formed error (line, echoed line, column range, caret layout checked against the input); inside the modelled token alphabet the exact verdict is decided by the L2 parser model.", "DESIGN.md section 6 C05", "Input generation for arbitrary Unicode is by harness generators (not model-derived); sizes up to 1e5 elements; the child runs with the default 8 MiB main stack and a 2 MiB thread."),
    "C06": _m("A character-level TLA+ definition of every literal form decides, for every text over small alphabets up to the bound and for random renderings/corruptions, whether the engine must accept it and which value it denotes (integers on 16-bit limbs).", "DESIGN.md section 6 C06"),
    "C07": _m("Alias/white-space variants must yield equal AST, identical JSON text and hash; JSON must equal the canonical AstJson; structurally different partners must serialize differently.", "DESIGN.md section 6 C07"),
    "C08": _m("All bounded operation histories are enumerated by TLC on the abstract context machine (TypeOK and failed-set-is-a-no-op checked in-model) and replayed on real contexts; long random histories are validated as traces with the after-state compared at every step.", "DESIGN.md section 6 C08"),
    "C09": _m("Recorded `in {..}` executions with long random lists are accepted only if they equal declarative membership.", "DESIGN.md section 6 C09"),
    "C10": _m("TLC enumerates the small exhaustive space and the structured block-boundary cases with the declarative answer Occurs(p, h); the harness executes each on every anchor position and on both search paths; random large cases are validated as traces.", "DESIGN.md section 6 C10"),
    "C11": _m("A set-of-end-positions semantics of the regex subset, the wildcard matcher and the quoted-pattern scanner are specified in TLA+; TLC enumerates small patterns exhaustively with their expected results and checks that the scanner inverts the documented quoting; random deeper patterns are validated as traces.", "DESIGN.md section 6 C11"),
    "C12": _m("uses()/uses_list() answers on random filters are accepted only if they equal the syntactic occurrence predicates.", "DESIGN.md section 6 C12"),
    "C13": _m("Parse verdicts of nesting shapes under varying limits must equal the L2 counter model, which is checked against Nesting(ast).", "DESIGN.md section 6 C13"),
    "C14": _m("Recorded serializations, five-way round trips and mutated documents are accepted only if they match the specification's encoder (EncValue/EncFields/EncLists) and type-directed decoder (DecValue/DecEntries as a left-to-right fold); no panic, no wrong-typed value stored.", "DESIGN.md section 6 C14"),
    "C15": _m("All types up to the depth bound are enumerated by TLC (pack/unpack inverse checked in-model) and every encoding produced by the engine and the C API is compared with the model's; over-deep descriptors and scheme JSON (duplicates, escapes, four entry points) are validated as traces.", "DESIGN.md section 6 C15"),
    "C18": _m("Stress exploration judged by the specification: the latch/immutability design is model-checked (WfConcurrent), and every result observed by every thread for every (filter, context) pair must equal the sequential meaning EvalFilter computed by TLC; first-use races are provoked in fresh processes.", "DESIGN.md section 6 C18", "Schedules inside std/regex-automata cannot be controlled; the check detects result-changing races and shared mutable state, not benign data races."),
    "C20": _m("The last-error protocol is an explicit TLA+ state machine (model-checked for thread-locality and well-formedness); recorded C API sessions on concurrent threads are accepted by the trace specification only if every call's status and output equal the Rust API's on twin objects and the per-thread last-error state evolves as specified.", "DESIGN.md section 6 C20", "Trusted: TLC; the harness's twin bookkeeping (same inputs to both APIs); the C API is exercised through the Rust rlib, not through a C compiler."),
    "C19": _m("The catcher is an explicit N-thread TLA+ state machine; TLC checks balance, own-message, escape and isolation over all bounded scripts and interleavings, and every terminal behaviour is replayed on real threads with the level read through the verification hook after each step.", "DESIGN.md section 6 C19", "Trusted: TLC, the script interpreter of the harness (closure nesting = bracket structure), the turn token that serialises two-thread steps. Abort mode is modelled but not executed."),
    "C16": _m("All bounded registration histories are enumerated on the abstract registry (Unique and failed-add-is-a-no-op checked in-model) and replayed on SchemeBuilder with exhaustive probes of the built scheme; random long histories are validated as traces.", "DESIGN.md section 6 C16"),
    "C17": _m("`in $name` executions are accepted only if they equal the matcher's answer in the model; list-name validity and per-type registration decide the parse verdict.", "DESIGN.md section 6 C17"),
})
