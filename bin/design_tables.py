import subprocess,re
p='/verif/DESIGN.md'
s=open(p).read()
rows5=subprocess.run(['/verif/bin/seedtable','hi'],capture_output=True,text=True).stdout
rows6=subprocess.run(['/verif/bin/seedtable','j'],capture_output=True,text=True).stdout
rows5=rows5.replace('(filled in after running the checks)','not run in this session (machine saturated by the round-6 agents)')
rows6=rows6.replace('(filled in after running the checks)','confirmed; quick check not run against it yet')
block='''
Rounds 5 and 6 (`bin/seedtable hi`, `bin/seedtable j`; outcomes written by `bin/seedrecord` from the lab runs of this
session; a change marked "not run" is confirmed and stored but its lab run did not fit into the session):

| seed | change | reported by |
|---|---|---|
'''+rows5+rows6+'\n'
marker='Checks strengthened because a seed was first missed (nothing was loosened):'
a=s.find('\nRounds 5 and 6 (`bin/seedtable hi`')
if a>=0:
    b=s.find(marker)
    s=s[:a]+block+s[b:]
else:
    s=s.replace(marker, block.lstrip('\n')+marker,1)
open(p,'w').write(s)
