"""Shared helpers for bin/check: running TLC, extracting REPLAY vectors, parsing TLC statistics."""
import json, os, re, subprocess, sys, time, shutil

VERIF = os.path.dirname(os.path.dirname(os.path.abspath(__file__)))
SPEC = os.path.join(VERIF, "spec")
WORK = os.path.join(VERIF, "work")
HARNESS = os.path.join(VERIF, "harness")
WFH = os.path.join(HARNESS, "target", "release", "wfh")
TLA_CP = "/opt/veriftools/tla/tla2tools.jar:/opt/veriftools/tla/CommunityModules-deps.jar"


class ToolError(Exception):
    pass


def build_harness():
    """cargo build of the harness against /repo's current working tree (hooks on)."""
    t0 = time.time()
    p = subprocess.run(["cargo", "build", "--release", "--offline"], cwd=HARNESS,
                       stdout=subprocess.PIPE, stderr=subprocess.STDOUT, text=True)
    if p.returncode != 0:
        sys.stderr.write(p.stdout[-6000:])
        raise ToolError("harness build failed")
    return time.time() - t0


def run_tlc(module, cfg, outfile, workers=4, env=None, heap="6g", extra=None, timeout=3600, metadir=None):
    """Run TLC; returns dict(states, distinct, depth, ok, stdout path)."""
    md = metadir or (outfile + ".md")
    shutil.rmtree(md, ignore_errors=True)
    cmd = ["java", "-XX:+UseParallelGC", "-Xmx" + heap, "-Xss1g",
           "-Dtlc2.tool.queue.IStateQueue=StateDeque" if workers == 1 else "-Dx=y",
           "-cp", TLA_CP, "tlc2.TLC", "-workers", str(workers), "-metadir", md, "-cleanup",
           "-noGenerateSpecTE", "-config", os.path.join(SPEC, cfg)]
    if extra:
        cmd += extra
    cmd.append(os.path.join(SPEC, module))
    e = dict(os.environ)
    if env:
        e.update(env)
    with open(outfile, "w") as f:
        try:
            p = subprocess.run(cmd, cwd=SPEC, stdout=f, stderr=subprocess.STDOUT, env=e, timeout=timeout)
        except subprocess.TimeoutExpired:
            raise ToolError("TLC timeout on %s" % module)
    shutil.rmtree(md, ignore_errors=True)
    return parse_tlc(outfile, p.returncode)


def parse_tlc(outfile, rc=0):
    res = dict(states=0, distinct=0, depth=0, rc=rc, finished=False, error=None, rejects=[], details=[], stuck=None,
               consumed=None, invariant=None)
    with open(outfile, errors="replace") as f:
        for line in f:
            if line.startswith('<<"REPLAY"'):
                continue
            m = re.match(r"(\d+) states generated, (\d+) distinct states found", line)
            if m:
                res["states"], res["distinct"] = int(m.group(1)), int(m.group(2))
            m = re.match(r"The depth of the complete state graph search is (\d+)", line)
            if m:
                res["depth"] = int(m.group(1))
            if line.startswith("Model checking completed. No error has been found"):
                res["finished"] = True
            if line.startswith('<<"REJECT"'):
                res["rejects"].append(line.strip())
                res["details"].append("")
            elif res["rejects"] and len(res["details"][-1]) < 1500 and not line.startswith('<<"TRACE-'):
                if line.startswith('<<"DETAIL"') or line.startswith('<< "DETAIL"') or (res["details"][-1] and line.startswith(" ")):
                    res["details"][-1] += line.strip() + " "
            if line.startswith('<<"TRACE-CONSUMED"'):
                res["consumed"] = int(re.search(r"(\d+)", line).group(1))
            if line.startswith('<<"TRACE-STUCK-AT"'):
                res["stuck"] = line.strip()
            m = re.match(r"Error: Invariant (\w+) is violated", line)
            if m:
                res["invariant"] = m.group(1)
            if line.startswith("Error:") and res["error"] is None:
                res["error"] = line.strip()
    return res


def extract_replay(outfile, dest):
    """Copy the REPLAY vectors printed by TLC into an ndjson file; returns their number."""
    n = 0
    pre = '<<"REPLAY", '
    with open(outfile, errors="replace") as f, open(dest, "w") as g:
        for line in f:
            if not line.startswith(pre):
                continue
            body = line.rstrip("\n")
            if not body.endswith(">>"):
                raise ToolError("wrapped REPLAY line in " + outfile)
            body = body[len(pre):-2]
            g.write(json.loads(body))   # TLA+ string escapes are JSON string escapes
            g.write("\n")
            n += 1
    return n


def run_harness(args, timeout=3600, env=None):
    e = dict(os.environ)
    if env:
        e.update(env)
    p = subprocess.run([WFH] + args, stdout=subprocess.PIPE, stderr=subprocess.PIPE, text=True, timeout=timeout, env=e)
    if p.returncode not in (0, 1):
        sys.stderr.write(p.stderr[-4000:])
        raise ToolError("harness %s exited with %d" % (args[0], p.returncode))
    last = [l for l in p.stdout.strip().split("\n") if l.strip()]
    try:
        summary = json.loads(last[-1]) if last else {}
    except Exception:
        summary = {"raw": p.stdout[-500:]}
    return p.returncode, summary
