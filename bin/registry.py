"""Registry of checks: which TLA+ models and which trace generators decide each property."""


def mc(name, module, cfg, **kw):
    d = dict(type="mc", name=name, module=module, cfg=cfg)
    d.update(kw)
    return d


def trace(name, spec, gen, quick, thorough, **kw):
    d = dict(type="trace", name=name, spec=spec, gen=gen, n=dict(quick=quick, thorough=thorough))
    d.update(kw)
    return d


def lang(name, family, quick, thorough, extra=None, **kw):
    return trace(name, "Trace_Lang", ["gen-lang", "--family", family] + (extra or []), quick, thorough, **kw)


def _corrupt_lang(e):
    """flip one recorded observation of a language event"""
    if e.get("ok") and e.get("runs"):
        r = e["runs"][0]
        if isinstance(r.get("res"), bool):
            r["res"] = not r["res"]
        else:
            r["res"] = {"t": "bool", "v": True} if r["res"].get("t") != "bool" else {"t": "nil"}
        return True
    return False


CORRUPTORS = {"Trace_Lang": _corrupt_lang}

SH = dict(quick=1, thorough=8)

CHECKS = {
    "C01": dict(
        level="model_checking",
        rule="TLC enumerates (a) every word sequence <= MaxLen over ( ) not and or xor b1 b2 <i==1>, "
             "(b) every grammatical chain up to MaxLen words, (c) the full field x operator x literal "
             "matrix over the value pools x nil-not-equal x optional/mandatory; each vector is executed "
             "against the engine on every listed context. Random filters over scalar fields are recorded "
             "from the engine and validated by Trace_Lang.",
        exhaustive=True,
        assumptions=["token-to-text rendering (alias table, literal text) is done by the harness",
                     "Rust integer/IP formatting used to render random literals"],
        stages=[
            mc("chain", "MC_C01.tla", dict(quick="MC_C01_chain_quick.cfg", thorough="MC_C01_chain_thorough.cfg")),
            mc("gram", "MC_C01.tla", dict(quick="MC_C01_gram_quick.cfg", thorough="MC_C01_gram_thorough.cfg")),
            mc("matrix", "MC_C01.tla", "MC_C01_matrix.cfg"),
            lang("random", "c01", 4000, 160000, ["--nctx", "6", "--depth", "4"], shards=SH),
        ],
    ),
}


def replay_cmd_for(prop, stage):
    for st in CHECKS.get(prop, {}).get("stages", []):
        if st["name"] == stage:
            return st.get("replay_cmd", "replay")
    return "replay"
