"""Registry of checks: which TLA+ models and which trace generators decide each property."""


def mc(name, module, cfg, **kw):
    d = dict(type="mc", name=name, module=module, cfg=cfg)
    d.update(kw)
    return d


def trace(name, spec, gen, quick, thorough, **kw):
    d = dict(type="trace", name=name, spec=spec, gen=gen, n=dict(quick=quick, thorough=thorough))
    d.update(kw)
    return d


def lang(name, family, quick, thorough, extra=None, **kw):
    return trace(name, "Trace_Lang", ["gen-lang", "--family", family] + (extra or []), quick, thorough, **kw)


def _corrupt_lang(e):
    """flip one recorded observation of a language event"""
    if e.get("ok") and e.get("runs"):
        r = e["runs"][0]
        if isinstance(r.get("res"), bool):
            r["res"] = not r["res"]
        else:
            r["res"] = {"t": "bool", "v": True} if r["res"].get("t") != "bool" else {"t": "nil"}
        return True
    return False


def _corrupt_ctx(e):
    if e.get("ev") == "op" and e["op"]["op"] in ("set", "get") and e["res"]["out"] == "ok":
        e["res"]["v"] = {"t": "bool", "v": True} if e["res"]["v"].get("t") != "bool" else {"t": "nil"}
        return True
    return False


STATEFUL = {"Trace_Ctx", "Trace_Reg"}
WHOLE_TRACE_CANARY = {"Trace_Ffi"}


def _tag_serde(e):
    n = 0
    if e.get("ev") == "de":
        for x in e.get("entries", []):
            if x.get("kind") == "lists":
                n = len(x.get("entries", []))
    elif e.get("ev") == "rt":
        n = len(e.get("ctx", {}).get("lists", []))
    return "lists=%d" % n


SIG_TAGS = {"Trace_Serde": _tag_serde}
def _corrupt_reg(e):
    if e.get("ev") == "add" and e["res"] == "ok":
        e["res"] = "FieldRedefinition"
        return True
    return False


def _corrupt_types(e):
    if e.get("ev") == "type" and e["depth"] <= 32 and e["obs"]["conv"].get("state") == "ok":
        b = e["obs"]["conv"]["ct"]["pack"]["bits"]
        if b:
            b[0] = 1 - b[0]
            return True
    return False


def _corrupt_serde(e):
    if e.get("ev") == "rt" and e["ways"]["str"]["out"] == "ok" and e["ctx"]["vals"]:
        e["ways"]["str"]["ctx"]["vals"][0] = {"t": "bool", "v": True} if e["ctx"]["vals"][0].get("t") != "bool" else {"t": "nil"}
        return True
    return False


def _corrupt_panic(e):
    if e.get("levels"):
        e["levels"][len(e["levels"]) // 2] += 1
        return True
    return False


def _corrupt_lit(e):
    if e["obs"]["out"] == "ok" and e["kind"] == "int":
        e["obs"]["v"][3] = (e["obs"]["v"][3] + 1) % 65536
        return True
    return False


def _corrupt_contains(e):
    e["obs"]["runs"][0]["res"] = not e["obs"]["runs"][0]["res"]
    return True


def _corrupt_total(e):
    if e["obs"]["out"] == "error":
        e["obs"]["start"] += 100000
        return True
    return False


def _corrupt_conc(e):
    e["results"] = [not e["results"][0]]
    return True


def _corrupt_ffi(e):
    if e.get("status") == "err" and not e["le_after"]["null"] and e["le_after"]["b"]:
        e["le_after"]["b"][0] = 0
        return True
    return False


CORRUPTORS = {"Trace_Ffi": _corrupt_ffi, "Trace_Conc": _corrupt_conc, "Trace_Total": _corrupt_total, "Trace_Contains": _corrupt_contains, "Trace_Lit": _corrupt_lit, "Trace_Panic": _corrupt_panic, "Trace_Lang": _corrupt_lang, "Trace_Ctx": _corrupt_ctx, "Trace_Reg": _corrupt_reg,
              "Trace_Types": _corrupt_types, "Trace_Serde": _corrupt_serde}


def _vc_lang(v):
    if v.get("ev") == "scan":
        if v.get("exp") == "reject":       # claim that the rejected literal behaves like the raw pattern `a`
            v["exp"] = "as-raw"
            v["pat"] = [97]
            return True
        return False
    if v.get("ok") and v.get("runs"):
        r0 = v["runs"][0]
        if isinstance(r0.get("res"), bool):
            r0["res"] = not r0["res"]
        else:
            r0["out"] = "corrupted"
        return True
    return False


def _vc_hist(v):
    if v.get("res"):
        v["res"][0]["out"] = "corrupted"
        return True
    return False


def _vc_reg(v):
    if v.get("res"):
        v["res"][0] = "ListRedefinition" if v["res"][0] == "ok" else "ok"
        return True
    return False


def _vc_types(v):
    if v.get("ev") == "type" and v["pack"]["bits"]:
        v["pack"]["bits"][0] = 1 - v["pack"]["bits"][0]
        return True
    return False


def _vc_panic(v):
    v["sent"][0] += 1
    return True


def _vc_lit(v):
    ok = v["exp"]["ok"]
    if isinstance(ok, str):           # IP kinds: "yes" | "no" | "unspec" (not judged)
        if ok == "unspec":
            return False
        v["exp"]["ok"] = "no" if ok == "yes" else "yes"
        if ok == "no":
            v["exp"]["v"] = {"a": [], "b": [], "len": -1}
        return True
    v["exp"]["ok"] = not ok
    return True


def _vc_contains(v):
    v["exp"] = not v["exp"]
    return True


def _vc_ffiseq(v):
    for h in v["hist"]:
        if h["call"] == "fail":
            h["after"][h["th"] - 1]["null"] = True
            return True
    return False


def _vc_fficatch(v):
    for h in v["hist"]:
        if h["call"] == "boom":
            h["after"][h["th"] - 1] = {"k": "null", "site": ""}
            return True
    return False


def _vc_serde(v):
    """flip the expected verdict of a decoder vector"""
    if "ok" in v:
        v["ok"] = not v["ok"]
        if "vok" in v:
            v["vok"] = not v["vok"]
        return True
    return False


VECTOR_CORRUPTORS = {"replay-fficatch": _vc_fficatch, "replay-serde": _vc_serde, "replay-ffiseq": _vc_ffiseq, "replay-contains": _vc_contains, "replay-lit": _vc_lit, "replay-panic": _vc_panic, "replay": _vc_lang, "replay-hist": _vc_hist, "replay-reg": _vc_reg, "replay-types": _vc_types}

SH = dict(quick=1, thorough=8)

CHECKS = {
    "C01": dict(
        level="model_checking",
        rule="TLC enumerates (a) every word sequence <= MaxLen over ( ) not and or xor b1 b2 <i==1>, "
             "(b) every grammatical chain up to MaxLen words, (c) the full field x operator x literal "
             "matrix over the value pools x nil-not-equal x optional/mandatory; each vector is executed "
             "against the engine on every listed context. Random filters over scalar fields are recorded "
             "from the engine and validated by Trace_Lang.",
        exhaustive=True,
        assumptions=["token-to-text rendering (alias table, literal text) is done by the harness",
                     "Rust integer/IP formatting used to render random literals"],
        stages=[
            mc("chain", "MC_C01.tla", dict(quick="MC_C01_chain_quick.cfg", thorough="MC_C01_chain_thorough.cfg")),
            mc("gram", "MC_C01.tla", dict(quick="MC_C01_gram_quick.cfg", thorough="MC_C01_gram_thorough.cfg")),
            mc("matrix", "MC_C01.tla", "MC_C01_matrix.cfg"),
            lang("random", "c01", 4000, 160000, ["--nctx", "6", "--depth", "4"], shards=SH),
        ],
    ),
    "C02": dict(
        level="model_checking",
        rule="MC_C02: every full-depth index path over five container fields x a value pool (absent, empty, singleton, ragged), with the "
             "in-model theorem that the engine's three index strategies (WfIndex, incl. the explicit stack of MapEachIterator) yield the L1 "
             "element sequence. MC_C02b: any/all over [not] x o1 y [o2 z] for all operators, and Q(x) / Q(not x), on every assignment of "
             "boolean arrays of length 0..2 or absence to x, y, z (512 contexts), with the in-model theorem that WfEval equals an "
             "independently written L1 (shortest operand, element-wise, binding strength, quantifier on an absent value). "
             "Random filters over container fields nested to depth 3 (index paths with [n], [\"k\"], [*], bool-array logic, any/all), "
             "each executed on random contexts (empty/ragged/absent containers), recorded and validated by Trace_Lang against "
             "GetPath/Flatten/EvalV (L1)",
        assumptions=["token renderer and abs() projection of the harness"],
        stages=[
            mc("index-paths", "MC_C02.tla", "MC_C02.cfg"),
            mc("elementwise-logic", "MC_C02b.tla", "MC_C02b.cfg", workers=4),
            mc("call-result-indexing", "MC_C03.tla", "MC_C03_concat.cfg"),
            lang("containers", "c02", 4000, 120000, ["--nctx", "6", "--depth", "3", "--nestpct", "45"], shards=SH),
            lang("rich", "rich", 2000, 60000, ["--nctx", "5", "--depth", "3"], shards=SH, seed_off=1),
        ],
    ),
    "C03": dict(
        level="model_checking",
        rule="random calls of the harness function family (identity/len/pair/optional/literal-only/field-only/bool converters/"
             "ctxfn/concat) with field, index, map-each, literal, nested-call and logical arguments; results validated against "
             "EvalCall/FnSem (L1)",
        assumptions=["the harness functions compute the same pure functions as WfEval!FnSem (twin definitions)"],
        stages=[
            mc("calls-0", "MC_C03.tla", "MC_C03_0.cfg"),
            mc("calls-1", "MC_C03.tla", "MC_C03_1.cfg"),
            mc("calls-concat", "MC_C03.tla", "MC_C03_concat.cfg"),
            mc("calls-optional-params", "MC_C03.tla", "MC_C03_opt2.cfg"),
            mc("calls-dropping", "MC_C03.tla", "MC_C03_drop.cfg"),
            mc("calls-two-arguments-other-type", "MC_C03.tla", "MC_C03_plen.cfg"),
            mc("calls-three-arguments", "MC_C03.tla", "MC_C03_join3.cfg"),
            mc("calls-2", "MC_C03.tla", dict(quick=None, thorough="MC_C03_2.cfg")),
            mc("calls-3", "MC_C03.tla", dict(quick=None, thorough="MC_C03_3.cfg")),
            lang("calls", "rich", 4000, 150000, ["--nctx", "6", "--depth", "3", "--callpct", "70"], shards=SH),
        ],
    ),
    "C04": dict(
        level="model_checking",
        rule="well-typed random compositions and single/double-token mutations of them (operator, literal kind, index kind, "
             "identifier, bracket, argument changes); parse verdict must equal the L2 parser model's, accepted programs are "
             "executed on every context without panic",
        assumptions=["mutations stay inside the modelled token fragment (see DESIGN section 8)"],
        stages=[
            mc("matrix-cmp", "MC_C04.tla", "MC_C04_cmp.cfg"),
            mc("matrix-index", "MC_C04.tla", "MC_C04_index.cfg"),
            mc("matrix-logic", "MC_C04.tla", "MC_C04_logic.cfg"),
            mc("matrix-chains", "MC_C04.tla", "MC_C04_logic3.cfg"),
            mc("matrix-quantifiers", "MC_C04.tla", "MC_C04_quant.cfg", workers=2),
            mc("calls-typed-absence", "MC_C03.tla", "MC_C03_0.cfg"),
            mc("texts-literal-arguments-bytes", "MC_Text.tla", dict(quick="MC_Text_argb3.cfg", thorough="MC_Text_argb4.cfg"), workers=4),
            mc("texts-literal-arguments-ip", "MC_Text.tla", dict(quick="MC_Text_argip3.cfg", thorough="MC_Text_argip4.cfg"), workers=4),
            lang("mutants", "rich", 5000, 200000, ["--nctx", "4", "--depth", "3", "--mutate", "60"], shards=SH),
            lang("scalar-mutants", "c01", 2000, 60000, ["--nctx", "4", "--depth", "4", "--mutate", "60"], shards=SH, seed_off=2),
        ],
    ),
    "C05": dict(
        level="exploration",
        rule="WfText, the character-level transcription of the parser (white space, keyword prefixes, identifier ends, literal lexers, "
             "argument classification), decides the verdict and the AST of arbitrary TEXT: MC_Text enumerates every concatenation of <= "
             "MaxAtoms atoms (keywords in both spellings, identifiers that begin with keywords, brackets, literals of every kind, space, "
             "line feed) for three atom sets; random filters are laid out with any or no white space in any gap, corrupted at character "
             "level and validated by Trace_Lang (text events). Totality proper: inputs parsed in a child process (8 MiB main stack; every 5th on a 2 MiB thread; filter and value-expression entry "
             "points): 21 structural stress inputs of 1e5 elements (flat chains, nestings of ( / not / ! / any( / call( / [ , mixed, "
             "brace lists, # runs at 255/256/1e5, long strings/escapes, 1e5 lines, CRLF lines), random bytes decoded lossily, character "
             "soups over the language's characters incl. multi-byte ones and tabs, token soups, valid random filters with 1-3 character "
             "insertions/deletions/duplications/truncations/swaps. Trace_Total accepts only outcomes ast/error and checks line, echoed "
             "line, column range and caret layout of every error against the input. Token soups over the modelled alphabet are "
             "additionally judged exactly by the L2 parser model (Trace_Lang).",
        assumptions=["inputs for arbitrary Unicode are produced by harness generators, not derived from the model",
                     "a child killed by a signal or a missing answer is recorded as a crash outcome"],
        stages=[
            mc("texts-logic", "MC_Text.tla", dict(quick="MC_Text_logic3.cfg", thorough="MC_Text_logic4.cfg"), workers=6),
            mc("texts-comparisons", "MC_Text.tla", dict(quick="MC_Text_cmp3.cfg", thorough="MC_Text_cmp4.cfg"), workers=6),
            mc("texts-index-call", "MC_Text.tla", dict(quick="MC_Text_idx3.cfg", thorough="MC_Text_idx4.cfg"), workers=6),
            mc("texts-value-expressions", "MC_Text.tla", dict(quick="MC_Text_value3.cfg", thorough="MC_Text_value4.cfg"), workers=6),
            trace("inputs", "Trace_Total", ["gen-total", "--stress", "--big", "100000"], 3000, 200000, shards=SH),
            lang("texts", "text", 2500, 100000, ["--nctx", "3", "--depth", "3", "--repct", "15", "--mutate", "30"], shards=SH, seed_off=7),
            lang("token-soups", "soup", 6000, 300000, ["--nctx", "2"], shards=SH),
            lang("mutants", "rich", 2000, 60000, ["--nctx", "2", "--depth", "3", "--mutate", "80"], shards=SH, seed_off=4),
        ],
    ),
    "C06": dict(
        level="model_checking",
        rule="every candidate text of <= MaxLen characters over per-form alphabets (integers: - 0 1 7 8 9 a f x g .; quoted bodies: "
             "\\ \" x 0 7 8 a g + e-acute; raw: \" # a; hex pairs: 0 a f g + : - .; index literals; IP texts: 1 0 . / : f, in `ip == T` and "
             "`ip in {T}`; 11 base addresses x every prefix length 0..130 and every pair as a range) is lexed by the character-level "
             "specification (WfLexLit, WfLexIp: std's IPv4/IPv6 text grammar, blocks without host bits, ordered same-family ranges) and embedded in a filter: the engine must accept exactly the well-formed literals that span "
             "the whole text and decode the specified value. Random values rendered in every form (and corrupted variants, i64 and "
             "u32 boundaries) are validated by Trace_Lit; literals inside whole filters are covered by the Trace_Lang checks.",
        exhaustive=True,
        assumptions=["Rust integer formatting renders random values", "short IPv4 forms accepted by the cidr crate (10, 10.1, 010.1.2) are not judged (the documentation does not define them)"],
        stages=[
            mc("int", "MC_C06.tla", "MC_C06_int.cfg", replay_cmd="replay-lit"),
            mc("index", "MC_C06.tla", "MC_C06_index.cfg", replay_cmd="replay-lit"),
            mc("quoted", "MC_C06.tla", "MC_C06_quoted.cfg", replay_cmd="replay-lit"),
            mc("raw", "MC_C06.tla", "MC_C06_raw.cfg", replay_cmd="replay-lit"),
            mc("hex", "MC_C06.tla", dict(quick=None, thorough="MC_C06_hex.cfg"), replay_cmd="replay-lit"),
            mc("hex5", "MC_C06.tla", dict(quick="MC_C06_hex5.cfg", thorough=None), replay_cmd="replay-lit"),
            mc("int-boundaries", "MC_C06.tla", "MC_C06_intbounds.cfg", replay_cmd="replay-lit", workers=2),
            mc("index-boundaries", "MC_C06.tla", "MC_C06_indexbounds.cfg", replay_cmd="replay-lit", workers=2),
            mc("int-items", "MC_Text.tla", dict(quick="MC_Text_intitems4.cfg", thorough="MC_Text_intitems5.cfg"), workers=6),
            mc("ip-items", "MC_C06.tla", dict(quick="MC_C06_ip6.cfg", thorough="MC_C06_ip7.cfg"), replay_cmd="replay-lit"),
            mc("ip-addresses", "MC_C06.tla", dict(quick="MC_C06_ipeq6.cfg", thorough="MC_C06_ipeq7.cfg"), replay_cmd="replay-lit"),
            mc("ip-blocks-and-ranges", "MC_C06.tla", "MC_C06_blocks.cfg", replay_cmd="replay-lit"),
            trace("random-literals", "Trace_Lit", ["gen-lit"], 6000, 400000, shards=SH),
            lang("in-filters", "rich", 1500, 40000, ["--nctx", "2", "--depth", "2", "--callpct", "10"], shards=SH, seed_off=3),
        ],
    ),
    "C07": dict(
        level="model_checking",
        rule="for each random filter: 4 alias/white-space variants must parse to equal ASTs with identical JSON text and hash, "
             "the tagged JSON must equal WfJson!AstJson, and a mutated partner must serialize differently iff its AstJson differs",
        assumptions=["std DefaultHasher is used as the Hash consumer"],
        stages=[
            mc("aliases", "MC_C07.tla", "MC_C07.cfg"),
            mc("quoted-regex-literals", "MC_C11.tla", "MC_C11_scan.cfg", workers=4),
            lang("canon", "c07", 2500, 80000, ["--nctx", "1", "--depth", "3", "--mutate", "10"], shards=SH),
            lang("texts", "text", 1500, 60000, ["--nctx", "2", "--depth", "3", "--repct", "10"], shards=SH, seed_off=3),
        ],
    ),
    "C08": dict(
        level="model_checking",
        rule="every history of <= MaxLen operations (set by name / by own field / by a twin scheme's field x 3 fields x value pool "
             "with well- and ill-typed values, get, clear, clone, take, borrow+set(+clear)+drop, setlist, execute of filters and of value "
             "expressions parsed with the own/twin scheme) "
             "over two structurally identical schemes; each finished history is replayed step by step on real contexts comparing every "
             "result and the final projected state. MC_C08v: every array and map of <= 3 elements over a pool of well- and ill-typed elements "
             "(other primitive, same container/other element, other depth, empty) for 7 declared element types, built through every public "
             "route (try_from_vec, try_from_iter), accepted iff homogeneous. Random histories of length 50 over the rich scheme (incl. value "
             "expressions against twin contexts and spoiled container constructions) are validated by Trace_Ctx.",
        exhaustive=True,
        assumptions=["abs(ctx) reads the context through get_field_value/get_list_matcher"],
        stages=[
            mc("histories", "MC_C08.tla", dict(quick="MC_C08_quick.cfg", thorough="MC_C08_thorough.cfg"), replay_cmd="replay-hist"),
            mc("construction", "MC_C08v.tla", "MC_C08v.cfg", replay_cmd="replay-hist", workers=4),
            mc("histories-with-borrows-and-round-trips", "MC_C17r.tla", "MC_C17r.cfg", replay_cmd="replay-hist"),
            trace("random-histories", "Trace_Ctx", ["gen-hist", "--len", "50"], 40, 1600, shards=SH),
        ],
    ),
    "C09": dict(
        level="model_checking",
        rule="random `in {..}` comparisons with up to 40 items (values, ranges, CIDRs, mixed families) whose endpoints are drawn "
             "around context values and type extremes; results validated against WfEval!InItem (declarative membership)",
        assumptions=[],
        stages=[
            mc("range-lists", "MC_C09.tla", dict(quick="MC_C09_quick.cfg", thorough="MC_C09_thorough.cfg")),
            mc("byte-strings-of-every-length-class", "MC_C09L.tla", "MC_C09L.cfg", workers=4),
            lang("sets", "rich", 3000, 100000, ["--nctx", "8", "--depth", "1", "--setpct", "85", "--setmax", "40", "--listpct", "0", "--callpct", "5", "--nestpct", "5"], shards=SH),
        ],
    ),
    "C10": dict(
        level="model_checking",
        rule="(a) every haystack <= 8 and pattern <= 4 bytes over {a,b}; (b) pad^a . variant(p) . pad^b for pattern lengths across the "
             "empty / 1 / 2..16 / >16 specialisations, offsets around 16/32/64-byte block edges, variants exact / first, last, middle "
             "byte changed / truncated / doubled. Every case is compiled for every SIMD anchor position 1..len-1 (hook) and twice with "
             "the production random anchor, executed with AVX2 on and, in a second process with WIREFILTER_USE_AVX2=0, on the scalar "
             "fallback; answers must equal Occurs(p, h). Random haystacks to 300 bytes / patterns to 40 bytes with planted and "
             "near-miss occurrences are validated by Trace_Contains on both paths.",
        exhaustive=True,
        assumptions=["memory safety of the SIMD search is not observed, only answers"],
        stages=[
            mc("small-simd", "MC_C10.tla", "MC_C10_small.cfg", replay_cmd="replay-contains", nondeterministic=True),
            mc("small-scalar", "MC_C10.tla", "MC_C10_small.cfg", replay_cmd="replay-contains", replay_env={"WIREFILTER_USE_AVX2": "0"}, nondeterministic=True),
            mc("small-with-nul-simd", "MC_C10.tla", "MC_C10_small0.cfg", replay_cmd="replay-contains", nondeterministic=True),
            mc("small-with-nul-scalar", "MC_C10.tla", "MC_C10_small0.cfg", replay_cmd="replay-contains", replay_env={"WIREFILTER_USE_AVX2": "0"}, nondeterministic=True),
            mc("struct-simd", "MC_C10.tla", dict(quick="MC_C10_struct_quick.cfg", thorough="MC_C10_struct_thorough.cfg"), replay_cmd="replay-contains", nondeterministic=True),
            mc("struct-scalar", "MC_C10.tla", dict(quick="MC_C10_struct_quick.cfg", thorough="MC_C10_struct_thorough.cfg"), replay_cmd="replay-contains", replay_env={"WIREFILTER_USE_AVX2": "0"}, nondeterministic=True),
            trace("random-simd", "Trace_Contains", ["gen-contains"], 3000, 150000, shards=SH, nondeterministic=True),
            trace("random-scalar", "Trace_Contains", ["gen-contains"], 1500, 60000, shards=SH, gen_env={"WIREFILTER_USE_AVX2": "0"}, seed_off=5),
        ],
    ),
    "C11": dict(
        level="model_checking",
        rule="(a) every regex AST of the subset up to two construction levels over {a, b, \", ], any, classes} in quoted and raw form "
             "(in-model: the quoted scanner inverts the documented quoting) and (b) every wildcard pattern <= MaxLen over {a, A, *, ?, \\} "
             "x strict/case-insensitive x star limit {unlimited,0,1,2}: expected parse verdict, AST JSON and the result on a pool of 28 "
             "values (incl. LF, quotes, brackets, 0xff, upper case, absent) from the set-of-end-positions semantics. Random deeper "
             "patterns incl. an invalid-regex catalogue, values over the pattern alphabet, per-element application, star limits 0..4 and "
             "compiled-size-limit monotonicity are validated by Trace_Lang.",
        exhaustive=True,
        assumptions=["classes starting with an unescaped ] are not generated", "the compiled regex size is opaque (monotone facts only)"],
        stages=[
            mc("regex-level1", "MC_C11.tla", "MC_C11_regex1.cfg"),
            mc("regex-level2", "MC_C11.tla", dict(quick=None, thorough="MC_C11_regex2.cfg")),
            mc("wildcards", "MC_C11.tla", dict(quick="MC_C11_wild4.cfg", thorough="MC_C11_wild5.cfg")),
            mc("quoted-literal-scanner", "MC_C11.tla", "MC_C11_scan.cfg", workers=4),
            lang("patterns", "c11", 4000, 160000, ["--nctx", "8"], shards=SH),
        ],
    ),
    "C12": dict(
        level="model_checking",
        rule="uses()/uses_list() of every scheme field (and an unknown name, and a function name) on every random filter and value "
             "expression, validated against WfSyntax!UsesLogical/UsesListLogical",
        assumptions=[],
        stages=[
            mc("calls-0", "MC_C03.tla", "MC_C03_0.cfg"),
            mc("calls-3", "MC_C03.tla", "MC_C03_3.cfg"),
            lang("uses", "rich", 4000, 120000, ["--nctx", "1", "--depth", "3", "--callpct", "60", "--listpct", "35"], shards=SH),
        ],
    ),
    "C13": dict(
        level="model_checking",
        rule="nesting shapes over {paren, not, any/all, call} of depth 0..9 against limits 0..8 and depth d-1,d,d+1 against "
             "d in {16,64,128,129,200}, with the deep path in chain operands and call arguments; verdict must equal the L2 counter model",
        assumptions=[],
        stages=[
            mc("shapes", "MC_C13.tla", dict(quick="MC_C13_quick.cfg", thorough="MC_C13_thorough.cfg")),
            lang("nesting", "c13", 4000, 100000, ["--nctx", "2"], shards=SH),
        ],
    ),
    "C14": dict(
        level="model_checking",
        rule="MC_C14 (TLC-enumerated): every field type of depth <= 1 x every document node of depth <= 1 over a scalar pool, five depth-2 "
             "types x depth-2 nodes, map types x every array of <= 2 [key, value] pairs (string / byte-array / non-UTF-8 / malformed keys, "
             "duplicates, wrong arity), and every document of <= 3 entries over well-typed / ill-typed / unknown / duplicate fields and "
             "$lists sections: verdict, stored value (also as a Value tree presents the document) and canonical re-encoding; in-model "
             "theorem DecValue(T, EncValue(v)) = v. "
             "Random contexts over a rich scheme with lists, a list-free scheme and a field-free scheme: the serialized text must "
             "denote the document EncFields/EncLists prescribes; fed back through from_str, from_slice, from_reader, a Value tree "
             "and the C API it must give an equal context; one structural mutation per document (type swaps, nesting changes, "
             "pair arity, byte 256, unknown field, duplicate field, $lists entries with unknown/deep/unregistered types or missing "
             "data, non-object top level) must be accepted iff the type-directed decoder DecEntries accepts it, never panic and "
             "never store a wrong-typed value; strict prefixes are rejected",
        exhaustive=True,
        assumptions=["strings that parse as IP addresses denote IP nodes that keep their text (a Bytes field takes the text)",
                     "matcher data of the harness list is opaque to the specification"],
        stages=[
            mc("values-depth1", "MC_C14.tla", "MC_C14_val1.cfg", replay_cmd="replay-serde", workers=4),
            mc("values-depth2", "MC_C14.tla", "MC_C14_val2.cfg", replay_cmd="replay-serde", workers=4),
            mc("map-pairs", "MC_C14.tla", "MC_C14_pairs.cfg", replay_cmd="replay-serde", workers=4),
            mc("documents", "MC_C14.tla", "MC_C14_docs.cfg", replay_cmd="replay-serde", workers=6),
            mc("context-histories-with-round-trips", "MC_C17r.tla", "MC_C17r.cfg", replay_cmd="replay-hist"),
            trace("serde", "Trace_Serde", ["gen-serde"], 2400, 120000, shards=SH),
        ],
    ),
    "C15": dict(
        level="model_checking",
        rule="every type with <= MaxDepth layers (every array/map layer string over the 4 primitives) is built in the model "
             "(Unpack(Pack(T)) = T checked in-model) and replayed: CompoundType and CType packed fields, round trips, C-API type "
             "construction chain, JSON through from_str/from_slice/from_reader/Value and the C API; regular layer strings of "
             "13..130 layers; random types to 130 layers and random schemes (0..40 fields, dotted/long/non-ASCII/escaped names, "
             "duplicates) validated by Trace_Types",
        exhaustive=True,
        assumptions=["CompoundType's packed fields are read from its Debug output", "a serde_json::Value object cannot carry duplicate keys"],
        stages=[
            mc("types", "MC_C15.tla", dict(quick="MC_C15_quick.cfg", thorough="MC_C15_thorough.cfg"), replay_cmd="replay-types", workers=4),
            mc("deep", "MC_C15.tla", "MC_C15_deep.cfg", replay_cmd="replay-types", workers=2),
            trace("random-types-and-schemes", "Trace_Types", ["gen-types"], 1500, 60000, shards=SH),
        ],
    ),
    "C18": dict(
        level="exploration",
        rule="WfConcurrent (3 threads x 2 executions, LazyLock latch) is model-checked: latch agreement, results = sequential meaning. "
             "Stress: 12 random filters (regex/wildcard, contains, `in {..}`, lists, map-each, calls) compiled once and executed from "
             "T in {2,4,16,64} threads released by a barrier, on shared (even threads) and per-thread (odd threads) copies of 5 contexts, "
             "hundreds of rounds in per-thread orders; fresh child processes race the first use of lazily initialised state with 16/64 "
             "threads; a fresh compilation of every filter is compared as well. Per thread and (filter, context) the set of distinct "
             "results observed must be exactly { EvalFilter(filter, context) } (Trace_Conc) and the SIMD switch the process-wide value.",
        assumptions=["thread schedules are not controllable: stress exploration judged by the specification",
                     "data races without an observable effect on results are out of reach"],
        stages=[
            mc("latch-model", "WfConcurrent.tla", "MC_C18.cfg", replay=False),
            trace("stress", "Trace_Conc", ["gen-conc", "--rounds", "400", "--procs", "12"], 1, 6, env={"FILTERS": "filters.ndjson"}, shards=dict(quick=1, thorough=4)),
            trace("stress-scalar", "Trace_Conc", ["gen-conc", "--rounds", "100", "--procs", "4"], 1, 2, env={"FILTERS": "filters.ndjson"},
                  gen_env={"WIREFILTER_USE_AVX2": "0"}, seed_off=9, shards=dict(quick=1, thorough=2)),
        ],
    ),
    "C19": dict(
        level="model_checking",
        rule="every well-bracketed script of <= MaxLen steps over {enable, disable, enter, ret, panic, sethook, cont, bt} on one "
             "thread, and every pair of such scripts on two threads under every interleaving at step granularity; in-model: Balance "
             "(level = number of catching frames), OwnMessage, EscapeIffForwarded, Isolation (interleaved = alone). Every terminal "
             "behaviour is executed for real on fresh threads (two-thread ones in lock-step with TLC's schedule) comparing catch_panic "
             "results, backtrace queries, the nesting level after every step (hook), the count of panics reaching the previously "
             "installed hook and escapes. Random 200-step scripts on 8 concurrent threads are validated by Trace_Panic; so are scripts run by 8 threads "
             "of a fresh process that race the first installation of the hook (WfPanicInstall is the step-level model of that race).",
        exhaustive=True,
        assumptions=["fallback mode Abort is not executed (it terminates the process)", "in the MC stages the hook is installed before the scripts run; the first-install-race stage starts fresh processes whose 8 threads all call panic_catcher_set_hook() first, concurrently (model: WfPanicInstall)"],
        stages=[
            mc("one-thread", "MC_C19.tla", dict(quick="MC_C19_1q.cfg", thorough="MC_C19_1t.cfg"), replay_cmd="replay-panic"),
            mc("two-threads", "MC_C19.tla", dict(quick="MC_C19_2q.cfg", thorough="MC_C19_2t.cfg"), replay_cmd="replay-panic"),
            trace("concurrent-scripts", "Trace_Panic", ["gen-panic", "--len", "200"], 6, 250, shards=dict(quick=1, thorough=4)),
            mc("install-once", "WfPanicInstall.tla", "WfPanicInstall.cfg", replay=False, workers=2),
            mc("install-flag-is-racy", "WfPanicInstall.tla", "WfPanicInstall_flag.cfg", replay=False, workers=1,
               expect_violation="RecordedIfInstalled"),
            trace("first-install-race", "Trace_Panic", ["gen-panic", "--raceonly"], 60, 3000, shards=dict(quick=1, thorough=4)),
        ],
    ),
    "C16": dict(
        level="model_checking",
        rule="every sequence of <= MaxLen add_field/add_optional_field/add_function/add_list calls over colliding names "
             "(x, x.y, x.y.z, X, xy, x_y) x types x optionality; each history is replayed on a SchemeBuilder, then the built scheme is "
             "probed (get_field, get_function, counts, orders, parse of `name` and `name()`) for 11 names incl. prefixes, extensions "
             "and case variants; clone == and rebuild != are checked. Random histories of length 60 over a 40-name pool are "
             "validated by Trace_Reg.",
        exhaustive=True,
        assumptions=[],
        stages=[
            mc("registrations", "MC_C16.tla", dict(quick="MC_C16_quick.cfg", thorough="MC_C16_thorough.cfg"), replay_cmd="replay-reg"),
            trace("random-registrations", "Trace_Reg", ["gen-reg", "--len", "60"], 30, 1500, shards=SH),
        ],
    ),
    "C17": dict(
        level="model_checking",
        rule="random `in $name` comparisons (valid and invalid names over a 1 _ . A - z) on fields, index paths, map-each paths and "
             "calls, against set/always/never list definitions registered for different types",
        assumptions=["SetMatcher is the harness's list matcher (membership in named sets)"],
        stages=[
            mc("list-names", "MC_C17.tla", dict(quick="MC_C17_quick.cfg", thorough="MC_C17_thorough.cfg")),
            lang("lists", "rich", 4000, 120000, ["--nctx", "6", "--depth", "2", "--listpct", "70", "--badname", "30"], shards=SH),
            mc("histories", "MC_C08.tla", dict(quick="MC_C08_quick.cfg", thorough="MC_C08_thorough.cfg"), replay_cmd="replay-hist"),
            mc("list-state-histories", "MC_C17r.tla", "MC_C17r.cfg", replay_cmd="replay-hist"),
            trace("list-histories", "Trace_Ctx", ["gen-hist", "--len", "50", "--listpct", "25"], 30, 800, shards=SH),
        ],
    ),
    "C20": dict(
        level="model_checking",
        rule="WfFfi (per-thread last error: unchanged by success, set to a non-empty NUL-free text by failure, reset by clear, never "
             "touched by another thread) is model-checked for 2 threads x 4 calls. Sessions on 4 concurrent threads drive the exported "
             "functions as Rust functions side by side with the Rust API on twin objects: scheme construction, parse (random and "
             "mutated filters; NUL, invalid UTF-8, garbage; a function panicking in check_param), serialize, hash (vs FNV-1a of the Rust "
             "JSON), uses/uses_list (known, unknown, non-UTF-8 names), compile and match (incl. panicking functions and a context of "
             "another scheme), typed and JSON setters (right/wrong type, unknown and non-UTF-8 names), context (de)serialization, "
             "get/clear last error. Trace_Ffi keeps every thread's last error as state and accepts a call iff status and output equal "
             "the Rust API's and the last-error protocol is obeyed (text = Rust error text with NUL -> 0x1A).",
        assumptions=["the C API is called from Rust through the rlib", "FNV-1a is computed with the fnv crate"],
        stages=[
            mc("last-error-model", "MC_C20.tla", "MC_C20.cfg", replay_cmd="replay-ffiseq", workers=4),
            mc("catcher-and-panics", "MC_C20c.tla", "MC_C20c.cfg", replay_cmd="replay-fficatch", workers=2),
            trace("sessions", "Trace_Ffi", ["gen-ffi", "--steps", "60"], 3, 120, shards=dict(quick=1, thorough=6)),
        ],
    ),
}


def replay_env_for(prop, stage):
    for st in CHECKS.get(prop, {}).get("stages", []):
        if st["name"] == stage:
            return st.get("replay_env") or st.get("gen_env")
    return None


def replay_cmd_for(prop, stage):
    for st in CHECKS.get(prop, {}).get("stages", []):
        if st["name"] == stage:
            return st.get("replay_cmd", "replay")
    return "replay"
