CONSTANTS
  Mode = "wild"
  Level = 0
  MaxLen = 5
SPECIFICATION Spec
INVARIANTS ScannerInvertsQuoting WildMonotone Emit
CHECK_DEADLOCK FALSE
