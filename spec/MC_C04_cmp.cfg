CONSTANTS
  Mode = "cmp"
SPECIFICATION Spec
INVARIANTS TableIsParser Emit
CHECK_DEADLOCK FALSE
