------------------------------- MODULE MC_C14 -------------------------------
(***************************************************************************)
(* Bounded model of the type-directed JSON decoder and of the encoder      *)
(* (property C14), spec -> impl.                                           *)
(*                                                                         *)
(* Part "val1":  every field type of depth <= 1 x every document node of   *)
(*               depth <= 1 over a scalar pool (booleans, numbers around   *)
(*               the byte boundary, strings, an address, null), arrays and *)
(*               objects (keys a, b; duplicates included) of <= 2 members. *)
(* Part "val2":  five types of depth 2 x nodes of depth 2.                 *)
(* Part "pairs": map types x arrays of <= 2 [key, value] pairs: keys as    *)
(*               strings, as arrays of byte numbers (UTF-8 and not), and   *)
(*               malformed; duplicate keys; pairs of the wrong length.     *)
(* Part "docs":  whole documents: every sequence of <= 3 entries over      *)
(*               well-typed / ill-typed / unknown / duplicate fields and   *)
(*               "$lists" sections, for a scheme with three fields and     *)
(*               two lists (the fold of DecEntries).                       *)
(*                                                                         *)
(* Each case carries the decoder's verdict and value and, when accepted,   *)
(* the canonical encoding of the decoded value.  The harness feeds the     *)
(* document through from_str / from_slice / from_reader / a Value tree /   *)
(* the C API into fresh contexts, compares verdict and stored value, then  *)
(* serializes the context and compares with the canonical encoding.        *)
(* In-model theorem (RoundTrip): every accepted value is well typed for    *)
(* the field and DecValue(T, EncValue(v)) = v -- across both encodings of  *)
(* byte strings and maps.                                                  *)
(***************************************************************************)
EXTENDS WfSerde, WfContext, Json
CONSTANTS Part
VARIABLES c

KA == <<97>>
KB == <<98>>
IpN == [j |-> "ip", v |-> <<1, 2, 3, 4>>, txt |-> <<49, 46, 50, 46, 51, 46, 52>>]
(* an IPv4-mapped IPv6 address: must stay an IPv6 address through every encoding *)
IpM == [j |-> "ip", v |-> <<0, 0, 0, 0, 0, 0, 0, 0, 0, 0, 255, 255, 1, 2, 3, 4>>, txt |-> <<58, 58, 102, 102, 102, 102, 58, 49, 46, 50, 46, 51, 46, 52>>]
Null == [j |-> "null"]
N0 == JNum(IntOfNat(0))
N255 == JNum(IntOfNat(255))
N256 == JNum(IntOfNat(256))
NM1 == JNum(<<-1, 65535, 65535, 65535>>)
S == {JBool(TRUE), N0, N255, N256, NM1, JStr(KA), JStr(<<>>), IpN, IpM, Null}
Upto2(X) == {<<>>} \cup {<<x>> : x \in X} \cup {<<x, y>> : x \in X, y \in X}
Arrs(X) == {JArr(s) : s \in Upto2(X)}
Objs(X) == {JObj(s) : s \in Upto2({[k |-> k, v |-> x] : k \in {KA, KB}, x \in X})}

Prims == {TBool, TInt, TIp, TBytes}
Ty1 == Prims \cup {TArr(p) : p \in Prims} \cup {TMap(p) : p \in Prims}
Ty2 == {TArr(TArr(TInt)), TArr(TArr(TBytes)), TArr(TMap(TBytes)), TMap(TArr(TBytes)), TMap(TMap(TBool))}
M == {JArr(<<>>), JArr(<<N0>>), JArr(<<JStr(KA)>>), JArr(<<N0, N255>>), JArr(<<N256>>), JObj(<<>>),
      JObj(<<[k |-> KA, v |-> JStr(KA)]>>), JObj(<<[k |-> KA, v |-> JBool(TRUE)]>>), N0, JStr(KA),
      JArr(<<JArr(<<JStr(KA), JStr(KA)>>)>>), JArr(<<JArr(<<JArr(<<N255>>), JBool(TRUE)>>)>>)}

PairKeys == {JStr(KA), JStr(KB), JArr(<<JNum(IntOfNat(97))>>), JArr(<<N255>>), N0}
PairVals == {N0, N255, JStr(KA), JBool(TRUE), IpN, JArr(<<N0>>)}
Pairs == {JArr(<<k, x>>) : k \in PairKeys, x \in PairVals}
         \cup {JArr(<<JStr(KA)>>), JArr(<<JStr(KA), N0, N0>>), JStr(KA)}
TyP == {TMap(p) : p \in Prims} \cup {TMap(TArr(TInt))}

ValCases ==
  IF Part = "val1" THEN {[ty |-> T, node |-> n] : T \in Ty1, n \in S \cup Arrs(S) \cup Objs(S)}
  ELSE IF Part = "val2" THEN {[ty |-> T, node |-> n] : T \in Ty2, n \in Arrs(M) \cup Objs(M)}
  ELSE IF Part = "pairs" THEN {[ty |-> T, node |-> n] : T \in TyP, n \in Arrs(Pairs)}
  ELSE {}

----------------------------------------------------------------------------
(* whole documents *)
DocScheme == [fields |-> <<[name |-> "f1", ty |-> TInt, opt |-> FALSE],
                           [name |-> "f2", ty |-> TBytes, opt |-> FALSE],
                           [name |-> "f3", ty |-> TArr(TInt), opt |-> FALSE]>>,
              funcs |-> <<>>, lists |-> <<TInt, TIp>>, listkinds |-> <<"set", "set">>, nne |-> FALSE]
SetA == [kind |-> "set", sets |-> <<[name |-> KA, vals |-> <<VInt(IntOfNat(1))>>]>>]
SetB == [kind |-> "set", sets |-> <<[name |-> KB, vals |-> <<VIp(<<1, 2, 3, 4>>)>>]>>]
Missing == [kind |-> "missing", sets |-> <<>>]
LE(T, d) == [type |-> TypeDoc(T), data |-> d]
Fld(n, v) == [kind |-> "field", name |-> n, v |-> v]
Lst(es) == [kind |-> "lists", entries |-> es]
DeepDoc == [prim |-> "Int", lay |-> [i \in 1..33 |-> 0]]
EntryPool == {Fld("f1", N0), Fld("f1", N256), Fld("f1", JStr(KA)), Fld("f2", JStr(KA)), Fld("f2", JArr(<<N255>>)),
              Fld("f3", JArr(<<N0, N255>>)), Fld("f3", JArr(<<JStr(KA)>>)), Fld("nosuch", N0), Fld("$x", N0),
              Lst(<<>>), Lst(<<LE(TInt, SetA)>>), Lst(<<LE(TInt, SetA), LE(TIp, SetB)>>), Lst(<<LE(TIp, SetB), LE(TInt, SetA)>>),
              Lst(<<LE(TArr(TBool), SetA)>>), Lst(<<LE(TInt, Missing)>>),
              Lst(<<[type |-> DeepDoc, data |-> SetA]>>), Lst(<<[type |-> [prim |-> "Foo", lay |-> <<>>], data |-> SetA]>>)}
Upto3(X) == Upto2(X) \cup {<<x, y, z>> : x \in X, y \in X, z \in X}
DocCases == IF Part = "docs" THEN {[entries |-> es] : es \in Upto3(EntryPool)} ELSE {}

Init == c \in ValCases \cup DocCases
Next == UNCHANGED c
Spec == Init /\ [][Next]_c

IsVal == "ty" \in DOMAIN c
Dec == DecValue(c.ty, c.node)
(* the same node as a serde_json::Value tree holds it: objects keep one entry per key (last wins), key-sorted *)
RECURSIVE VNode(_), VObj(_, _)
VObj(es, acc) == IF es = <<>> THEN acc ELSE VObj(Tail(es), MapPut(acc, Head(es).k, VNode(Head(es).v)))
VNode(n) == IF n.j = "arr" THEN JArr(Strict([i \in 1..Len(n.v) |-> VNode(n.v[i])]))
            ELSE IF n.j = "obj" THEN JObj(VObj(n.v, <<>>))
            ELSE n
VDecV == DecValue(c.ty, VNode(c.node))
RoundTrip == IsVal /\ Dec.ok =>
               /\ TypeOf(Dec.v) = c.ty /\ WellTyped(Dec.v)
               /\ DecValue(c.ty, EncValue(Dec.v)) = Good(Dec.v)

(* a document with a non-empty "$lists" section cannot be read from a Value tree (finding F10, *)
(* reported by the trace stage): such documents are not fed through that way here              *)
HasLists(es) == \E i \in 1..Len(es) : es[i].kind = "lists" /\ Len(es[i].entries) > 0
Schs == <<DocScheme>>
FreshCtx == LET x == NewCtx(Schs, 1) IN [vals |-> x.vals, lists |-> x.lists]
DocDec == DecEntries(DocScheme, c.entries, FreshCtx)
(* what a serde_json::Value tree presents: one entry per key (the last one wins), in key order *)
KeyOf(e) == IF e.kind = "lists" THEN "$lists" ELSE e.name
KeyOrder == <<"$lists", "$x", "f1", "f2", "f3", "nosuch">>
LastOf(es, k) == LET I == {i \in 1..Len(es) : KeyOf(es[i]) = k} IN
                 IF I = {} THEN <<>> ELSE <<es[CHOOSE i \in I : \A j \in I : j <= i]>>
VView(es) == LastOf(es, KeyOrder[1]) \o LastOf(es, KeyOrder[2]) \o LastOf(es, KeyOrder[3])
             \o LastOf(es, KeyOrder[4]) \o LastOf(es, KeyOrder[5]) \o LastOf(es, KeyOrder[6])
VDec == DecEntries(DocScheme, VView(c.entries), FreshCtx)
DocTheorem == ~IsVal /\ DocDec.ok =>
                \A i \in 1..3 : IsNil(DocDec.ctx.vals[i]) \/ TypeOf(DocDec.ctx.vals[i]) = DocScheme.fields[i].ty

Emit == PrintT(<<"REPLAY", ToJson(
          IF IsVal
          THEN [ev |-> "val", ty |-> TypeDoc(c.ty), node |-> c.node, ok |-> Dec.ok,
                v |-> IF Dec.ok THEN Dec.v ELSE Nil, enc |-> IF Dec.ok THEN EncValue(Dec.v) ELSE Null,
                vok |-> VDecV.ok, vv |-> IF VDecV.ok THEN VDecV.v ELSE Nil]
          ELSE [ev |-> "doc", scheme |-> DocScheme, entries |-> c.entries, ok |-> DocDec.ok,
                ctx |-> DocDec.ctx, skipvalue |-> HasLists(c.entries), vok |-> VDec.ok, vctx |-> VDec.ctx,
                fields |-> IF DocDec.ok THEN EncFields(DocScheme, DocDec.ctx) ELSE <<>>,
                lists |-> IF DocDec.ok THEN EncLists(DocScheme, DocDec.ctx) ELSE <<>>])>>)
=============================================================================
