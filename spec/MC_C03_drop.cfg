CONSTANTS
  Part = 13
SPECIFICATION Spec
INVARIANTS ArityRule MapEachOnlyFirst Emit
CHECK_DEADLOCK FALSE
