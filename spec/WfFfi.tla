------------------------------- MODULE WfFfi --------------------------------
(***************************************************************************)
(* The error-reporting protocol of the C API (property C20).               *)
(*                                                                         *)
(* Per thread t: lastErr[t] = "null" or a text.  Every exported call       *)
(* returns a status (Success / Error / Panic; boolean calls: true/false)   *)
(* and                                                                     *)
(*   - a successful call leaves lastErr[t] unchanged,                      *)
(*   - a failing call (Error or Panic) sets lastErr[t] to a non-empty text *)
(*     without interior NUL (NUL bytes of the message are replaced by      *)
(*     0x1A), terminated by a single NUL,                                  *)
(*   - clear_last_error sets it to null, get_last_error reads it,          *)
(*   - no call of another thread changes lastErr[t].                       *)
(* Calls are abstract here: Ok(t), Fail(t, text), Panic(t, text), Clear(t).*)
(***************************************************************************)
EXTENDS Naturals, Sequences, FiniteSets, TLC
CONSTANTS NThreads, MaxCalls, Texts      \* Texts: set of byte sequences that may contain 0
Threads == 1..NThreads
VARIABLES lastErr, calls, who, hist
vars == <<lastErr, calls, who, hist>>
NulSub(s) == [i \in 1..Len(s) |-> IF s[i] = 0 THEN 26 ELSE s[i]]
(* a parse-error message echoes the line of the input on which the error lies: of a failing tail x *)
(* appended to the valid prefix that is the part after its last line feed                          *)
LastLine(s) == LET P == {i \in 1..Len(s) : s[i] = 10} IN
               IF P = {} THEN s ELSE SubSeq(s, (CHOOSE i \in P : \A j \in P : j <= i) + 1, Len(s))
Null == <<"null">>
(* hist records every call with the last-error state of ALL threads after it (for replay) *)
Snap(le) == [t \in Threads |-> IF le[t] = Null THEN [null |-> TRUE, b |-> <<>>] ELSE [null |-> FALSE, b |-> le[t][2]]]
Init == lastErr = [t \in Threads |-> Null] /\ calls = 0 /\ who = 0 /\ hist = <<>>
Ok(t) == /\ calls < MaxCalls /\ calls' = calls + 1 /\ who' = t /\ UNCHANGED lastErr
         /\ hist' = Append(hist, [th |-> t, call |-> "ok", text |-> <<>>, after |-> Snap(lastErr)])
Fail(t) == /\ calls < MaxCalls /\ calls' = calls + 1 /\ who' = t
           /\ \E x \in Texts : /\ lastErr' = [lastErr EXCEPT ![t] = <<"text", NulSub(LastLine(x))>>]
                                 /\ hist' = Append(hist, [th |-> t, call |-> "fail", text |-> x, after |-> Snap(lastErr')])
Clear(t) == /\ calls < MaxCalls /\ calls' = calls + 1 /\ who' = t /\ lastErr' = [lastErr EXCEPT ![t] = Null]
            /\ hist' = Append(hist, [th |-> t, call |-> "clear", text |-> <<>>, after |-> Snap(lastErr')])
Next == \E t \in Threads : Ok(t) \/ Fail(t) \/ Clear(t)
Spec == Init /\ [][Next]_vars
(* invariants *)
WellFormed == \A t \in Threads : lastErr[t] = Null \/
                (Len(lastErr[t][2]) > 0 /\ \A i \in 1..Len(lastErr[t][2]) : lastErr[t][2][i] # 0)
(* only the calling thread's slot can change *)
ThreadLocal == [][\A t \in Threads : (lastErr'[t] # lastErr[t]) => who' = t]_vars
=============================================================================
