CONSTANTS
  Part = "val2"
SPECIFICATION Spec
INVARIANTS RoundTrip DocTheorem Emit
CHECK_DEADLOCK FALSE
