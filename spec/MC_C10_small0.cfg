CONSTANTS
  Mode = "small0"
  MaxH = 8
  MaxP = 4
  Pads = {0}
  PLens = {0}
SPECIFICATION Spec
INVARIANTS Sanity Emit
CHECK_DEADLOCK FALSE
