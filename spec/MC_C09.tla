------------------------------- MODULE MC_C09 -------------------------------
(* Bounded model of `in {..}` (property C09): every list of at most MaxItems ranges over the   *)
(* domain 0..Top (including reversed-order, duplicate, nested, touching and overlapping ones), *)
(* every probe.  In-model: the L2 RangeSet (sort + merge + binary search) agrees with          *)
(* declarative membership.  One vector per list: `i in { .. }` (and the same shape over        *)
(* 10.0.0.x addresses with CIDR blocks) with the expected answer for every probe and absent.   *)
EXTENDS WfRangeSet, WfParser, WfEval, WfJson, Json
CONSTANTS MaxItems, Top
VARIABLES rs
Ranges == {[lo |-> a, hi |-> b] : a \in 0..Top, b \in 0..Top} \ {r \in {[lo |-> a, hi |-> b] : a \in 0..Top, b \in 0..Top} : r.lo > r.hi}
Lists == UNION {[1..n -> Ranges] : n \in 0..MaxItems}
Init == rs \in Lists
Next == FALSE /\ UNCHANGED rs
Spec == Init /\ [][Next]_rs

RangeSetCorrect == /\ NormalForm(Normalise(rs))
                   /\ \A x \in 0..Top : RsContains(Normalise(rs), x) = Member(x, rs)

Sch == [fields |-> <<[name |-> "i", ty |-> TInt, opt |-> TRUE], [name |-> "ip", ty |-> TIp, opt |-> TRUE],
                     [name |-> "s", ty |-> TBytes, opt |-> TRUE]>>,
        funcs |-> <<>>, lists |-> <<>>, nne |-> TRUE]
(* byte strings with shared prefixes and the empty string; index = point of the domain + 1 *)
BPool == <<<<>>, <<97>>, <<97, 98>>, <<98>>, <<98, 97>>, <<98, 98>>, <<99>>, <<99, 99>>, <<100>>>>
(* the literal forms are mixed (quoted, raw, hex pairs): membership depends on the bytes only *)
BTxt == <<"\"\"", "r\"a\"", "61:62", "\"b\"", "r#\"ba\"#", "62:62", "\"c\"", "r\"cc\"", "\"d\"">>
BForm == <<"q", "r", "h", "q", "r", "h", "q", "r", "q">>
Mapped(x) == <<0, 0, 0, 0, 0, 0, 0, 0, 0, 0, 255, 255, 10, 0, 0, x>>
Ctxs == Strict([x \in 1..(Top + 1) |-> [sch |-> 1, vals |-> <<VInt(IntOfNat(x - 1)), VIp(<<10, 0, 0, x - 1>>), VBytes(BPool[x])>>, lists |-> <<>>]])
        \o <<[sch |-> 1, vals |-> <<Nil, Nil, Nil>>, lists |-> <<>>],
             [sch |-> 1, vals |-> <<VInt(<<-1, 65535, 65535, 65535>>), VIp(Mapped(1)), VBytes(<<97, 0>>)>>, lists |-> <<>>],
             [sch |-> 1, vals |-> <<VInt(IntOfNat(Top)), VIp(Mapped(Top)), VBytes(<<>>)>>, lists |-> <<>>]>>
IntItem(r) == IF r.lo = r.hi THEN [k |-> "int", v |-> IntOfNat(r.lo), txt |-> ToString(r.lo)]
              ELSE [k |-> "irange", lo |-> IntOfNat(r.lo), hi |-> IntOfNat(r.hi), txt |-> ToString(r.lo) \o ".." \o ToString(r.hi)]
IpTxt(x) == "10.0.0." \o ToString(x)
(* aligned power-of-two blocks are written as CIDR, the rest as explicit ranges *)
IpItem(r) == IF r.lo = r.hi THEN [k |-> "ip", v |-> <<10, 0, 0, r.lo>>, txt |-> IpTxt(r.lo)]
             ELSE IF r.hi = r.lo + 1 /\ r.lo % 2 = 0 THEN [k |-> "cidr", v |-> <<10, 0, 0, r.lo>>, len |-> 31, txt |-> IpTxt(r.lo) \o "/31"]
             ELSE IF r.hi = r.lo + 3 /\ r.lo % 4 = 0 THEN [k |-> "cidr", v |-> <<10, 0, 0, r.lo>>, len |-> 30, txt |-> IpTxt(r.lo) \o "/30"]
             ELSE [k |-> "iprange", lo |-> <<10, 0, 0, r.lo>>, hi |-> <<10, 0, 0, r.hi>>, txt |-> IpTxt(r.lo) \o ".." \o IpTxt(r.hi)]
(* the same items as IPv4-mapped IPv6 addresses: they contain IPv6 probes only *)
MTxt(x) == "::ffff:10.0.0." \o ToString(x)
IpItem6(r) == IF r.lo = r.hi THEN [k |-> "ip", v |-> Mapped(r.lo), txt |-> MTxt(r.lo)]
              ELSE [k |-> "iprange", lo |-> Mapped(r.lo), hi |-> Mapped(r.hi), txt |-> MTxt(r.lo) \o ".." \o MTxt(r.hi)]
(* byte strings: the two end points of the range name two strings of the pool *)
BItem(x) == [k |-> "bytes", v |-> BPool[x + 1], form |-> BForm[x + 1], txt |-> BTxt[x + 1]]
BToks == <<[k |-> "id", name |-> "s"], [k |-> "in"], [k |-> "lbr"]>>
         \o FlatSeq(Strict([i \in 1..Len(rs) |-> IF rs[i].lo = rs[i].hi THEN <<BItem(rs[i].lo)>> ELSE <<BItem(rs[i].lo), BItem(rs[i].hi)>>]))
         \o <<[k |-> "rbr"]>>
Toks(field, Item(_)) == <<[k |-> "id", name |-> field], [k |-> "in"], [k |-> "lbr"]>>
                        \o Strict([i \in 1..Len(rs) |-> Item(rs[i])]) \o <<[k |-> "rbr"]>>
Vector(ts) ==
  LET r == ParseFilter(ts, Sch, 128) IN
  [ev |-> "filter", sch |-> 1, max |-> 128, ts |-> ts, ok |-> r.ok, ast |-> AstJson(r.node),
   runs |-> Strict([n \in 1..Len(Ctxs) |-> [ctx |-> n, out |-> "ok", res |-> EvalFilter(r.node, Ctxs[n], Sch)]]), uses |-> <<>>]
(* the L1 semantics used for the expected answers is the declarative one *)
EvalIsMember == \A x \in 0..Top : EvalFilter(ParseFilter(Toks("i", IntItem), Sch, 128).node, Ctxs[x + 1], Sch) = Member(x, rs)
Emit == /\ PrintT(<<"REPLAY", ToJson(Vector(Toks("i", IntItem)))>>)
        /\ PrintT(<<"REPLAY", ToJson(Vector(Toks("ip", IpItem)))>>)
        /\ PrintT(<<"REPLAY", ToJson(Vector(Toks("ip", IpItem6)))>>)
        /\ PrintT(<<"REPLAY", ToJson(Vector(BToks))>>)
ASSUME /\ PrintT(<<"REPLAY", ToJson([hdr |-> "scheme", sch |-> Sch])>>)
       /\ \A n \in 1..Len(Ctxs) : PrintT(<<"REPLAY", ToJson([hdr |-> "ctx", ctx |-> Ctxs[n]])>>)
=============================================================================
