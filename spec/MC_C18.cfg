CONSTANTS
  NThreads = 3
  NExec = 2
  EnvValue = "T"
SPECIFICATION Spec
INVARIANTS LatchAgreement LatchIsEnv Deterministic InitOnce
CHECK_DEADLOCK FALSE
