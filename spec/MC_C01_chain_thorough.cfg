CONSTANTS
  MaxLen = 6
  Mode = "chain"
SPECIFICATION Spec
INVARIANTS ParserSound PrecOk Emit
CHECK_DEADLOCK FALSE
