----------------------------- MODULE Trace_Conc -----------------------------
(* Trace specification for concurrent executions (C18).  A run compiles a set of filters once  *)
(* and executes them from T threads released by a barrier, on shared and per-thread contexts.   *)
(* Each event summarises what one thread observed for one (filter, context) pair over all its   *)
(* rounds: the set of distinct results, and the SIMD switch it saw.  Accepted iff the set is    *)
(* exactly { EvalFilter(filter, context) } - the sequential meaning - and the switch is the     *)
(* process-wide expected one.  "recompiled" events compare a fresh compilation.                 *)
EXTENDS WfParser, WfEval, Json, IOUtils
Schs == ndJsonDeserialize(IOEnv.SCHEMES)
Ctxs == ndJsonDeserialize(IOEnv.CTXS)
Flts == ndJsonDeserialize(IOEnv.FILTERS)
Rec  == ndJsonDeserialize(IOEnv.TRACE)
VARIABLES l, nbad
vars == <<l, nbad>>
Chk(cond, msg) == IF cond THEN TRUE
                  ELSE (PrintT(<<"REJECT", l, Rec[l].id>>) /\ PrintT(<<"DETAIL", l, msg>>) /\ FALSE)
Parsed(f) == ParseFilter(Flts[f].ts, Schs[Flts[f].sch], 128)
Check(e) ==
  LET p == Parsed(e.f)
      x == EvalFilter(p.node, Ctxs[e.c], Schs[Flts[e.f].sch]) IN
  /\ Chk(p.ok, "filter of the run does not parse in the model")
  /\ Chk(e.results = <<x>>, <<"thread", e.th, "of", e.threads, "filter", e.f, "ctx", e.c, "expected only", x, "observed", e.results>>)
  /\ Chk(e.simd = e.simd_expected, <<"SIMD switch seen by thread", e.th, "differs from the process-wide value">>)
Init == l = 1 /\ nbad = 0
Next == /\ l <= Len(Rec)
        /\ nbad' = IF Check(Rec[l]) THEN nbad ELSE nbad + 1
        /\ l' = l + 1
Spec == Init /\ [][Next]_vars
Accepted == IF TLCGet("stats").diameter = Len(Rec) + 1 THEN PrintT(<<"TRACE-CONSUMED", Len(Rec)>>)
            ELSE (PrintT(<<"TRACE-STUCK-AT", TLCGet("stats").diameter, "of", Len(Rec)>>) /\ FALSE)
=============================================================================
