----------------------------- MODULE Trace_Conc -----------------------------
(* Trace specification for concurrent executions (C18).  A run compiles a set of filters once  *)
(* and executes them from T threads released by a barrier, on shared and per-thread contexts.   *)
(* Each event summarises what one thread observed for one (filter, context) pair over all its   *)
(* rounds: the set of distinct results, and the SIMD switch it saw.  Accepted iff the set is    *)
(* exactly { EvalFilter(filter, context) } - the sequential meaning - and the switch is the     *)
(* process-wide expected one.  "recompiled" events compare a fresh compilation.                 *)
EXTENDS WfParser, WfEval, Json, IOUtils
Schs == ndJsonDeserialize(IOEnv.SCHEMES)
Ctxs == ndJsonDeserialize(IOEnv.CTXS)
Flts == ndJsonDeserialize(IOEnv.FILTERS)
Rec  == ndJsonDeserialize(IOEnv.TRACE)
VARIABLES l, nbad
vars == <<l, nbad>>
Chk(cond, msg) == IF cond THEN TRUE
                  ELSE (PrintT(<<"REJECT", l, Rec[l].id>>) /\ PrintT(<<"DETAIL", l, msg>>) /\ FALSE)
Parsed(f) == ParseFilter(Flts[f].ts, Schs[Flts[f].sch], 128)
Check(e) ==
  LET p == Parsed(e.f)
      x == EvalFilter(p.node, Ctxs[e.c], Schs[Flts[e.f].sch]) IN
  /\ Chk(p.ok, "filter of the run does not parse in the model")
  /\ Chk(e.results = <<x>>, <<"thread", e.th, "of", e.threads, "filter", e.f, "ctx", e.c, "expected only", x, "observed", e.results>>)
  /\ Chk(e.simd = e.simd_expected, <<"SIMD switch seen by thread", e.th, "differs from the process-wide value">>)
(* "agree" events: a long-lived compiled filter over MANDATORY fields was executed, in a history that moves between     *)
(* contexts, also on contexts that leave mandatory fields unset (an execution that needs such a field panics; one that    *)
(* decides earlier does not).  Whatever the outcome of (filter, context) is - true, false, panic - it is a function of   *)
(* the pair: every execution in the history, on every thread, must show the outcome a fresh compilation showed on its    *)
(* first execution ("repeated executions or recompilations of the same filter on the same context always agree").        *)
CheckAgree(e) ==
  Chk(e.seen = <<e.ref>>, <<"filter", e.src, "context", e.c, "a fresh compilation answers", e.ref, "the long-lived filter answered", e.seen>>)
Init == l = 1 /\ nbad = 0
Next == /\ l <= Len(Rec)
        /\ nbad' = IF (IF Rec[l].ev = "agree" THEN CheckAgree(Rec[l]) ELSE Check(Rec[l])) THEN nbad ELSE nbad + 1
        /\ l' = l + 1
Spec == Init /\ [][Next]_vars
Accepted == IF TLCGet("stats").diameter = Len(Rec) + 1 THEN PrintT(<<"TRACE-CONSUMED", Len(Rec)>>)
            ELSE (PrintT(<<"TRACE-STUCK-AT", TLCGet("stats").diameter, "of", Len(Rec)>>) /\ FALSE)
=============================================================================
