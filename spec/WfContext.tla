----------------------------- MODULE WfContext ------------------------------
(***************************************************************************)
(* Abstract state machine of execution contexts (properties C08, C17).     *)
(*                                                                         *)
(* A world is a sequence of context slots; slot = [sch |-> scheme id,      *)
(* vals, lists, alive].  Scheme identity is the id: two structurally equal *)
(* schemes with different ids are different schemes.                       *)
(*                                                                         *)
(* Operations (one per public call; each returns [w |-> world', res]):     *)
(*   new(sch)                         ExecutionContext::new                *)
(*   set(c, how, fsch, name, v)       set_field_value{,_from_name}         *)
(*   get(c, name)                     get_field_value                      *)
(*   clear(c)  clone(c)  take(c)      clear / clone_with / take_with       *)
(*   borrow(c, ops)                   borrow_with; ops on the guard; drop  *)
(*   setlist(c, li, matcher)          get_list_matcher_mut + mutation      *)
(*   exec(c, fsch, tokens)            parse with fsch, compile, execute    *)
(*   execv(c, fsch, tokens)           the same for a value expression      *)
(*   roundtrip(c)                     serde_json::to_string + deserialize  *)
(*                                    into a fresh context (a new slot)    *)
(*   mkval(v)                         Array/Map::try_from_* construction   *)
(*                                    (every public route must agree)      *)
(* The result records are what the harness observes at the call's return.  *)
(***************************************************************************)
EXTENDS WfParser, WfEval

FreshMatcher(kind) == [kind |-> kind, sets |-> <<>>]
ListKind(sch, i) == IF "listkinds" \in DOMAIN sch /\ i <= Len(sch.listkinds) THEN sch.listkinds[i] ELSE "set"

NewCtx(S, sid) ==
  [sch |-> sid,
   vals |-> Strict([i \in 1..Len(S[sid].fields) |-> Nil]),
   lists |-> Strict([i \in 1..Len(S[sid].lists) |-> FreshMatcher(ListKind(S[sid], i))]),
   alive |-> TRUE]

ResOk(v) == [out |-> "ok", v |-> v]
ResErr(e) == [out |-> e, v |-> Nil]

RECURSIVE Apply(_, _, _), ApplyAll(_, _, _, _)

(* set: succeeds iff the field belongs to the context's scheme and the value's full nested  *)
(* type equals the declared type; returns the previous value; a failure changes nothing     *)
DoSet(S, w, op) ==
  LET c == w[op.c]
      sch == S[c.sch]
      fi == FieldIdx(sch, op.name)
  IN IF op.how = "field" /\ op.fsch # c.sch THEN [w |-> w, res |-> ResErr("SchemeMismatch")]
     ELSE IF fi = NoIdx THEN [w |-> w, res |-> ResErr("UnknownField")]
     ELSE IF TypeOf(op.v) # sch.fields[fi].ty THEN [w |-> w, res |-> ResErr("TypeMismatch")]
     ELSE [w |-> [w EXCEPT ![op.c].vals[fi] = op.v], res |-> ResOk(c.vals[fi])]

DoExec(S, w, op) ==
  LET c == w[op.c]
      r == ParseFilter(op.ts, S[op.fsch], 128)
  IN IF ~r.ok THEN [w |-> w, res |-> ResErr("ParseError")]
     ELSE IF op.fsch # c.sch THEN [w |-> w, res |-> ResErr("SchemeMismatch")]
     ELSE [w |-> w, res |-> ResOk(VBool(EvalFilter(r.node, c, S[c.sch])))]

(* a value expression is bound to its scheme exactly like a filter *)
DoExecV(S, w, op) ==
  LET c == w[op.c]
      r == ParseValue(op.ts, S[op.fsch], 128)
  IN IF ~r.ok THEN [w |-> w, res |-> ResErr("ParseError")]
     ELSE IF op.fsch # c.sch THEN [w |-> w, res |-> ResErr("SchemeMismatch")]
     ELSE [w |-> w, res |-> ResOk(EvalValue(r.node, c, S[c.sch]))]

Apply(S, w, op) ==
  IF op.op = "new" THEN [w |-> Append(w, NewCtx(S, op.sch)), res |-> ResOk(VInt(IntOfNat(Len(w) + 1)))]
  ELSE IF op.op = "set" THEN DoSet(S, w, op)
  ELSE IF op.op = "get"
       THEN LET c == w[op.c] fi == FieldIdx(S[c.sch], op.name)
            IN [w |-> w, res |-> IF fi = NoIdx THEN ResErr("UnknownField") ELSE ResOk(c.vals[fi])]
  ELSE IF op.op = "clear"
       THEN LET c == w[op.c] IN
            [w |-> [w EXCEPT ![op.c] =
                      [c EXCEPT !.vals = Strict([i \in 1..Len(c.vals) |-> Nil]),
                                !.lists = Strict([i \in 1..Len(c.lists) |->
                                                    IF c.lists[i].kind = "set" THEN FreshMatcher("set")
                                                    ELSE c.lists[i]])]],
             res |-> ResOk(Nil)]
  ELSE IF op.op = "clone"
       THEN [w |-> Append(w, w[op.c]), res |-> ResOk(VInt(IntOfNat(Len(w) + 1)))]
  ELSE IF op.op = "roundtrip"   \* serialize, then deserialize into a fresh context of the same scheme: an equal context
       THEN [w |-> Append(w, w[op.c]), res |-> ResOk(VInt(IntOfNat(Len(w) + 1)))]
  ELSE IF op.op = "take"
       THEN [w |-> Append([w EXCEPT ![op.c].alive = FALSE], w[op.c]),
             res |-> ResOk(VInt(IntOfNat(Len(w) + 1)))]
  ELSE IF op.op = "borrow"       \* guard = same slot (the lender is inaccessible meanwhile); drop writes through
       THEN LET r == ApplyAll(S, w, op.ops, <<>>) IN [w |-> r.w, res |-> [out |-> "ok", v |-> Nil, sub |-> r.rs]]
  ELSE IF op.op = "setlist"
       THEN [w |-> [w EXCEPT ![op.c].lists[op.li] = op.m], res |-> ResOk(Nil)]
  ELSE IF op.op = "exec" THEN DoExec(S, w, op)
  ELSE IF op.op = "execv" THEN DoExecV(S, w, op)
  ELSE IF op.op = "mkval"
       THEN [w |-> w, res |-> IF WellTyped(op.v) THEN ResOk(op.v) ELSE ResErr("TypeMismatch")]
  ELSE [w |-> w, res |-> ResErr("unknown-op")]

ApplyAll(S, w, ops, acc) ==
  IF ops = <<>> THEN [w |-> w, rs |-> acc]
  ELSE LET r == Apply(S, w, Head(ops)) IN ApplyAll(S, r.w, Tail(ops), Append(acc, r.res))

(* invariants of the abstract machine (checked by TLC on every reachable world) *)
TypeOK(S, w) ==
  \A c \in 1..Len(w) : \A i \in 1..Len(w[c].vals) :
     IsNil(w[c].vals[i]) \/ (TypeOf(w[c].vals[i]) = S[w[c].sch].fields[i].ty /\ WellTyped(w[c].vals[i]))
=============================================================================
