CONSTANTS
  MaxAtoms = 3
  Set = "cmp"
SPECIFICATION Spec
INVARIANTS Emit
CHECK_DEADLOCK FALSE
