CONSTANTS
  MaxLen = 5
  MaxD = 7
SPECIFICATION Spec
INVARIANTS CounterIsNesting Emit
CHECK_DEADLOCK FALSE
