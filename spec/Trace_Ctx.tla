----------------------------- MODULE Trace_Ctx ------------------------------
(***************************************************************************)
(* Trace specification for recorded execution-context histories            *)
(* (properties C08, C17).  Events: "reset" starts a history with the       *)
(* listed contexts; "op" is one public call with its arguments, its        *)
(* result and the projected state of the context it touched.  The spec     *)
(* state w is the abstract world of WfContext; an event is accepted iff    *)
(* result and after-state are exactly those of WfContext!Apply.            *)
(* Env: SCHEMES, TRACE.                                                    *)
(***************************************************************************)
EXTENDS WfContext, Json, IOUtils

Schs == ndJsonDeserialize(IOEnv.SCHEMES)
Rec  == ndJsonDeserialize(IOEnv.TRACE)

VARIABLES w, l, nbad
vars == <<w, l, nbad>>

Chk(cond, msg) == IF cond THEN TRUE
                  ELSE (PrintT(<<"REJECT", l, Rec[l].id>>) /\ PrintT(<<"DETAIL", l, msg>>) /\ FALSE)

SameCtx(a, b) == IF ~b.alive THEN ~a.alive
                 ELSE a.alive /\ a.sch = b.sch /\ a.vals = b.vals /\ a.lists = b.lists

Init == w = <<>> /\ l = 1 /\ nbad = 0

Reset(e) == /\ w' = Strict([i \in 1..Len(e.init) |-> NewCtx(Schs, e.init[i])])
            /\ UNCHANGED nbad
Op(e) ==
  LET r == Apply(Schs, w, e.op)
      crashed == "panic" \in DOMAIN e.after       \* projecting the real context panicked inside the engine
      good == /\ Chk(~crashed, <<"reading the context back panicked after", e.op.op>>)
              /\ Chk(r.res = e.res, <<"result of", e.op.op, "expected", r.res, "observed", e.res>>)
              /\ Chk(e.c <= Len(r.w) /\ SameCtx(r.w[e.c], e.after),
                     <<"state after", e.op.op, "expected", r.w[e.c], "observed", e.after>>)
              /\ Chk(TypeOK(Schs, r.w), "TypeOK")
  IN /\ nbad' = IF good THEN nbad ELSE nbad + 1
     \* after a rejected event continue from the observed state of the touched context
     /\ w' = IF good \/ crashed \/ e.c > Len(r.w) \/ ~e.after.alive THEN r.w
             ELSE [r.w EXCEPT ![e.c] = [sch |-> e.after.sch, vals |-> e.after.vals,
                                        lists |-> e.after.lists, alive |-> TRUE]]
(* "mistyped": a user function that returns a value of another type than it declares was applied to an element, to the   *)
(* elements of a field's array and to the elements of arrays built by the engine itself.  The engine may refuse in any   *)
(* way it likes (it panics); what it must never do is hand out a container whose elements are not of its declared         *)
(* element type ("arrays and maps can only be built homogeneous").  No context is touched.                                *)
Mistyped(e) ==
  /\ nbad' = IF Chk(e.res.out # "ill-typed", <<"a container that holds elements of another type than it declares was built, expression", e.op.k>>)
             THEN nbad ELSE nbad + 1
  /\ UNCHANGED w
Next == /\ l <= Len(Rec)
        /\ IF Rec[l].ev = "reset" THEN Reset(Rec[l])
           ELSE IF Rec[l].op.op = "mistyped" THEN Mistyped(Rec[l]) ELSE Op(Rec[l])
        /\ l' = l + 1
Spec == Init /\ [][Next]_vars

Accepted == IF TLCGet("stats").diameter = Len(Rec) + 1 THEN PrintT(<<"TRACE-CONSUMED", Len(Rec)>>)
            ELSE (PrintT(<<"TRACE-STUCK-AT", TLCGet("stats").diameter, "of", Len(Rec)>>) /\ FALSE)
=============================================================================
