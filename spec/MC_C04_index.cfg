CONSTANTS
  Mode = "index"
SPECIFICATION Spec
INVARIANTS TableIsParser ValueFreeOfEach Emit
CHECK_DEADLOCK FALSE
