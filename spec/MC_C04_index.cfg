CONSTANTS
  Mode = "index"
SPECIFICATION Spec
INVARIANTS TableIsParser Emit
CHECK_DEADLOCK FALSE
