---------------------------- MODULE Trace_Types -----------------------------
(* Trace specification for recorded type / scheme encoding observations (C15).               *)
(*  "type":   a type given as (primitive, layer string); what CompoundType, the C-API CType, *)
(*            serde JSON (4 entry points) and the C API produced for it                      *)
(*  "scheme": hand-written scheme JSON (possibly with duplicate names / escaped names) fed   *)
(*            through 4 entry points, plus builder -> serialize -> parse                     *)
EXTENDS WfTypes, Json, IOUtils
Rec == ndJsonDeserialize(IOEnv.TRACE)
VARIABLES l, nbad
vars == <<l, nbad>>
Chk(cond, msg) == IF cond THEN TRUE
                  ELSE (PrintT(<<"REJECT", l, Rec[l].id>>) /\ PrintT(<<"DETAIL", l, msg>>) /\ FALSE)

RECURSIVE TyOf(_, _)
TyOf(prim, lay) == IF lay = <<>> THEN [k |-> prim]
                   ELSE IF Head(lay) = 0 THEN TArr(TyOf(prim, Tail(lay))) ELSE TMap(TyOf(prim, Tail(lay)))

Ways == <<"str", "slice", "reader", "value">>

CheckType(e) ==
  LET T == TyOf(e.prim, e.lay)
      d == TypeDepth(T)
      o == e.obs
  IN /\ Chk(e.path = TypeJsonPath(T), "JSON document of the type")
     /\ \A i \in 1..4 :
          LET g == o.de[Ways[i]] IN
          g.out = "skipped" \/
          ( /\ Chk(g.out # "panic", <<"deserializer panicked via", Ways[i], "layers", d>>)
            /\ (d <= MaxLayers) => Chk(g.out = "ok" /\ g.text = o.text, <<"representable type not round-tripped via", Ways[i]>>)
            /\ (d >= MaxLayers + 2) => Chk(g.out = "err", <<"over-deep descriptor accepted via", Ways[i], "layers", d>>)
            /\ (d = MaxLayers + 1 /\ g.out = "ok") => Chk(g.text = o.text, "33-layer descriptor became another type") )
     /\ (d <= MaxLayers) =>
          /\ Chk(o.conv.state = "ok", "conversion panicked for a representable type")
          /\ o.conv.state = "ok" =>
               LET p == Pack(T) IN
               /\ Chk(o.conv.ct.prim = p.prim /\ o.conv.ct.len = p.len /\ o.conv.ct.pack.bits = p.bits
                      /\ o.conv.ct.pack.high_clear, <<"CompoundType packed form, expected", p>>)
               /\ Chk(o.conv.cty.prim = p.prim /\ o.conv.cty.len = p.len /\ o.conv.cty.pack.bits = p.bits
                      /\ o.conv.cty.pack.high_clear, <<"CType packed form, expected", p>>)
               /\ Chk(o.conv.ct_rt /\ o.conv.cty_rt /\ o.conv.chain_eq, "packed -> recursive round trip")
               /\ Chk(o.conv.ser = o.text /\ o.conv.ffi_json = o.text, "serialized JSON differs from the canonical document")

SameFields(a, b) == Len(a) = Len(b) /\ \A i \in 1..Len(a) : a[i] = b[i]
SameFieldSet(a, b) == Len(a) = Len(b) /\ \A i \in 1..Len(a) : \E j \in 1..Len(b) : a[i] = b[j]

CheckScheme(e) ==
  LET F == e.fields
      nodup == \A i, j \in 1..Len(F) : F[i].nb = F[j].nb => i = j
  IN /\ Chk(nodup = ~e.dup, "generator flag")
     /\ \A i \in 1..4 :
          LET g == e.de[Ways[i]] IN
          g.out = "skipped" \/
          ( /\ Chk(g.out # "panic", <<"scheme deserializer panicked via", Ways[i]>>)
            \* a value tree cannot hold duplicate keys: the duplicates never reach the engine
            /\ (Ways[i] # "value" \/ nodup) =>
                 Chk((g.out = "ok") = nodup, <<"scheme JSON via", Ways[i], "duplicate-free =", nodup, "outcome", g.out>>)
            /\ (g.out = "ok" /\ nodup) =>
                 Chk(IF Ways[i] = "value" THEN SameFieldSet(F, g.fields) ELSE SameFields(F, g.fields),
                     <<"fields after round trip via", Ways[i]>>) )
     /\ nodup =>
          /\ Chk(SameFields(F, e.built.described), "built scheme reports other fields")
          /\ Chk(e.built.back.out = "ok" /\ SameFields(F, e.built.back.fields), "serialize -> parse round trip")
          /\ Chk(e.built.ffi_same, "C API scheme JSON differs")

Init == l = 1 /\ nbad = 0
Next == /\ l <= Len(Rec)
        /\ LET e == Rec[l]
               good == IF e.ev = "type" THEN CheckType(e) ELSE CheckScheme(e)
           IN nbad' = IF good THEN nbad ELSE nbad + 1
        /\ l' = l + 1
Spec == Init /\ [][Next]_vars
Accepted == IF TLCGet("stats").diameter = Len(Rec) + 1 THEN PrintT(<<"TRACE-CONSUMED", Len(Rec)>>)
            ELSE (PrintT(<<"TRACE-STUCK-AT", TLCGet("stats").diameter, "of", Len(Rec)>>) /\ FALSE)
=============================================================================
