------------------------------- MODULE MC_C06 -------------------------------
(* Exhaustive candidate literal texts (property C06): every string of at most MaxLen          *)
(* characters over a small alphabet per literal kind, plus boundary constants.  One vector    *)
(* per (kind, text) with the expected verdict and value.                                      *)
EXTENDS WfLit, Json
CONSTANTS MaxLen, Kind
VARIABLES txt
(* alphabets as code points *)
IntAlpha == <<45, 48, 49, 55, 56, 57, 97, 102, 120, 103, 46>>          \* - 0 1 7 8 9 a f x g .
QuoAlpha == <<92, 34, 120, 48, 55, 56, 97, 103, 43, 233>>              \* \ " x 0 7 8 a g + e-acute (2 UTF-8 bytes)
RawAlpha == <<34, 35, 97>>                                              \* " # a
HexAlpha == <<48, 97, 102, 103, 43, 58, 45, 46>>                       \* 0 a f g + : - .
IpAlpha  == <<49, 48, 46, 47, 58, 102>>                                 \* 1 0 . / : f
(* base addresses for the block forms: every prefix length 0..bits+1 is appended *)
Bases == <<<<48, 46, 48, 46, 48, 46, 48>>,
          <<50, 53, 53, 46, 50, 53, 53, 46, 50, 53, 53, 46, 50, 53, 53>>,
          <<49, 50, 56, 46, 48, 46, 48, 46, 48>>,
          <<49, 48, 46, 49, 46, 50, 46, 51>>,
          <<49, 57, 50, 46, 49, 54, 56, 46, 48, 46, 48>>,
          <<58, 58>>,
          <<102, 102, 102, 102, 58, 102, 102, 102, 102, 58, 102, 102, 102, 102, 58, 102, 102, 102, 102, 58, 102, 102, 102, 102, 58, 102, 102, 102, 102, 58, 102, 102, 102, 102, 58, 102, 102, 102, 102>>,
          <<56, 48, 48, 48, 58, 58>>,
          <<50, 48, 48, 49, 58, 100, 98, 56, 58, 58, 49>>,
          <<58, 58, 102, 102, 102, 102, 58, 49, 46, 50, 46, 51, 46, 52>>,
          <<49, 58, 50, 58, 51, 58, 52, 58, 53, 58, 54, 58, 55, 58, 56>>>>
RECURSIVE DecText(_)
DecText(n) == IF n < 10 THEN <<48 + n>> ELSE DecText(n \div 10) \o <<48 + (n % 10)>>
BlockTexts == {Bases[i] \o <<47>> \o DecText(n) : i \in 1..Len(Bases), n \in 0..130}
              \cup {Bases[i] \o <<46, 46>> \o Bases[j] : i \in 1..Len(Bases), j \in 1..Len(Bases)}
Alpha == IF Kind \in {"int", "index"} THEN IntAlpha ELSE IF Kind = "quoted" THEN QuoAlpha
         ELSE IF Kind \in {"ipeq", "ipitem"} THEN IpAlpha
         ELSE IF Kind = "raw" THEN RawAlpha ELSE HexAlpha
Bodies == UNION {[1..n -> 1..Len(Alpha)] : n \in 0..MaxLen}
Text(b) == LET cs == Strict([i \in 1..Len(b) |-> Alpha[b[i]]]) IN
           IF Kind = "quoted" THEN <<34>> \o cs                      \* opening quote, body decides the rest
           ELSE IF Kind = "raw" THEN <<114>> \o cs
           ELSE cs
EvKind == IF Kind \in {"int", "index", "ipeq", "ipitem"} THEN Kind ELSE IF Kind = "blocks" THEN "ipitem" ELSE "bytes"
Init == txt \in (IF Kind = "blocks" THEN BlockTexts ELSE {Text(b) : b \in Bodies} \ (IF Kind \in {"ipeq", "ipitem"} THEN {<<>>} ELSE {}))
Next == FALSE /\ UNCHANGED txt
Spec == Init /\ [][Next]_txt
Exp == IF EvKind \in {"ipeq", "ipitem"} THEN ExpectedIp(EvKind, txt) ELSE Expected(EvKind, txt)
Emit == PrintT(<<"REPLAY", ToJson([ev |-> "lit", kind |-> EvKind, chars |-> txt, exp |-> Exp])>>)
(* a block is accepted iff its prefix length fits the family and the address has no bit below it *)
BlockTheorem == Kind = "blocks" /\ LastSlash(txt) > 0 =>
                  LET a == Addr(Sub(txt, 1, LastSlash(txt) - 1))
                      n == DecVal(Sub(txt, LastSlash(txt) + 1, Len(txt)), 0)
                  IN (Exp.ok = "yes") <=> (a.ok /\ n <= 8 * Len(a.v) /\ CidrFirst(a.v, n) = a.v)
(* sanity theorems of the lexers themselves *)
ConsumedInRange == \A k \in {"int", "bytes"} : LET r == (IF k = "int" THEN LexInt(txt) ELSE LexBytes(txt)) IN
                      r.ok => (r.n >= 1 /\ r.n <= Len(txt))
=============================================================================
