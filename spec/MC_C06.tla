------------------------------- MODULE MC_C06 -------------------------------
(* Exhaustive candidate literal texts (property C06): every string of at most MaxLen          *)
(* characters over a small alphabet per literal kind, plus boundary constants.  One vector    *)
(* per (kind, text) with the expected verdict and value.                                      *)
EXTENDS WfLit, Json
CONSTANTS MaxLen, Kind
VARIABLES txt
(* alphabets as code points *)
IntAlpha == <<45, 48, 49, 55, 56, 57, 97, 102, 120, 103, 46>>          \* - 0 1 7 8 9 a f x g .
QuoAlpha == <<92, 34, 120, 48, 55, 56, 97, 103, 43>>                   \* \ " x 0 7 8 a g +
RawAlpha == <<34, 35, 97>>                                              \* " # a
HexAlpha == <<48, 97, 102, 103, 43, 58, 45, 46>>                       \* 0 a f g + : - .
Alpha == IF Kind \in {"int", "index"} THEN IntAlpha ELSE IF Kind = "quoted" THEN QuoAlpha
         ELSE IF Kind = "raw" THEN RawAlpha ELSE HexAlpha
Bodies == UNION {[1..n -> 1..Len(Alpha)] : n \in 0..MaxLen}
Text(b) == LET cs == Strict([i \in 1..Len(b) |-> Alpha[b[i]]]) IN
           IF Kind = "quoted" THEN <<34>> \o cs                      \* opening quote, body decides the rest
           ELSE IF Kind = "raw" THEN <<114>> \o cs
           ELSE cs
EvKind == IF Kind \in {"int", "index"} THEN Kind ELSE "bytes"
Init == txt \in {Text(b) : b \in Bodies}
Next == FALSE /\ UNCHANGED txt
Spec == Init /\ [][Next]_txt
Emit == PrintT(<<"REPLAY", ToJson([ev |-> "lit", kind |-> EvKind, chars |-> txt, exp |-> Expected(EvKind, txt)])>>)
(* sanity theorems of the lexers themselves *)
ConsumedInRange == \A k \in {"int", "bytes"} : LET r == (IF k = "int" THEN LexInt(txt) ELSE LexBytes(txt)) IN
                      r.ok => (r.n >= 1 /\ r.n <= Len(txt))
=============================================================================
