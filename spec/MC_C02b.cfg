SPECIFICATION Spec
INVARIANTS EvalIsL1 Emit
CHECK_DEADLOCK FALSE
