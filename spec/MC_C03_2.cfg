CONSTANTS
  Part = 2
SPECIFICATION Spec
INVARIANTS ArityRule MapEachOnlyFirst Emit
CHECK_DEADLOCK FALSE
