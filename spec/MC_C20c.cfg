CONSTANTS
  NThreads = 2
  MaxCalls = 4
SPECIFICATION Spec
INVARIANTS PanicReported FailureHasMessage Emit
PROPERTY ThreadLocal
CHECK_DEADLOCK FALSE
