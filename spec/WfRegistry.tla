----------------------------- MODULE WfRegistry -----------------------------
(***************************************************************************)
(* Abstract scheme builder / scheme registry (property C16).               *)
(*   st == [fields |-> Seq([name, ty, opt]), funcs |-> Seq(name),          *)
(*          lists |-> Seq(type)]                                           *)
(* One name space for fields and functions (exact, case-sensitive names);  *)
(* at most one list per type; indexes are insertion order; a failed add    *)
(* reports the kind that owns the name and changes nothing.                *)
(***************************************************************************)
EXTENDS WfBase

EmptyReg == [fields |-> <<>>, funcs |-> <<>>, lists |-> <<>>]

IsFieldName(st, n) == \E i \in 1..Len(st.fields) : st.fields[i].name = n
IsFuncName(st, n)  == \E i \in 1..Len(st.funcs) : st.funcs[i] = n
FieldIndexOf(st, n) == CHOOSE i \in 1..Len(st.fields) : st.fields[i].name = n
HasListFor(st, T) == \E i \in 1..Len(st.lists) : st.lists[i] = T

RegApply(st, op) ==
  IF op.op \in {"field", "func"}
  THEN IF IsFieldName(st, op.name) THEN [st |-> st, res |-> "FieldRedefinition"]
       ELSE IF IsFuncName(st, op.name) THEN [st |-> st, res |-> "FunctionRedefinition"]
       ELSE IF op.op = "field"
            THEN [st |-> [st EXCEPT !.fields = Append(@, [name |-> op.name, ty |-> op.ty, opt |-> op.opt])],
                  res |-> "ok"]
            ELSE [st |-> [st EXCEPT !.funcs = Append(@, op.name)], res |-> "ok"]
  ELSE \* list
       IF HasListFor(st, op.ty) THEN [st |-> st, res |-> "ListRedefinition"]
       ELSE [st |-> [st EXCEPT !.lists = Append(@, op.ty)], res |-> "ok"]

(* Bulk registration: n successive add_field / add_optional_field (kind "field") or add_function (kind "func")  *)
(* calls with the names  prefix0, prefix1, ..., prefix(n-1)  - one action of the trace specification, so that   *)
(* registries far beyond the exhaustive bounds (more entries than fit into 16 bits) stay cheap to validate.     *)
(* It is RegApply folded over the n operations under the stated precondition (the names are pairwise different  *)
(* and new), hence every call succeeds and the entries are appended in order.                                   *)
BulkNames(op) == Strict([i \in 1..op.n |-> op.prefix \o ToString(i - 1)])
NameSet(st) == {st.fields[i].name : i \in 1..Len(st.fields)} \cup {st.funcs[i] : i \in 1..Len(st.funcs)}
BulkFresh(st, op) == LET names == BulkNames(op) N == {names[i] : i \in 1..Len(names)}
                     IN Cardinality(N) = op.n /\ N \cap NameSet(st) = {}
BulkApply(st, op) ==
  LET names == BulkNames(op) IN
  IF op.kind = "field"
  THEN [st EXCEPT !.fields = @ \o Strict([i \in 1..op.n |-> [name |-> names[i], ty |-> op.ty, opt |-> op.opt]])]
  ELSE [st EXCEPT !.funcs = @ \o names]

(* what the built scheme answers for a probe name *)
Probe(st, n) ==
  [name |-> n,
   field |-> IF IsFieldName(st, n)
             THEN LET i == FieldIndexOf(st, n) IN
                  [ok |-> TRUE, ty |-> st.fields[i].ty, opt |-> st.fields[i].opt, idx |-> i - 1]
             ELSE [ok |-> FALSE],
   func |-> IsFuncName(st, n),
   asvalue |-> IsFieldName(st, n),        \* parse_value("<n>") succeeds
   ascall |-> IsFuncName(st, n)]          \* parse_value("<n>()") succeeds

(* get_list(T) for a fixed pool of types: found iff a list is registered for T, and it is the list of T *)
ListProbeTypes == <<[k |-> "Int"], [k |-> "Bytes"], [k |-> "Ip"], [k |-> "Bool"], [k |-> "Array", e |-> [k |-> "Int"]]>>
ListLookup(st) == [i \in 1..Len(ListProbeTypes) |->
                     [ty |-> ListProbeTypes[i], found |-> HasListFor(st, ListProbeTypes[i]), got |-> ListProbeTypes[i]]]
Summary(st) == [nfields |-> Len(st.fields), nfuncs |-> Len(st.funcs), nlists |-> Len(st.lists),
                order |-> Strict([i \in 1..Len(st.fields) |-> st.fields[i].name]),
                funcorder |-> st.funcs, listorder |-> st.lists, listlookup |-> ListLookup(st)]

(* invariants *)
(* (stated through cardinalities: no two entries share a name, fields and functions share one name space, no two *)
(* lists share a type - the same statement as the pairwise one, linear instead of quadratic in the registry)   *)
Unique(st) == /\ Cardinality(NameSet(st)) = Len(st.fields) + Len(st.funcs)
              /\ Cardinality({st.lists[i] : i \in 1..Len(st.lists)}) = Len(st.lists)
=============================================================================
