----------------------------- MODULE WfRegistry -----------------------------
(***************************************************************************)
(* Abstract scheme builder / scheme registry (property C16).               *)
(*   st == [fields |-> Seq([name, ty, opt]), funcs |-> Seq(name),          *)
(*          lists |-> Seq(type)]                                           *)
(* One name space for fields and functions (exact, case-sensitive names);  *)
(* at most one list per type; indexes are insertion order; a failed add    *)
(* reports the kind that owns the name and changes nothing.                *)
(***************************************************************************)
EXTENDS WfBase

EmptyReg == [fields |-> <<>>, funcs |-> <<>>, lists |-> <<>>]

IsFieldName(st, n) == \E i \in 1..Len(st.fields) : st.fields[i].name = n
IsFuncName(st, n)  == \E i \in 1..Len(st.funcs) : st.funcs[i] = n
FieldIndexOf(st, n) == CHOOSE i \in 1..Len(st.fields) : st.fields[i].name = n
HasListFor(st, T) == \E i \in 1..Len(st.lists) : st.lists[i] = T

RegApply(st, op) ==
  IF op.op \in {"field", "func"}
  THEN IF IsFieldName(st, op.name) THEN [st |-> st, res |-> "FieldRedefinition"]
       ELSE IF IsFuncName(st, op.name) THEN [st |-> st, res |-> "FunctionRedefinition"]
       ELSE IF op.op = "field"
            THEN [st |-> [st EXCEPT !.fields = Append(@, [name |-> op.name, ty |-> op.ty, opt |-> op.opt])],
                  res |-> "ok"]
            ELSE [st |-> [st EXCEPT !.funcs = Append(@, op.name)], res |-> "ok"]
  ELSE \* list
       IF HasListFor(st, op.ty) THEN [st |-> st, res |-> "ListRedefinition"]
       ELSE [st |-> [st EXCEPT !.lists = Append(@, op.ty)], res |-> "ok"]

(* what the built scheme answers for a probe name *)
Probe(st, n) ==
  [name |-> n,
   field |-> IF IsFieldName(st, n)
             THEN LET i == FieldIndexOf(st, n) IN
                  [ok |-> TRUE, ty |-> st.fields[i].ty, opt |-> st.fields[i].opt, idx |-> i - 1]
             ELSE [ok |-> FALSE],
   func |-> IsFuncName(st, n),
   asvalue |-> IsFieldName(st, n),        \* parse_value("<n>") succeeds
   ascall |-> IsFuncName(st, n)]          \* parse_value("<n>()") succeeds

(* get_list(T) for a fixed pool of types: found iff a list is registered for T, and it is the list of T *)
ListProbeTypes == <<[k |-> "Int"], [k |-> "Bytes"], [k |-> "Ip"], [k |-> "Bool"], [k |-> "Array", e |-> [k |-> "Int"]]>>
ListLookup(st) == [i \in 1..Len(ListProbeTypes) |->
                     [ty |-> ListProbeTypes[i], found |-> HasListFor(st, ListProbeTypes[i]), got |-> ListProbeTypes[i]]]
Summary(st) == [nfields |-> Len(st.fields), nfuncs |-> Len(st.funcs), nlists |-> Len(st.lists),
                order |-> Strict([i \in 1..Len(st.fields) |-> st.fields[i].name]),
                funcorder |-> st.funcs, listorder |-> st.lists, listlookup |-> ListLookup(st)]

(* invariants *)
Unique(st) == /\ \A i, j \in 1..Len(st.fields) : st.fields[i].name = st.fields[j].name => i = j
              /\ \A i, j \in 1..Len(st.funcs) : st.funcs[i] = st.funcs[j] => i = j
              /\ \A i \in 1..Len(st.fields) : ~IsFuncName(st, st.fields[i].name)
              /\ \A i, j \in 1..Len(st.lists) : st.lists[i] = st.lists[j] => i = j
=============================================================================
