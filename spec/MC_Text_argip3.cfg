CONSTANTS
  MaxAtoms = 3
  Set = "argip"
SPECIFICATION Spec
INVARIANTS Emit
CHECK_DEADLOCK FALSE
