CONSTANTS
  MaxAtoms = 4
  Set = "idx"
SPECIFICATION Spec
INVARIANTS Emit
CHECK_DEADLOCK FALSE
