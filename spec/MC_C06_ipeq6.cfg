CONSTANTS
  MaxLen = 6
  Kind = "ipeq"
SPECIFICATION Spec
INVARIANTS ConsumedInRange BlockTheorem Emit
CHECK_DEADLOCK FALSE
