CONSTANTS
  Mode = "regex"
  Level = 2
  MaxLen = 0
SPECIFICATION Spec
INVARIANTS ScannerInvertsQuoting WildMonotone Emit
CHECK_DEADLOCK FALSE
