SPECIFICATION Spec
INVARIANTS Homogeneous Emit
CHECK_DEADLOCK FALSE
