------------------------------ MODULE WfRegex -------------------------------
(***************************************************************************)
(* L1 semantics of the pattern operators (property C11).                   *)
(*                                                                         *)
(* Regex subset (byte oriented, no Unicode, unanchored search):            *)
(*   re ::= [k "empty"] | [k "lit", c] | [k "any"]  (any byte but LF)      *)
(*        | [k "cls", neg, rs |-> Seq([lo, hi])]                           *)
(*        | [k "cat", a, b] | [k "alt", a, b] | [k "grp", a]               *)
(*        | [k "star", a] | [k "plus", a] | [k "opt", a]                   *)
(*        | [k "bol"] | [k "eol"]                                          *)
(* Ends(re, s, I) = the set of end positions of matches of re in s that    *)
(* start at some position in I (positions 0..Len(s)).                      *)
(*                                                                         *)
(* Wildcards: pattern bytes, * = any byte sequence, \* and \\ literal,     *)
(* any other escape invalid, ? ordinary; whole-value match; ASCII case     *)
(* folding unless strict.                                                  *)
(***************************************************************************)
EXTENDS WfBase

RECURSIVE Ends(_, _, _), StarClosure(_, _, _)

InCls(re, b) == LET hit == \E i \in 1..Len(re.rs) : re.rs[i].lo <= b /\ b <= re.rs[i].hi
                IN IF re.neg THEN ~hit ELSE hit

StarClosure(re, s, I) ==
  LET J == I \cup Ends(re, s, I) IN IF J = I THEN I ELSE StarClosure(re, s, J)

Ends(re, s, I) ==
  IF re.k = "empty" THEN I
  ELSE IF re.k = "lit" THEN {i + 1 : i \in {j \in I : j < Len(s) /\ s[j + 1] = re.c}}
  ELSE IF re.k = "any" THEN {i + 1 : i \in {j \in I : j < Len(s) /\ s[j + 1] # 10}}
  ELSE IF re.k = "cls" THEN {i + 1 : i \in {j \in I : j < Len(s) /\ InCls(re, s[j + 1])}}
  ELSE IF re.k = "cat" THEN Ends(re.b, s, Ends(re.a, s, I))
  ELSE IF re.k = "alt" THEN Ends(re.a, s, I) \cup Ends(re.b, s, I)
  ELSE IF re.k = "grp" THEN Ends(re.a, s, I)
  ELSE IF re.k = "star" THEN StarClosure(re.a, s, I)
  ELSE IF re.k = "plus" THEN StarClosure(re.a, s, Ends(re.a, s, I))
  ELSE IF re.k = "opt" THEN I \cup Ends(re.a, s, I)
  ELSE IF re.k = "bol" THEN I \cap {0}
  ELSE IF re.k = "eol" THEN I \cap {Len(s)}
  ELSE {}

ReMatches(re, s) == Ends(re, s, 0..Len(s)) # {}

----------------------------------------------------------------------------
(* wildcard: tokenise  *)
RECURSIVE WildToks(_, _)
(* returns a sequence of [k |-> "any"] / [k |-> "lit", c] or <<[k |-> "bad"]>> marker at the end *)
WildToks(p, i) ==
  IF i > Len(p) THEN <<>>
  ELSE IF p[i] = 92                                       \* backslash
       THEN IF i + 1 <= Len(p) /\ p[i + 1] \in {42, 92}
            THEN <<[k |-> "lit", c |-> p[i + 1]]>> \o WildToks(p, i + 2)
            ELSE <<[k |-> "bad"]>>
  ELSE IF p[i] = 42 THEN <<[k |-> "any"]>> \o WildToks(p, i + 1)
  ELSE <<[k |-> "lit", c |-> p[i]]>> \o WildToks(p, i + 1)

WildStars(ts) == Cardinality({i \in 1..Len(ts) : ts[i].k = "any"})
WildValid(p, starLimit) ==        \* starLimit = -1 : unlimited
  LET ts == WildToks(p, 1) IN
  /\ \A i \in 1..Len(ts) : ts[i].k # "bad"
  /\ \A i \in 1..(Len(ts) - 1) : ~(ts[i].k = "any" /\ ts[i + 1].k = "any")
  /\ (starLimit < 0 \/ WildStars(ts) <= starLimit)

RECURSIVE WildEnds(_, _, _, _, _)
WildEnds(ts, i, s, I, strict) ==
  IF i > Len(ts) THEN I
  ELSE IF ts[i].k = "any"
       THEN WildEnds(ts, i + 1, s, {j \in 0..Len(s) : \E a \in I : a <= j}, strict)
       ELSE WildEnds(ts, i + 1, s,
              {a + 1 : a \in {j \in I : j < Len(s)
                                /\ (IF strict THEN s[j + 1] = ts[i].c
                                    ELSE AsciiLower(s[j + 1]) = AsciiLower(ts[i].c))}},
              strict)
WildMatch(p, s, strict) == Len(s) \in WildEnds(WildToks(p, 1), 1, s, {0}, strict)

----------------------------------------------------------------------------
(* Rendering a regex AST as the pattern text handed to the regex engine (ASCII bytes).        *)
(* Literal bytes that are metacharacters are backslash-escaped; bytes outside printable       *)
(* ASCII are written \xHH; class members ] \ ^ - are escaped.                                 *)
HexDigit(n) == IF n < 10 THEN 48 + n ELSE 87 + n
EscX(b) == <<92, 120, HexDigit(b \div 16), HexDigit(b % 16)>>
Meta == {92, 46, 43, 42, 63, 40, 41, 124, 91, 93, 123, 125, 94, 36, 35, 38, 45, 126}
RenderByte(b) == IF b < 32 \/ b > 126 THEN EscX(b) ELSE IF b \in Meta THEN <<92, b>> ELSE <<b>>
ClsMeta == {92, 93, 91, 94, 45, 38, 126}
RenderClsByte(b) == IF b < 32 \/ b > 126 THEN EscX(b) ELSE IF b \in ClsMeta THEN <<92, b>> ELSE <<b>>
RenderRange(r) == IF r.lo = r.hi THEN RenderClsByte(r.lo) ELSE RenderClsByte(r.lo) \o <<45>> \o RenderClsByte(r.hi)
RECURSIVE RenderPat(_)
RenderPat(re) ==
  IF re.k = "empty" THEN <<>>
  ELSE IF re.k = "lit" THEN RenderByte(re.c)
  ELSE IF re.k = "any" THEN <<46>>
  ELSE IF re.k = "cls" THEN <<91>> \o (IF re.neg THEN <<94>> ELSE <<>>)
                            \o FlatSeq(Strict([i \in 1..Len(re.rs) |-> RenderRange(re.rs[i])])) \o <<93>>
  ELSE IF re.k = "cat" THEN RenderPat(re.a) \o RenderPat(re.b)
  ELSE IF re.k = "alt" THEN RenderPat(re.a) \o <<124>> \o RenderPat(re.b)
  ELSE IF re.k = "grp" THEN <<40>> \o RenderPat(re.a) \o <<41>>
  ELSE IF re.k = "star" THEN RenderPat(re.a) \o <<42>>
  ELSE IF re.k = "plus" THEN RenderPat(re.a) \o <<43>>
  ELSE IF re.k = "opt" THEN RenderPat(re.a) \o <<63>>
  ELSE IF re.k = "bol" THEN <<94>>
  ELSE <<36>>                                                           \* eol

(* well-formedness of the AST shapes the renderer is unambiguous for: repetition operands are   *)
(* single atoms, concatenation operands are not bare alternations                               *)
IsAtom(re) == re.k \in {"lit", "any", "cls", "grp"}
RECURSIVE ReWF(_)
ReWF(re) ==
  IF re.k \in {"star", "plus", "opt"} THEN IsAtom(re.a) /\ ReWF(re.a)
  ELSE IF re.k = "cat" THEN re.a.k # "alt" /\ re.b.k # "alt" /\ re.a.k # "empty" /\ re.b.k # "empty" /\ ReWF(re.a) /\ ReWF(re.b)
  ELSE IF re.k = "alt" THEN re.a.k # "empty" /\ re.b.k # "empty" /\ ReWF(re.a) /\ ReWF(re.b)
  ELSE IF re.k = "grp" THEN re.a.k # "empty" /\ ReWF(re.a)
  ELSE IF re.k = "cls" THEN Len(re.rs) > 0 /\ \A i \in 1..Len(re.rs) : re.rs[i].lo <= re.rs[i].hi
  ELSE TRUE

(* L2: the quoted-regex scanner (lex_regex_from_literal), on the characters after the opening  *)
(* quote: returns [ok, pat, n] with n = characters consumed including the closing quote         *)
RECURSIVE ScanQ(_, _, _, _)
ScanQ(s, i, incls, acc) ==
  IF i > Len(s) THEN [ok |-> FALSE]                                   \* missing ending quote
  ELSE LET c == s[i] IN
       IF c = 92
       THEN IF i + 1 > Len(s) THEN ScanQ(s, i + 1, incls, acc)       \* lone trailing backslash: dropped, then EOF
            ELSE LET d == s[i + 1] IN
                 IF incls \/ d # 34 THEN ScanQ(s, i + 2, incls, acc \o <<92, d>>)
                 ELSE ScanQ(s, i + 2, incls, Append(acc, d))
       ELSE IF c = 34 /\ ~incls THEN [ok |-> TRUE, pat |-> acc, n |-> i]
       ELSE IF c = 91 /\ ~incls THEN ScanQ(s, i + 1, TRUE, Append(acc, 91))
       ELSE IF c = 93 /\ incls THEN ScanQ(s, i + 1, FALSE, Append(acc, 93))
       ELSE ScanQ(s, i + 1, incls, Append(acc, c))
ScanQuoted(body) == ScanQ(body, 1, FALSE, <<>>)

(* L1 for quoted patterns: the source is the pattern with every quote that lies outside a       *)
(* character class written as backslash-quote (escape pairs are copied verbatim)               *)
RECURSIVE QuoteSrc(_, _, _)
QuoteSrc(p, i, incls) ==
  IF i > Len(p) THEN <<>>
  ELSE IF p[i] = 92 /\ i + 1 <= Len(p) THEN <<92, p[i + 1]>> \o QuoteSrc(p, i + 2, incls)
  ELSE IF p[i] = 34 /\ ~incls THEN <<92, 34>> \o QuoteSrc(p, i + 1, incls)
  ELSE IF p[i] = 91 /\ ~incls THEN <<91>> \o QuoteSrc(p, i + 1, TRUE)
  ELSE IF p[i] = 93 /\ incls THEN <<93>> \o QuoteSrc(p, i + 1, FALSE)
  ELSE <<p[i]>> \o QuoteSrc(p, i + 1, incls)
QuotedSource(p) == QuoteSrc(p, 1, FALSE) \o <<34>>                     \* body followed by the closing quote

(* corrupted (invalid) patterns of the catalogue *)
Corrupt(p, bad) == IF bad = "unclosed-group" THEN <<40>> \o p
                   ELSE IF bad = "unclosed-class" THEN p \o <<91, 97>>
                   ELSE IF bad = "dangling-star" THEN <<42>> \o p
                   ELSE IF bad = "trailing-backslash" THEN p \o <<92>>
                   ELSE IF bad = "bad-repeat" THEN p \o <<97, 123, 50, 44, 49, 125>>      \* a{2,1}
                   ELSE p

(* consistency of a regex token produced by a generator: the pattern is the rendering of the    *)
(* AST (possibly corrupted) and, for the quoted form, the scanner maps the source to it         *)
RegexTokOk(tok) ==
  /\ ReWF(tok.re)
  /\ tok.pat = Corrupt(RenderPat(tok.re), tok.bad)
  /\ IF tok.form = "q" /\ tok.bad = "none"
     THEN LET r == ScanQuoted(tok.body) IN r.ok /\ r.pat = tok.pat /\ r.n = Len(tok.body)
     ELSE TRUE
=============================================================================
