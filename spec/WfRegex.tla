------------------------------ MODULE WfRegex -------------------------------
(***************************************************************************)
(* L1 semantics of the pattern operators (property C11).                   *)
(*                                                                         *)
(* Regex subset (byte oriented, no Unicode, unanchored search):            *)
(*   re ::= [k "empty"] | [k "lit", c] | [k "any"]  (any byte but LF)      *)
(*        | [k "cls", neg, rs |-> Seq([lo, hi])]                           *)
(*        | [k "cat", a, b] | [k "alt", a, b] | [k "grp", a]               *)
(*        | [k "star", a] | [k "plus", a] | [k "opt", a]                   *)
(*        | [k "bol"] | [k "eol"]                                          *)
(* Ends(re, s, I) = the set of end positions of matches of re in s that    *)
(* start at some position in I (positions 0..Len(s)).                      *)
(*                                                                         *)
(* Wildcards: pattern bytes, * = any byte sequence, \* and \\ literal,     *)
(* any other escape invalid, ? ordinary; whole-value match; ASCII case     *)
(* folding unless strict.                                                  *)
(***************************************************************************)
EXTENDS WfBase

RECURSIVE Ends(_, _, _), StarClosure(_, _, _)

InCls(re, b) == LET hit == \E i \in 1..Len(re.rs) : re.rs[i].lo <= b /\ b <= re.rs[i].hi
                IN IF re.neg THEN ~hit ELSE hit

StarClosure(re, s, I) ==
  LET J == I \cup Ends(re, s, I) IN IF J = I THEN I ELSE StarClosure(re, s, J)

Ends(re, s, I) ==
  IF re.k = "empty" THEN I
  ELSE IF re.k = "lit" THEN {i + 1 : i \in {j \in I : j < Len(s) /\ s[j + 1] = re.c}}
  ELSE IF re.k = "any" THEN {i + 1 : i \in {j \in I : j < Len(s) /\ s[j + 1] # 10}}
  ELSE IF re.k = "cls" THEN {i + 1 : i \in {j \in I : j < Len(s) /\ InCls(re, s[j + 1])}}
  ELSE IF re.k = "cat" THEN Ends(re.b, s, Ends(re.a, s, I))
  ELSE IF re.k = "alt" THEN Ends(re.a, s, I) \cup Ends(re.b, s, I)
  ELSE IF re.k = "grp" THEN Ends(re.a, s, I)
  ELSE IF re.k = "star" THEN StarClosure(re.a, s, I)
  ELSE IF re.k = "plus" THEN StarClosure(re.a, s, Ends(re.a, s, I))
  ELSE IF re.k = "opt" THEN I \cup Ends(re.a, s, I)
  ELSE IF re.k = "bol" THEN I \cap {0}
  ELSE IF re.k = "eol" THEN I \cap {Len(s)}
  ELSE {}

ReMatches(re, s) == Ends(re, s, 0..Len(s)) # {}

----------------------------------------------------------------------------
(* wildcard: tokenise  *)
RECURSIVE WildToks(_, _)
(* returns a sequence of [k |-> "any"] / [k |-> "lit", c] or <<[k |-> "bad"]>> marker at the end *)
WildToks(p, i) ==
  IF i > Len(p) THEN <<>>
  ELSE IF p[i] = 92                                       \* backslash
       THEN IF i + 1 <= Len(p) /\ p[i + 1] \in {42, 92}
            THEN <<[k |-> "lit", c |-> p[i + 1]]>> \o WildToks(p, i + 2)
            ELSE <<[k |-> "bad"]>>
  ELSE IF p[i] = 42 THEN <<[k |-> "any"]>> \o WildToks(p, i + 1)
  ELSE <<[k |-> "lit", c |-> p[i]]>> \o WildToks(p, i + 1)

WildStars(ts) == Cardinality({i \in 1..Len(ts) : ts[i].k = "any"})
WildValid(p, starLimit) ==        \* starLimit = -1 : unlimited
  LET ts == WildToks(p, 1) IN
  /\ \A i \in 1..Len(ts) : ts[i].k # "bad"
  /\ \A i \in 1..(Len(ts) - 1) : ~(ts[i].k = "any" /\ ts[i + 1].k = "any")
  /\ (starLimit < 0 \/ WildStars(ts) <= starLimit)

RECURSIVE WildEnds(_, _, _, _, _)
WildEnds(ts, i, s, I, strict) ==
  IF i > Len(ts) THEN I
  ELSE IF ts[i].k = "any"
       THEN WildEnds(ts, i + 1, s, {j \in 0..Len(s) : \E a \in I : a <= j}, strict)
       ELSE WildEnds(ts, i + 1, s,
              {a + 1 : a \in {j \in I : j < Len(s)
                                /\ (IF strict THEN s[j + 1] = ts[i].c
                                    ELSE AsciiLower(s[j + 1]) = AsciiLower(ts[i].c))}},
              strict)
WildMatch(p, s, strict) == Len(s) \in WildEnds(WildToks(p, 1), 1, s, {0}, strict)
=============================================================================
