\* the code before the repair (check-then-act on an AtomicBool): RecordedIfInstalled is VIOLATED (expected; documents F11)
SPECIFICATION Spec
CONSTANTS Threads = {1, 2}
          Mode = "flag"
INVARIANTS TypeOK RecordedIfInstalled
CHECK_DEADLOCK FALSE
