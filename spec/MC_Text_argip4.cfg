CONSTANTS
  MaxAtoms = 4
  Set = "argip"
SPECIFICATION Spec
INVARIANTS Emit
CHECK_DEADLOCK FALSE
