----------------------------- MODULE Trace_Lang -----------------------------
(***************************************************************************)
(* Trace specification for recorded parse/compile/execute observations of  *)
(* the real engine (impl -> spec).  Each event carries the token sequence  *)
(* the harness rendered into source text, and what the engine did with it: *)
(* parse verdict, the AST's JSON, uses()/uses_list() answers and the       *)
(* result of executing the compiled filter on each listed context.  An     *)
(* event is accepted iff all of that is exactly what the specification     *)
(* (WfParser = L2 parser, WfEval = L1 semantics, WfJson) prescribes.       *)
(* Env: SCHEMES, CTXS, TRACE (ndjson files).                               *)
(***************************************************************************)
EXTENDS WfParser, WfEval, WfJson, WfText, Json, IOUtils

Schs == ndJsonDeserialize(IOEnv.SCHEMES)
Ctxs == ndJsonDeserialize(IOEnv.CTXS)
Rec  == ndJsonDeserialize(IOEnv.TRACE)

VARIABLES l, nbad
vars == <<l, nbad>>

(* a failed check is reported and validation continues with the next event, so that one  *)
(* run reports every rejected event (the runner classifies them); Chk is TRUE iff cond.  *)
(* The REJECT line holds scalars only, so TLC prints it on one line; details follow.       *)
Chk(cond, msg) == IF cond THEN TRUE
                  ELSE (PrintT(<<"REJECT", l, Rec[l].id>>) /\ PrintT(<<"DETAIL", l, msg>>) /\ FALSE)

UsesOk(e, sch, IsUsed(_), IsUsedList(_)) ==
  \A i \in 1..Len(e.uses) :
    LET u == e.uses[i] IN
    IF FieldIdx(sch, u.f) = NoIdx THEN Chk(u.out = "err", <<"uses: unknown field must be an error", u.f>>)
    ELSE /\ Chk(u.out = "ok", <<"uses: error for a field", u.f>>)
         /\ Chk(u.uses = IsUsed(u.f), <<"uses", u.f, "expected", IsUsed(u.f)>>)
         /\ Chk(u.list = IsUsedList(u.f), <<"uses_list", u.f, "expected", IsUsedList(u.f)>>)

(* regex tokens carry the AST the generator rendered; they must be consistent with the          *)
(* specification's renderer and scanner (else the generator, not the engine, is wrong)          *)
RegexToksOk(ts) == \A i \in 1..Len(ts) : ts[i].k = "regex" => RegexTokOk(ts[i])
StarOf(e) == IF "star" \in DOMAIN e THEN e.star ELSE -1

(* C03, definition context: a function definition creates a per-call context object when its    *)
(* arguments start being checked; every check_param call appends to it through one of the        *)
(* mutable accessors (downcast_mut for even argument positions, as_any_mut for odd ones), and     *)
(* return_type / compile must see that same object - with all n entries - through every           *)
(* accessor.  Observations are [phase, accessor, entries seen or -1 when the accessor failed].    *)
RECURSIVE CallArgCounts(_, _), CallArgCountsIdx(_, _), CallArgCountsArg(_, _)
CallArgCountsArg(a, fname) == IF a.k = "aidx" THEN CallArgCountsIdx(a.e, fname)
                              ELSE IF a.k = "alit" THEN <<>> ELSE CallArgCounts(a.e, fname)
CallArgCountsIdx(ie, fname) ==
  IF ie.id.k = "field" THEN <<>>
  ELSE (IF ie.id.name = fname THEN <<Len(ie.id.args)>> ELSE <<>>)
       \o FlatSeq(Strict([i \in 1..Len(ie.id.args) |-> CallArgCountsArg(ie.id.args[i], fname)]))
CallArgCounts(n, fname) ==
  IF n.k = "comb" THEN FlatSeq(Strict([i \in 1..Len(n.items) |-> CallArgCounts(n.items[i], fname)]))
  ELSE IF n.k = "cmp" THEN CallArgCountsIdx(n.lhs, fname)
  ELSE IF n.k = "quant" THEN CallArgCountsArg(n.arg, fname)
  ELSE CallArgCounts(n.e, fname)

CtxObsOk(obs, n) ==
  LET checks == SelectSeq(obs, LAMBDA o : o[1] = "check")
      later == SelectSeq(obs, LAMBDA o : o[1] # "check")
  IN /\ Len(checks) = n
     /\ \A i \in 1..Len(checks) :
          /\ checks[i][2] = (IF (i - 1) % 2 = 0 THEN "downcast_mut" ELSE "as_any_mut")
          /\ checks[i][3] = i                       \* the object holds exactly the arguments checked so far
     /\ Len(later) >= 3                             \* return_type (two accessors) and compile were reached
     /\ \A i \in 1..Len(later) : later[i][3] = n   \* the same object, complete, through every accessor

CheckFilter(e) ==
  LET sch == Schs[e.sch]
      r == ParseFilterS(e.ts, sch, e.max, StarOf(e))
  IN /\ Chk(RegexToksOk(e.ts), "generator: regex token inconsistent with RenderPat / ScanQuoted")
     /\ Chk(e.out \notin {"panic", "settings-routes-disagree"}, <<"parse outcome", e.out>>)
     /\ Chk(r.ok = e.ok, <<"parse verdict: spec says ok =", r.ok>>)
     /\ r.ok =>
          /\ Chk(e.ast = [c |-> "deep"] \/ AstJson(r.node) = e.ast, <<"ast json, expected", AstJson(r.node)>>)
          /\ Chk(NestLogical(r.node) <= e.max, "nesting above the limit accepted")
          /\ ("ctxobs" \in DOMAIN e /\ CallArgCounts(r.node, "ctxfn") # <<>> /\ Len(CallArgCounts(r.node, "ctxfn")) = 1) =>
                Chk(CtxObsOk(e.ctxobs, CallArgCounts(r.node, "ctxfn")[1]),
                    <<"definition context of ctxfn with", CallArgCounts(r.node, "ctxfn")[1], "arguments; observed", e.ctxobs>>)
          /\ UsesOk(e, sch, LAMBDA f : UsesLogical(r.node, f), LAMBDA f : UsesListLogical(r.node, f))
          /\ \A i \in 1..Len(e.runs) :
               LET run == e.runs[i] IN
               /\ Chk(run.out = "ok", <<"execute outcome", run.out, "ctx", run.ctx>>)
               /\ Chk(run.res = EvalFilter(r.node, Ctxs[run.ctx], sch),
                      <<"execute result on ctx", run.ctx, "observed", run.res>>)

(* C03, invocation log of recorded executions.  The functions of the harness family listed in LogSems write down  *)
(* every invocation (name of the implementation, argument tuple).  Whatever the engine memoises or re-evaluates:    *)
(*  - every recorded invocation is one that CallLog prescribes for some call of that function in the expression     *)
(*    (arguments in source order, literals as written, defaults, typed absences, one element of the first argument  *)
(*    under [*]) - no call node is evaluated against anything but the context, so this does not depend on position; *)
(*  - the call at the root of a value expression is evaluated exactly once per execution, so its prescribed          *)
(*    invocations occur, in order, among the recorded invocations of its function.                                  *)
(* How often a nested call is evaluated (memoised or once per element, skipped by a short-circuit) is not stated    *)
(* by C03 and not judged.                                                                                           *)
LogSems == {"aa", "ab", "alen", "ba", "blen", "both", "drop_empty", "join3", "lit_only", "opt2", "pair", "plen"}
RECURSIVE CallsIn(_), CallsInIdx(_), CallsInArg(_)
CallsInArg(a) == IF a.k = "aidx" THEN CallsInIdx(a.e) ELSE IF a.k = "alit" THEN <<>> ELSE CallsIn(a.e)
CallsInIdx(ie) ==
  IF ie.id.k = "field" THEN <<>>
  ELSE <<ie.id>> \o FlatSeq(Strict([i \in 1..Len(ie.id.args) |-> CallsInArg(ie.id.args[i])]))
CallsIn(n) ==
  IF n.k = "comb" THEN FlatSeq(Strict([i \in 1..Len(n.items) |-> CallsIn(n.items[i])]))
  ELSE IF n.k = "cmp" THEN CallsInIdx(n.lhs)
  ELSE IF n.k = "quant" THEN CallsInArg(n.arg)
  ELSE CallsIn(n.e)
ArgEq(a, b) == /\ a.t = b.t
               /\ IF a.t = "nil" THEN (("ty" \in DOMAIN a /\ "ty" \in DOMAIN b) => a.ty = b.ty) ELSE a = b
TupEq(x, y) == Len(x) = Len(y) /\ \A i \in 1..Len(x) : ArgEq(x[i], y[i])
RECURSIVE IsSubseqBy(_, _)
IsSubseqBy(p, o) == IF p = <<>> THEN TRUE ELSE IF o = <<>> THEN FALSE
                    ELSE IF TupEq(Head(p), Head(o)) THEN IsSubseqBy(Tail(p), Tail(o)) ELSE IsSubseqBy(p, Tail(o))
SemOfCall(c, sch) == FuncOf(sch, c.name).sem
(* obs: <<sem, argument tuple>> per invocation, in order; nodes: the call nodes of the expression *)
CallObsOk(obs, nodes, root, ctx, sch) ==
  LET logged == SelectSeq(nodes, LAMBDA c : SemOfCall(c, sch) \in LogSems)
      logs == Strict([j \in 1..Len(logged) |-> CallLog(logged[j], ctx, sch)])
  IN /\ \A i \in 1..Len(obs) :
          obs[i][1] \in LogSems =>
            Chk(\E j \in 1..Len(logged) : /\ SemOfCall(logged[j], sch) = obs[i][1]
                                           /\ \E k \in 1..Len(logs[j]) : TupEq(logs[j][k], obs[i][2]),
                <<"invocation with arguments no call of the expression prescribes", obs[i]>>)
     /\ (root.k # "field" /\ SemOfCall(root, sch) \in LogSems) =>
          LET mine == SelectSeq(obs, LAMBDA o : o[1] = SemOfCall(root, sch))
          IN Chk(IsSubseqBy(CallLog(root, ctx, sch), Strict([i \in 1..Len(mine) |-> mine[i][2]])),
                 <<"invocations of the root call: expected (in order)", CallLog(root, ctx, sch), "recorded", mine>>)

CheckValue(e) ==
  LET sch == Schs[e.sch]
      r == ParseValue(e.ts, sch, e.max)
  IN /\ Chk(e.out \notin {"panic", "settings-routes-disagree"}, <<"parse_value outcome", e.out>>)
     /\ Chk(r.ok = e.ok, <<"parse_value verdict: spec says ok =", r.ok>>)
     /\ r.ok =>
          /\ Chk(ValueAstJson(r.node) = e.ast, <<"value ast json, expected", ValueAstJson(r.node)>>)
          /\ UsesOk(e, sch, LAMBDA f : UsesIndex(r.node, f), LAMBDA f : UsesListIndex(r.node, f))
          /\ \A i \in 1..Len(e.runs) :
               LET run == e.runs[i]
                   x == EvalValue(r.node, Ctxs[run.ctx], sch) IN
               /\ Chk(run.out = "ok", <<"execute outcome", run.out, "ctx", run.ctx>>)
               /\ Chk(run.res.t = x.t /\ run.res = x,
                      <<"value on ctx", run.ctx, "expected", x, "observed", run.res>>)
               /\ ("rec" \in DOMAIN e /\ e.rec /\ run.out = "ok") =>
                     CallObsOk(IF "calls" \in DOMAIN run THEN run.calls ELSE <<>>, CallsInIdx(r.node), r.node.id,
                               Ctxs[run.ctx], sch)

(* the TEXT of a filter or value expression (code points), judged by the character-level parser: white space *)
(* anywhere or nowhere, glued keywords, corrupted characters.  "unspec" verdicts are not judged.            *)
CheckText(e) ==
  LET sch == Schs[e.sch]
      r == IF e.value THEN ParseValueText(e.chars, sch, e.max, e.star, sch.idents)
           ELSE ParseText(e.chars, sch, e.max, e.star, sch.idents)
      reg == IF r.v = "yes" THEN 11 ELSE IF r.v = "no" THEN 12 ELSE 13
  IN /\ TLCSet(reg, TLCGet(reg) + 1)           \* verdict statistics (vacuity control): yes / no / not judged
     /\ Chk(e.out \notin {"panic", "settings-routes-disagree"}, <<"parser outcome on the text", e.out>>)
     /\ r.v # "unspec" =>
          /\ Chk((r.v = "yes") = e.ok, <<"verdict on text: spec says", r.v, "observed ok =", e.ok>>)
          /\ (r.v = "yes" /\ e.ok) =>
               /\ Chk((IF e.value THEN ValueAstJson(r.node) ELSE AstJson(r.node)) = e.ast,
                      <<"ast json of the text, expected", IF e.value THEN ValueAstJson(r.node) ELSE AstJson(r.node)>>)
               /\ \A i \in 1..Len(e.runs) :
                    LET run == e.runs[i] IN
                    Chk(run.out = "ok" /\ run.res = EvalFilter(r.node, Ctxs[run.ctx], sch),
                        <<"result on ctx", run.ctx, "expected", EvalFilter(r.node, Ctxs[run.ctx], sch), "observed", run.out, run.res>>)
               /\ \A i \in 1..Len(e.vruns) :
                    LET run == e.vruns[i] x == EvalValue(r.node, Ctxs[run.ctx], sch) IN
                    Chk(run.out = "ok" /\ run.res.t = x.t /\ run.res = x, <<"value on ctx", run.ctx, "expected", x, "observed", run.res>>)

(* C07: alias / white-space variants of one token sequence, and a structurally different partner *)
CheckCanon(e) ==
  LET sch == Schs[e.sch]
      r  == ParseFilter(e.ts, sch, e.max)
      r2 == ParseFilter(e.ts2, sch, e.max)
      v1 == e.vars[1]
  IN /\ \A i \in 1..Len(e.vars) :
          LET v == e.vars[i] IN
          /\ Chk(v.out # "panic", <<"variant panicked", i>>)
          /\ Chk(v.ok = r.ok, <<"variant verdict", i, "spec says ok =", r.ok>>)
          /\ (r.ok /\ v.ok) =>
                /\ Chk(v.ast = AstJson(r.node), <<"variant ast json", i>>)
                /\ Chk(v.jsontext = v1.jsontext, <<"variant serializes differently", i>>)
                /\ Chk(v.hash = v1.hash, <<"variant hashes differently", i>>)
                \* the C API route: same verdict, the same JSON, its hash is the FNV-1a of that JSON and so the same for every variant
                /\ Chk(v.cok, <<"C API: parse / JSON / hash of the variant differs from the Rust API's", i>>)
                /\ Chk(v.chash = v1.chash, <<"variant has another C API hash", i, v.chash, v1.chash>>)
                /\ Chk(v.eq, <<"variant AST not equal to the first", i>>)
                /\ Chk(v.stable, <<"re-serialization differs", i>>)
     /\ Chk(e.other.out # "panic", "partner panicked")
     /\ Chk(e.other.ok = r2.ok, <<"partner verdict: spec says ok =", r2.ok>>)
     /\ (r2.ok /\ e.other.ok) => Chk(e.other.ast = AstJson(r2.node), "partner ast json")
     /\ (r.ok /\ r2.ok /\ v1.ok /\ e.other.ok) =>
           LET same == AstJson(r.node) = AstJson(r2.node) IN
           /\ Chk(same <=> (e.other.jsontext = v1.jsontext),
                  <<"structurally different filters must serialize differently; same structure =", same>>)
           /\ Chk(e.eq12 => (same /\ e.other.hash = v1.hash /\ e.other.chash = v1.chash), "equal ASTs must have equal JSON and hash")
           /\ Chk(e.other.cok, "C API: parse / JSON / hash of the partner differs from the Rust API's")

(* C11: the compiled-size limit is opaque; only its monotone consequences are specified: a      *)
(* pattern accepted under a limit is accepted under every larger one, every generated pattern   *)
(* fits the default (results are listed in ascending order of the limit)                        *)
CheckReLimit(e) ==
  /\ Chk(RegexTokOk(e.tok), "generator: regex token inconsistent")
  /\ \A i \in 1..Len(e.res) : Chk(e.res[i].out = "ok", "parser panicked under a size limit")
  /\ \A i \in 1..(Len(e.res) - 1) : Chk(e.res[i].ok => e.res[i + 1].ok, <<"size limit not monotone at", i>>)
  /\ Chk(e.res[Len(e.res)].ok, "valid pattern rejected under the default size limit")
  \* a limit is a setting of the parser: the same pattern gets the same verdict inside parentheses and under not
  /\ \A i \in 1..Len(e.res) : Chk(e.res[i].nested = e.res[i].ok, <<"size limit differs under nesting at", i>>)
  \* ... and of that parser only: what other parsers compiled before does not matter
  /\ Chk(e.again = e.res[1].ok, "the verdict under the smallest limit changed after the pattern had been compiled under a larger one")

Init == l = 1 /\ nbad = 0 /\ TLCSet(11, 0) /\ TLCSet(12, 0) /\ TLCSet(13, 0)
Next == /\ l <= Len(Rec)
        /\ LET e == Rec[l]
               good == IF e.ev = "filter" THEN CheckFilter(e)
                       ELSE IF e.ev = "value" THEN CheckValue(e)
                       ELSE IF e.ev = "text" THEN CheckText(e)
                       ELSE IF e.ev = "canon" THEN CheckCanon(e)
                       ELSE IF e.ev = "relimit" THEN CheckReLimit(e)
                       ELSE Chk(FALSE, "unknown event")
           IN nbad' = IF good THEN nbad ELSE nbad + 1
        /\ l' = l + 1
Spec == Init /\ [][Next]_vars

(* every event consumed (a shorter diameter means the spec could not even evaluate an event) *)
Accepted == IF TLCGet("stats").diameter = Len(Rec) + 1
            THEN PrintT(<<"TRACE-CONSUMED", Len(Rec)>>) /\ PrintT(<<"TEXT-VERDICTS", TLCGet(11), TLCGet(12), TLCGet(13)>>)
            ELSE (PrintT(<<"TRACE-STUCK-AT", TLCGet("stats").diameter, "of", Len(Rec)>>) /\ FALSE)
=============================================================================
