------------------------------ MODULE MC_C08v -------------------------------
(***************************************************************************)
(* Construction of container values (property C08: "arrays and maps can    *)
(* only be built homogeneous").  Every array and every map of <= 3         *)
(* elements over an element pool that contains, for each declared element  *)
(* type, a well-typed element, elements of another primitive, of the right *)
(* container kind with another element type, and of another depth.  Each   *)
(* case is one mkval operation: the harness builds the value through every *)
(* public route (Array::try_from_vec, Array::try_from_iter,                *)
(* Map::try_from_iter), which must all accept iff WellTyped.               *)
(***************************************************************************)
EXTENDS WfContext, Json
VARIABLES c
I1 == VInt(<<0, 0, 0, 1>>)
Ba == VBytes(<<97>>)
AI == VArr(TInt, <<I1>>)
AB == VArr(TBytes, <<Ba>>)
AE == VArr(TInt, <<>>)                       \* empty, typed Array(Int)
AAI == VArr(TArr(TInt), <<AI>>)
MI == VMap(TInt, <<[k |-> <<107>>, v |-> I1]>>)
MAI == VMap(TArr(TInt), <<[k |-> <<107>>, v |-> AI]>>)
ElemPool == {I1, Ba, AI, AB, AE, AAI, MI, MAI}
ElemTypes == {TInt, TBytes, TArr(TInt), TArr(TBytes), TArr(TArr(TInt)), TMap(TInt), TMap(TArr(TInt))}
Upto3(X) == {<<>>} \cup {<<x>> : x \in X} \cup {<<x, y>> : x \in X, y \in X} \cup {<<x, y, z>> : x \in X, y \in X, z \in X}
Keys == <<<<97>>, <<98>>, <<99>>>>
Cases == {VArr(e, s) : e \in ElemTypes, s \in Upto3(ElemPool)}
         \cup {VMap(e, [i \in 1..Len(s) |-> [k |-> Keys[i], v |-> s[i]]]) : e \in ElemTypes, s \in Upto3(ElemPool)}
Scheme1 == [fields |-> <<[name |-> "x", ty |-> TInt, opt |-> FALSE]>>, funcs |-> <<>>, lists |-> <<>>, listkinds |-> <<>>, nne |-> FALSE]
S == <<Scheme1>>
Init == c \in Cases
Next == UNCHANGED c
Spec == Init /\ [][Next]_c
Op == [op |-> "mkval", c |-> 1, v |-> c]
W0 == <<NewCtx(S, 1)>>
R == Apply(S, W0, Op)
(* homogeneity as a theorem about the model: accepted iff every element has the declared element type *)
Homogeneous == (R.res.out = "ok") <=> (\A i \in 1..Len(c.v) : TypeOf(IF c.t = "arr" THEN c.v[i] ELSE c.v[i].v) = c.e
                                                           /\ WellTyped(IF c.t = "arr" THEN c.v[i] ELSE c.v[i].v))
Emit == PrintT(<<"REPLAY", ToJson([ev |-> "hist", init |-> <<1>>, ops |-> <<Op>>, res |-> <<R.res>>, final |-> R.w])>>)
ASSUME PrintT(<<"REPLAY", ToJson([hdr |-> "schemes", schs |-> S])>>)
=============================================================================
