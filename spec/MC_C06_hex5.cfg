CONSTANTS
  MaxLen = 5
  Kind = "hex"
SPECIFICATION Spec
INVARIANTS ConsumedInRange Emit
CHECK_DEADLOCK FALSE
