CONSTANTS
  MaxLen = 9
  Mode = "gram"
SPECIFICATION Spec
INVARIANTS ParserSound PrecOk TextAgrees Emit
CHECK_DEADLOCK FALSE
