CONSTANTS
  MaxLen = 3
  Pool = {1, 2, 3, 4, 6}
  WithLists = TRUE
SPECIFICATION Spec
INVARIANTS WorldTypeOK Emit
PROPERTY FailedSetIsNoop
CHECK_DEADLOCK FALSE
