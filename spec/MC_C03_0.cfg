CONSTANTS
  Part = 0
SPECIFICATION Spec
INVARIANTS ArityRule MapEachOnlyFirst Emit
CHECK_DEADLOCK FALSE
