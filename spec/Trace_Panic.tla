---------------------------- MODULE Trace_Panic -----------------------------
(* Trace specification for recorded panic-catcher runs (C19): each event is one script run   *)
(* on one real thread (concurrently with other threads running other scripts), with what the *)
(* thread observed: catch_panic results, backtrace queries, nesting level after every step,  *)
(* fall-through count, escape.  Accepted iff it is exactly RunAlone(script).                 *)
EXTENDS WfPanicSeq, Json, IOUtils
Rec == ndJsonDeserialize(IOEnv.TRACE)
VARIABLES l, nbad
vars == <<l, nbad>>
Chk(cond, msg) == IF cond THEN TRUE
                  ELSE (PrintT(<<"REJECT", l, Rec[l].id>>) /\ PrintT(<<"DETAIL", l, msg>>) /\ FALSE)
Check(e) ==
  LET x == RunAlone(e.script, e.t) IN
  /\ Chk(WellBracketed(e.script), "script not well bracketed")
  /\ Chk(e.obs = x.obs, <<"observations, expected", x.obs, "observed", e.obs>>)
  /\ Chk(e.levels = x.levels, <<"nesting level after each step, expected", x.levels, "observed", e.levels>>)
  /\ Chk(e.sent = x.sent, <<"panics that reached the previous hook, expected", x.sent, "observed", e.sent>>)
  /\ Chk(e.status = x.status, <<"status expected", x.status, "observed", e.status>>)
Init == l = 1 /\ nbad = 0
Next == /\ l <= Len(Rec)
        /\ nbad' = IF Check(Rec[l]) THEN nbad ELSE nbad + 1
        /\ l' = l + 1
Spec == Init /\ [][Next]_vars
Accepted == IF TLCGet("stats").diameter = Len(Rec) + 1 THEN PrintT(<<"TRACE-CONSUMED", Len(Rec)>>)
            ELSE (PrintT(<<"TRACE-STUCK-AT", TLCGet("stats").diameter, "of", Len(Rec)>>) /\ FALSE)
=============================================================================
