CONSTANTS
  MaxAtoms = 4
  Set = "logic"
SPECIFICATION Spec
INVARIANTS Emit
CHECK_DEADLOCK FALSE
