------------------------------ MODULE WfSerde -------------------------------
(***************************************************************************)
(* JSON encoding of execution contexts (property C14).                     *)
(*                                                                         *)
(* Documents are trees of tagged nodes:                                    *)
(*   [j "obj", v Seq([k bytes, v node])]  [j "arr", v Seq(node)]            *)
(*   [j "str", v bytes]  [j "num", v limbs]  [j "bool", v BOOLEAN]          *)
(*   [j "null"]  [j "ip", v octets, txt bytes]  (a string holding an IP    *)
(*   address; the harness recognises it; the textual form belongs to std   *)
(*   and is carried along so that a Bytes field can take the string)       *)
(*   [j "matcher", v matcher]  (list-matcher data, opaque to the spec)     *)
(*                                                                         *)
(* EncValue / EncCtx : what serialization must produce.                    *)
(* DecValue / DecCtx : the type-directed decoder, accepting both encodings *)
(* of byte strings (string / array of numbers) and maps (object / array of *)
(* [key, value] pairs); DecCtx is a left-to-right fold over the entries.   *)
(***************************************************************************)
EXTENDS WfSyntax, WfTypes

JStr(b)  == [j |-> "str", v |-> b]
JNum(l)  == [j |-> "num", v |-> l]
JBool(b) == [j |-> "bool", v |-> b]
JArr(s)  == [j |-> "arr", v |-> s]
JObj(s)  == [j |-> "obj", v |-> s]
JIp(o)   == [j |-> "ip", v |-> o]

EncBytes(b) == IF IsUtf8(b) THEN JStr(b) ELSE JArr(Strict([i \in 1..Len(b) |-> JNum(IntOfNat(b[i]))]))

RECURSIVE EncValue(_)
EncValue(v) ==
  IF v.t = "bool" THEN JBool(v.v)
  ELSE IF v.t = "int" THEN JNum(v.v)
  ELSE IF v.t = "ip" THEN JIp(v.v)
  ELSE IF v.t = "bytes" THEN EncBytes(v.v)
  ELSE IF v.t = "arr" THEN JArr(Strict([i \in 1..Len(v.v) |-> EncValue(v.v[i])]))
  ELSE \* map: object iff every key is UTF-8, else key-sorted array of [key, value] pairs
       IF \A i \in 1..Len(v.v) : IsUtf8(v.v[i].k)
       THEN JObj(Strict([i \in 1..Len(v.v) |-> [k |-> v.v[i].k, v |-> EncValue(v.v[i].v)]]))
       ELSE JArr(Strict([i \in 1..Len(v.v) |-> JArr(<<EncBytes(v.v[i].k), EncValue(v.v[i].v)>>)]))

(* type descriptors travel in compact form [prim |-> name, lay |-> layer string, outermost first] *)
RECURSIVE TyOfLay(_, _)
TyOfLay(prim, lay) == IF lay = <<>> THEN [k |-> prim]
                      ELSE IF Head(lay) = 0 THEN TArr(TyOfLay(prim, Tail(lay))) ELSE TMap(TyOfLay(prim, Tail(lay)))
TypeDoc(T) == [prim |-> PrimOf(T), lay |-> Layers(T)]

(* the context document: present fields (compared as a set: sorted by name by the harness) and,  *)
(* iff the scheme has lists, "$lists" with one typed entry per list in registration order         *)
EncFields(sch, ctx) ==
  LET present == SelectSeq(Strict([i \in 1..Len(sch.fields) |-> i]), LAMBDA i : ~IsNil(ctx.vals[i]))
  IN Strict([n \in 1..Len(present) |-> [name |-> sch.fields[present[n]].name, v |-> EncValue(ctx.vals[present[n]])]])
EncLists(sch, ctx) ==
  Strict([i \in 1..Len(sch.lists) |-> [type |-> TypeDoc(sch.lists[i]), data |-> ctx.lists[i]]])

----------------------------------------------------------------------------
Bad == [ok |-> FALSE]
Good(v) == [ok |-> TRUE, v |-> v]

IsByteNum(n) == n.j = "num" /\ n.v[1] = 0 /\ n.v[2] = 0 /\ n.v[3] = 0 /\ n.v[4] <= 255
DecBytes(n) == IF n.j = "str" THEN Good(n.v)
               ELSE IF n.j = "ip" /\ "txt" \in DOMAIN n THEN Good(n.txt)   \* a string that also reads as an address
               ELSE IF n.j = "arr" /\ \A i \in 1..Len(n.v) : IsByteNum(n.v[i])
                    THEN Good(Strict([i \in 1..Len(n.v) |-> n.v[i].v[4]]))
               ELSE Bad

(* insert / replace in a key-sorted pair sequence *)
MapPut(s, key, val) ==
  LET without == SelectSeq(s, LAMBDA e : e.k # key)
      before == SelectSeq(without, LAMBDA e : BytesCmp(e.k, key) < 0)
      after == SelectSeq(without, LAMBDA e : BytesCmp(e.k, key) > 0)
  IN before \o <<[k |-> key, v |-> val]>> \o after

RECURSIVE DecValue(_, _), DecElems(_, _, _), DecObjEntries(_, _, _), DecPairs(_, _, _)
DecElems(T, ns, acc) ==
  IF ns = <<>> THEN Good(acc)
  ELSE LET r == DecValue(T, Head(ns)) IN IF r.ok THEN DecElems(T, Tail(ns), Append(acc, r.v)) ELSE Bad
DecObjEntries(T, es, acc) ==
  IF es = <<>> THEN Good(acc)
  ELSE LET r == DecValue(T, Head(es).v) IN
       IF r.ok THEN DecObjEntries(T, Tail(es), MapPut(acc, Head(es).k, r.v)) ELSE Bad
DecPairs(T, ps, acc) ==
  IF ps = <<>> THEN Good(acc)
  ELSE LET p == Head(ps) IN
       IF p.j # "arr" \/ Len(p.v) # 2 THEN Bad
       ELSE LET k == DecBytes(p.v[1]) r == DecValue(T, p.v[2]) IN
            IF k.ok /\ r.ok THEN DecPairs(T, Tail(ps), MapPut(acc, k.v, r.v)) ELSE Bad
DecValue(T, n) ==
  IF T.k = "Bool" THEN IF n.j = "bool" THEN Good(VBool(n.v)) ELSE Bad
  ELSE IF T.k = "Int" THEN IF n.j = "num" THEN Good(VInt(n.v)) ELSE Bad
  ELSE IF T.k = "Ip" THEN IF n.j = "ip" THEN Good(VIp(n.v)) ELSE Bad
  ELSE IF T.k = "Bytes" THEN LET b == DecBytes(n) IN IF b.ok THEN Good(VBytes(b.v)) ELSE Bad
  ELSE IF T.k = "Array"
       THEN IF n.j # "arr" THEN Bad
            ELSE LET r == DecElems(T.e, n.v, <<>>) IN IF r.ok THEN Good(VArr(T.e, r.v)) ELSE Bad
  ELSE IF n.j = "obj" THEN LET r == DecObjEntries(T.e, n.v, <<>>) IN IF r.ok THEN Good(VMap(T.e, r.v)) ELSE Bad
  ELSE IF n.j = "arr" THEN LET r == DecPairs(T.e, n.v, <<>>) IN IF r.ok THEN Good(VMap(T.e, r.v)) ELSE Bad
  ELSE Bad

(* a compact type descriptor denotes a type iff its primitive exists and it has at most 32 layers *)
DocTypeOk(t) == t.prim \in {"Bool", "Int", "Ip", "Bytes"} /\ Len(t.lay) <= MaxLayers

(* "$lists": array of entries; each entry = [type |-> descriptor doc, data |-> matcher | "missing"] *)
RECURSIVE DecLists(_, _, _)
DecLists(sch, es, lists) ==
  IF es = <<>> THEN Good(lists)
  ELSE LET e == Head(es)
       IN IF ~DocTypeOk(e.type) THEN Bad
          ELSE LET li == ListIdx(sch, TyOfLay(e.type.prim, e.type.lay)) IN
               IF li = NoIdx \/ e.data.kind = "missing" THEN Bad
               ELSE DecLists(sch, Tail(es), [lists EXCEPT ![li] = e.data])

(* fold over the entries of the context document, left to right *)
RECURSIVE DecEntries(_, _, _)
DecEntries(sch, es, ctx) ==
  IF es = <<>> THEN [ok |-> TRUE, ctx |-> ctx]
  ELSE LET e == Head(es) IN
       IF e.kind = "lists"
       THEN LET r == DecLists(sch, e.entries, ctx.lists) IN
            IF r.ok THEN DecEntries(sch, Tail(es), [ctx EXCEPT !.lists = r.v]) ELSE [ok |-> FALSE, ctx |-> ctx]
       ELSE LET fi == FieldIdx(sch, e.name) IN
            IF fi = NoIdx THEN [ok |-> FALSE, ctx |-> ctx]
            ELSE LET r == DecValue(sch.fields[fi].ty, e.v) IN
                 IF r.ok THEN DecEntries(sch, Tail(es), [ctx EXCEPT !.vals[fi] = r.v])
                 ELSE [ok |-> FALSE, ctx |-> ctx]
=============================================================================
