----------------------------- MODULE Trace_Lit ------------------------------
(* Trace specification for recorded literal parses (C06): candidate literal text (code points), *)
(* the context it was embedded in, and what the engine made of it.                              *)
EXTENDS WfLit, Json, IOUtils
Rec == ndJsonDeserialize(IOEnv.TRACE)
VARIABLES l, nbad
vars == <<l, nbad>>
Chk(cond, msg) == IF cond THEN TRUE
                  ELSE (PrintT(<<"REJECT", l, Rec[l].id>>) /\ PrintT(<<"DETAIL", l, msg>>) /\ FALSE)
IsIpKind(k) == k \in {"ipeq", "ipitem"}
CheckIp(e) ==
  LET x == ExpectedIp(e.kind, e.chars) IN
  /\ Chk(e.obs.out # "panic", "parser panicked")
  /\ x.ok # "unspec" =>
       /\ Chk((e.obs.out = "ok") = (x.ok = "yes"), <<"verdict for", e.kind, "spec says", x.ok, "observed", e.obs.out>>)
       /\ (e.obs.out = "ok" /\ x.ok = "yes") => Chk(e.obs.v = x.v, <<"value, expected", x.v, "observed", e.obs.v>>)
Check(e) ==
  IF IsIpKind(e.kind) THEN CheckIp(e) ELSE
  LET x == Expected(e.kind, e.chars) IN
  /\ Chk(e.obs.out # "panic", "parser panicked")
  /\ Chk((e.obs.out = "ok") = x.ok, <<"verdict for", e.kind, "spec says ok =", x.ok, "observed", e.obs.out>>)
  /\ (e.obs.out = "ok" /\ x.ok) => Chk(e.obs.v = x.v, <<"value, expected", x.v, "observed", e.obs.v>>)
Init == l = 1 /\ nbad = 0
Next == /\ l <= Len(Rec)
        /\ nbad' = IF Check(Rec[l]) THEN nbad ELSE nbad + 1
        /\ l' = l + 1
Spec == Init /\ [][Next]_vars
Accepted == IF TLCGet("stats").diameter = Len(Rec) + 1 THEN PrintT(<<"TRACE-CONSUMED", Len(Rec)>>)
            ELSE (PrintT(<<"TRACE-STUCK-AT", TLCGet("stats").diameter, "of", Len(Rec)>>) /\ FALSE)
=============================================================================
