CONSTANTS
  Part = 1
SPECIFICATION Spec
INVARIANTS ArityRule MapEachOnlyFirst Emit
CHECK_DEADLOCK FALSE
