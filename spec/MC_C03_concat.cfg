CONSTANTS
  Part = 25
SPECIFICATION Spec
INVARIANTS ArityRule MapEachOnlyFirst Emit
CHECK_DEADLOCK FALSE
