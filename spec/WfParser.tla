------------------------------ MODULE WfParser ------------------------------
(***************************************************************************)
(* L2: token-level transcription of the engine's recursive-descent parser  *)
(* with type checking (engine/src/ast/{logical,field,index,function}_expr) *)
(* including precedence climbing with min_prec and look-ahead, same-       *)
(* operator flattening, the nesting counter with its four increment sites  *)
(* and every admissibility check.  Error kinds are not modelled: a parse   *)
(* yields [ok |-> TRUE, node, pos, ty] or Fail.                            *)
(*                                                                         *)
(* c == [ts |-> token sequence, sch |-> scheme, max |-> max nesting depth] *)
(* d == current nesting depth                                              *)
(***************************************************************************)
EXTENDS WfSyntax, WfRegex

Fail == [ok |-> FALSE]
Ok(n, p, t) == [ok |-> TRUE, node |-> n, pos |-> p, ty |-> t]

Tok(c, p) == IF p <= Len(c.ts) THEN c.ts[p] ELSE [k |-> "eof"]
TokK(c, p) == Tok(c, p).k

Prec(op) == IF op = "none" THEN 0 ELSE IF op = "or" THEN 1 ELSE IF op = "xor" THEN 2 ELSE 3

(* lex_combining_op: <<op | "none", position after the operator | unchanged>> *)
LookAhead(c, p) == IF TokK(c, p) = "lop" THEN [op |-> Tok(c, p).v, pos |-> p + 1]
                   ELSE [op |-> "none", pos |-> p]

OrdName(v) == IF v = "eq" THEN "Equal" ELSE IF v = "ne" THEN "NotEqual"
              ELSE IF v = "ge" THEN "GreaterThanEqual" ELSE IF v = "le" THEN "LessThanEqual"
              ELSE IF v = "gt" THEN "GreaterThan" ELSE "LessThan"
BopName(v) == IF v = "contains" THEN "Contains" ELSE IF v = "matches" THEN "Matches"
              ELSE IF v = "wildcard" THEN "Wildcard" ELSE "Strict Wildcard"
LopName(v) == IF v = "and" THEN "And" ELSE IF v = "or" THEN "Or" ELSE "Xor"

(* a list name is a non-empty run of a-z 0-9 _ . that neither starts nor ends with a dot *)
ListNameOk(nm) == /\ Len(nm) > 0
                  /\ \A j \in 1..Len(nm) : nm[j] \in (97..122) \cup (48..57) \cup {95, 46}
                  /\ nm[1] # 46 /\ nm[Len(nm)] # 46

IsCmpOpTok(k) == k \in {"in", "ord", "band", "bop"}

(* A quoted or raw string literal is one text with two readings: a byte string (operand of an   *)
(* ordering operator, contains, a brace list, a call argument) or a wildcard pattern (operand of *)
(* wildcard / strict wildcard).  Generators label the token by the reading they intended; the    *)
(* parser reads it by position.                                                                  *)
AsBytes(t) == IF t.k = "wild" THEN [k |-> "bytes", v |-> t.v, form |-> t.form] ELSE t
IsStrLit(t) == (t.k = "wild") \/ (t.k = "bytes" /\ t.form \in {"q", "r"})

(* brace-list item kinds admissible for a left-hand type *)
ItemOk(T, k) == IF T.k = "Int" THEN k \in {"int", "irange"}
                ELSE IF T.k = "Ip" THEN k \in {"ip", "cidr", "iprange"}
                ELSE k = "bytes"
(* well-formedness of range and block items: ranges are written low..high within one address    *)
(* family, a CIDR block has no bit set below its prefix length                                   *)
ItemWF(t) == IF t.k = "irange" THEN IntCmp(t.lo, t.hi) <= 0
             ELSE IF t.k = "iprange" THEN Len(t.lo) = Len(t.hi) /\ LexCmp(t.lo, t.hi) <= 0
             ELSE IF t.k = "cidr" THEN t.len <= 8 * Len(t.v) /\ ~CidrHasHostBits(t.v, t.len)
             ELSE TRUE
(* single literal admissible for an ordering comparison *)
LitOk(T, k) == IF T.k = "Int" THEN k = "int" ELSE IF T.k = "Ip" THEN k = "ip" ELSE k = "bytes"

RECURSIVE LexLogical(_, _, _), LexSimple(_, _, _), More(_, _, _, _, _, _), Inner(_, _, _, _, _),
          LexIndex(_, _, _), LexIdxLoop(_, _, _, _, _), LexCall(_, _, _, _), LexArgs(_, _, _, _, _, _),
          LexArg(_, _, _), LexCmpWithLhs(_, _, _, _), LexItems(_, _, _, _)

(* ---- brace list  { item* } ------------------------------------------- *)
LexItems(c, p, T, acc) ==
  IF TokK(c, p) = "rbr" THEN [ok |-> TRUE, items |-> acc, pos |-> p + 1]
  ELSE IF ItemOk(T, AsBytes(Tok(c, p)).k) /\ ItemWF(Tok(c, p)) THEN LexItems(c, p + 1, T, Append(acc, MkRhs(AsBytes(Tok(c, p)))))
  ELSE Fail

(* ---- ComparisonExpr::lex_with_lhs ------------------------------------ *)
LexCmpWithLhs(c, p, d, l) ==        \* l: result of LexIndex (node = lhs, ty, pos)
  LET T == l.ty
      lhs == l.node
      Mk(op, rhs, q) ==
        LET n == [k |-> "cmp", lhs |-> lhs, op |-> op, rhs |-> rhs]
        IN Ok(n, q, IF MapEachCount(lhs) > 0 THEN TArr(TBool) ELSE TBool)
      MkTrue(q) ==
        LET n == [k |-> "cmp", lhs |-> lhs, op |-> "IsTrue", rhs |-> [k |-> "none"]]
        IN Ok(n, q, IF MapEachCount(lhs) > 0 THEN TArr(TBool) ELSE T)
  IN
  IF T = TBool THEN MkTrue(p)
  ELSE IF IsCont(T) /\ T.e = TBool
       THEN IF MapEachCount(lhs) > 0 THEN Fail ELSE MkTrue(p)
  ELSE
    LET t == Tok(c, p) n0 == Tok(c, p + 1) n == AsBytes(n0) IN
    IF ~IsCmpOpTok(t.k) THEN Fail
    ELSE IF t.k = "in" /\ T.k \in {"Ip", "Bytes", "Int"}
         THEN IF n.k = "list"
              THEN IF ListNameOk(n.name) /\ ListIdx(c.sch, T) # NoIdx
                   THEN Mk("InList", MkRhs(n), p + 2) ELSE Fail
              ELSE IF n.k = "lbr"
                   THEN LET r == LexItems(c, p + 2, T, <<>>)
                        IN IF r.ok THEN Mk("OneOf", [k |-> "items", items |-> r.items], r.pos)
                           ELSE Fail
              ELSE Fail
    ELSE IF t.k = "ord" /\ T.k \in {"Ip", "Bytes", "Int"}
         THEN IF LitOk(T, n.k) THEN Mk(OrdName(t.v), MkRhs(n), p + 2) ELSE Fail
    ELSE IF t.k = "band" /\ T.k = "Int"
         THEN IF n.k = "int" THEN Mk("BitwiseAnd", MkRhs(n), p + 2) ELSE Fail
    ELSE IF t.k = "bop" /\ T.k = "Bytes"
         THEN IF t.v = "contains"
              THEN IF n.k = "bytes" THEN Mk("Contains", MkRhs(n), p + 2) ELSE Fail
              ELSE IF t.v = "matches"
              THEN IF n0.k = "regex" /\ n0.bad = "none" THEN Mk("Matches", MkRhs(n0), p + 2) ELSE Fail
              ELSE IF IsStrLit(n0) /\ WildValid(n0.v, c.star)
                   THEN Mk(BopName(t.v), [k |-> "wild", v |-> n0.v, str |-> TRUE], p + 2) ELSE Fail
    ELSE Fail

(* ---- IndexExpr::lex_with --------------------------------------------- *)
LexIdxLoop(c, p, id, T, acc) ==
  IF TokK(c, p) # "lb"
  THEN Ok([id |-> id, idx |-> acc], p, T)
  ELSE LET t == Tok(c, p + 1) IN
       IF TokK(c, p + 2) # "rb" THEN Fail
       ELSE IF t.k = "star"
            THEN IF IsCont(T) THEN LexIdxLoop(c, p + 3, id, T.e, Append(acc, [k |-> "each"]))
                 ELSE Fail
       ELSE IF t.k = "int"
            THEN IF IntIsU32(t.v) /\ T.k = "Array"
                 THEN LexIdxLoop(c, p + 3, id, T.e, Append(acc, [k |-> "ai", v |-> t.v]))
                 ELSE Fail
       ELSE IF t.k = "bytes"
            THEN IF t.form = "q" /\ IsUtf8(t.v) /\ T.k = "Map"
                 THEN LexIdxLoop(c, p + 3, id, T.e, Append(acc, [k |-> "mk", v |-> t.v]))
                 ELSE Fail
       ELSE Fail

LexIndex(c, p, d) ==
  LET t == Tok(c, p) IN
  IF t.k # "id" THEN Fail
  ELSE IF FieldIdx(c.sch, t.name) # NoIdx
       THEN LexIdxLoop(c, p + 1, [k |-> "field", name |-> t.name],
                       FieldOf(c.sch, t.name).ty, <<>>)
  ELSE IF FuncIdx(c.sch, t.name) # NoIdx
       THEN IF d >= c.max THEN Fail                       \* with_increased_nesting
            ELSE LET r == LexCall(c, p + 1, d + 1, FuncOf(c.sch, t.name))
                 IN IF r.ok THEN LexIdxLoop(c, r.pos, r.node, r.ty, <<>>) ELSE Fail
  ELSE Fail

(* ---- FunctionCallExpr::lex_with_function ------------------------------ *)
ParamOk(f, args, a, aty) ==         \* SimpleFunctionDefinition::check_param for the next argument
  LET i == Len(args) + 1
      kind == IF a.k = "alit" THEN "Literal" ELSE "Field"
      KindOk(k) == k = "Both" \/ k = kind
  IN IF f.sem = "ctxfn" THEN TRUE                        \* accepts up to three arguments of any kind and type
     ELSE IF i <= Len(f.params)
     THEN KindOk(f.params[i].kind) /\ aty = f.params[i].ty
     ELSE KindOk(f.opts[i - Len(f.params)].kind)
          /\ aty = TypeOf(f.opts[i - Len(f.params)].def)

MaxArgs(f) == IF f.sem = "ctxfn" THEN 3 ELSE Len(f.params) + Len(f.opts)

LexArgs(c, p, d, f, args, tys) ==
  IF TokK(c, p) = "rp" \/ TokK(c, p) = "eof"
  THEN IF Len(args) < (IF IsVariadic(f) THEN 2 ELSE Len(f.params)) \/ TokK(c, p) # "rp"
       THEN Fail
       ELSE LET node == [k |-> "call", name |-> f.name, args |-> args]
                ret == IF IsVariadic(f) THEN tys[1] ELSE f.ret
                ty == IF Len(args) > 0 /\ ArgMapEach(args[1]) > 0 THEN TArr(ret) ELSE ret
            IN Ok(node, p + 1, ty)
  ELSE LET q == IF Len(args) = 0 THEN p ELSE p + 1 IN
       IF Len(args) # 0 /\ TokK(c, p) # "comma" THEN Fail
       ELSE LET r == LexArg(c, q, d) IN
            IF ~r.ok THEN Fail
            ELSE IF ArgMapEach(r.node) > 0 /\ Len(args) # 0 THEN Fail
            ELSE IF ~IsVariadic(f) /\ Len(args) >= MaxArgs(f) THEN Fail
            ELSE IF IsVariadic(f)
                 THEN IF (IF Len(args) = 0 THEN r.ty.k = "Array" \/ r.ty = TBytes
                          ELSE r.ty = tys[1])
                      THEN LexArgs(c, r.pos, d, f, Append(args, r.node), Append(tys, r.ty))
                      ELSE Fail
            ELSE IF ParamOk(f, args, r.node, r.ty)
                 THEN LexArgs(c, r.pos, d, f, Append(args, r.node), Append(tys, r.ty))
                 ELSE Fail

LexCall(c, p, d, f) ==
  IF TokK(c, p) # "lp" THEN Fail ELSE LexArgs(c, p + 1, d, f, <<>>, <<>>)

(* ---- FunctionCallArgExpr::lex_with ----------------------------------- *)
LexArg(c, p, d) ==
  LET t == AsBytes(Tok(c, p)) IN
  IF t.k = "bytes" /\ t.form \in {"q", "r"}
  THEN Ok([k |-> "alit", v |-> MkRhs(t)], p + 1, TBytes)
  ELSE IF t.k = "lp" \/ t.k = "not" \/ (t.k = "quant" /\ TokK(c, p + 1) = "lp")
       THEN LET r == LexLogical(c, p, d)
            IN IF r.ok THEN Ok([k |-> "alog", e |-> r.node], r.pos, r.ty) ELSE Fail
  ELSE IF t.k = "id"
       THEN LET l == LexIndex(c, p, d) IN
            IF ~l.ok THEN Fail
            ELSE IF IsCmpOpTok(TokK(c, l.pos))
                 THEN LET r == LexCmpWithLhs(c, l.pos, d, l)
                      IN IF r.ok THEN Ok([k |-> "alog", e |-> r.node], r.pos, r.ty) ELSE Fail
                 ELSE Ok([k |-> "aidx", e |-> l.node], l.pos, l.ty)
  ELSE IF t.k = "ip" THEN Ok([k |-> "alit", v |-> MkRhs(t)], p + 1, TIp)
  ELSE IF t.k = "int" THEN Ok([k |-> "alit", v |-> MkRhs(t)], p + 1, TInt)
  ELSE Fail

(* ---- LogicalExpr ------------------------------------------------------ *)
LexSimple(c, p, d) ==
  LET t == Tok(c, p) IN
  IF t.k = "lp"
  THEN IF d >= c.max THEN Fail
       ELSE LET r == LexLogical(c, p + 1, d + 1) IN
            IF r.ok /\ TokK(c, r.pos) = "rp"
            THEN Ok([k |-> "paren", e |-> r.node], r.pos + 1, r.ty) ELSE Fail
  ELSE IF t.k = "not"
  THEN IF d >= c.max THEN Fail
       ELSE LET r == LexSimple(c, p + 1, d + 1) IN
            IF r.ok THEN Ok([k |-> "not", e |-> r.node], r.pos, r.ty) ELSE Fail
  ELSE IF t.k = "quant" /\ TokK(c, p + 1) = "lp"
  THEN IF d >= c.max THEN Fail
       ELSE LET r == LexArg(c, p + 2, d + 1) IN
            \* the argument must be a boolean-array value; an index expression that still
            \* contains [*] denotes "each element", not such a value
            IF r.ok /\ r.node.k # "alit" /\ TokK(c, r.pos) = "rp" /\ r.ty = TArr(TBool)
               /\ ~(r.node.k = "aidx" /\ MapEachCount(r.node.e) > 0)
            THEN Ok([k |-> "quant", op |-> t.v, arg |-> r.node], r.pos + 1, TBool)
            ELSE Fail
  ELSE LET l == LexIndex(c, p, d) IN
       IF l.ok THEN LexCmpWithLhs(c, l.pos, d, l) ELSE Fail

(* the inner look-ahead loop of lex_more_with_precedence:                  *)
(*   loop { lookahead = lex_combining_op(rhs.1);                           *)
(*          if lookahead.0 <= Some(op) { break }                           *)
(*          rhs = rhs.0.lex_more_with_precedence(parser, lookahead.0, lookahead)? } *)
Inner(c, d, rhs, op, dummy) ==
  LET la == LookAhead(c, rhs.pos) IN
  IF Prec(la.op) <= Prec(op) THEN [ok |-> TRUE, rhs |-> rhs, la |-> la]
  ELSE LET r == More(c, d, rhs, la.op, la, 0) IN
       IF r.ok THEN Inner(c, d, r, op, 0) ELSE Fail

(*   while let Some(op) = lookahead.0 { ... }                              *)
More(c, d, lhs, minprec, la, dummy) ==
  IF la.op = "none" THEN Ok(lhs.node, la.pos, lhs.ty)
  ELSE LET op == la.op
           s == LexSimple(c, la.pos, d) IN
       IF ~s.ok THEN Fail
       ELSE LET i == Inner(c, d, s, op, 0) IN
            IF ~i.ok THEN Fail
            ELSE LET rhs == i.rhs IN
                 IF ~((lhs.ty = TBool /\ rhs.ty = TBool)
                      \/ (lhs.ty.k = "Array" /\ rhs.ty.k = "Array"))
                 THEN Fail
                 ELSE LET node == IF lhs.node.k = "comb" /\ lhs.node.op = LopName(op)
                                  THEN [lhs.node EXCEPT !.items = Append(@, rhs.node)]
                                  ELSE [k |-> "comb", op |-> LopName(op),
                                        items |-> <<lhs.node, rhs.node>>]
                          nl == Ok(node, rhs.pos, lhs.ty)
                      IN IF Prec(i.la.op) < Prec(minprec)
                         THEN nl                             \* lookahead = (None, rhs.1)
                         ELSE More(c, d, nl, minprec, i.la, 0)

LexLogical(c, p, d) ==
  LET s == LexSimple(c, p, d) IN
  IF ~s.ok THEN Fail ELSE More(c, d, s, "none", LookAhead(c, s.pos), 0)

----------------------------------------------------------------------------
Ctx(ts, sch, max) == [ts |-> ts, sch |-> sch, max |-> max, star |-> -1]   \* star: wildcard star limit, -1 = unlimited
CtxS(ts, sch, max, star) == [ts |-> ts, sch |-> sch, max |-> max, star |-> star]

(* FilterParser::parse: whole input consumed and root type Bool *)
ParseFilter(ts, sch, max) ==
  LET c == Ctx(ts, sch, max)
      r == LexLogical(c, 1, 0)
  IN IF r.ok /\ r.pos = Len(ts) + 1 /\ r.ty = TBool THEN r ELSE Fail

ParseFilterS(ts, sch, max, star) ==
  LET c == CtxS(ts, sch, max, star)
      r == LexLogical(c, 1, 0)
  IN IF r.ok /\ r.pos = Len(ts) + 1 /\ r.ty = TBool THEN r ELSE Fail

(* FilterParser::parse_value: an index expression without [*] *)
ParseValue(ts, sch, max) ==
  LET c == Ctx(ts, sch, max)
      r == LexIndex(c, 1, 0)
  IN IF r.ok /\ r.pos = Len(ts) + 1 /\ MapEachCount(r.node) = 0 THEN r ELSE Fail
=============================================================================
