CONSTANTS
  Mode = "scan"
  Level = 0
  MaxLen = 5
SPECIFICATION Spec
INVARIANTS Emit
CHECK_DEADLOCK FALSE
