------------------------------- MODULE MC_C17 -------------------------------
(* Bounded model of `in $name` (property C17): every list name of at most MaxLen characters over  *)
(* { a 1 _ . A - e-acute } on left-hand sides of the three list-capable types, for schemes that register   *)
(* lists for different types in different orders (routing is by type, storage by index).           *)
(* Expected: parse verdict (name made of a-z 0-9 _ and inner dots; a list registered for the type) *)
(* and the matcher's answer on every context (sets / always / never).                              *)
EXTENDS WfParser, WfEval, WfJson, Json, SequencesExt
CONSTANT MaxLen
VARIABLES cas
Alpha == <<<<97>>, <<49>>, <<95>>, <<46>>, <<65>>, <<45>>, <<195, 169>>>>       \* a 1 _ . A - e-acute (UTF-8)
Names == {FlatSeq(Strict([i \in 1..Len(b) |-> Alpha[b[i]]])) : b \in UNION {[1..n -> 1..7] : n \in 1..MaxLen}}
Fields == <<[name |-> "i", ty |-> TInt, opt |-> TRUE], [name |-> "s", ty |-> TBytes, opt |-> TRUE], [name |-> "ip", ty |-> TIp, opt |-> TRUE],
            [name |-> "ai", ty |-> TArr(TInt), opt |-> TRUE]>>
Sch(ls, ks) == [fields |-> Fields, funcs |-> <<>>, lists |-> ls, listkinds |-> ks, nne |-> TRUE]
Schemes == << Sch(<<TInt>>, <<"set">>), Sch(<<TIp, TBytes>>, <<"always", "set">>), Sch(<<TBytes, TInt, TIp>>, <<"never", "set", "always">>) >>
I(n) == VInt(IntOfNat(n))
SetM(nm, vals) == [kind |-> "set", sets |-> <<[name |-> nm, vals |-> vals]>>]
A == <<97>>
Vals == <<I(1), VBytes(<<120>>), VIp(<<1, 2, 3, 4>>), VArr(TInt, <<I(2), I(1)>>)>>
Ctxs == << [sch |-> 1, vals |-> Vals, lists |-> <<SetM(A, <<I(1)>>)>>],
           [sch |-> 1, vals |-> Vals, lists |-> <<SetM(<<97, 46, 49>>, <<I(1), I(2)>>)>>],
           [sch |-> 2, vals |-> Vals, lists |-> <<[kind |-> "always", sets |-> <<>>], SetM(A, <<VBytes(<<120>>)>>)>>],
           [sch |-> 3, vals |-> Vals, lists |-> <<[kind |-> "never", sets |-> <<>>], SetM(A, <<I(2)>>), [kind |-> "always", sets |-> <<>>]>>],
           [sch |-> 3, vals |-> <<Nil, Nil, Nil, Nil>>, lists |-> <<[kind |-> "never", sets |-> <<>>], SetM(A, <<I(2)>>), [kind |-> "always", sets |-> <<>>]>>] >>
CtxsOf(s) == {n \in 1..Len(Ctxs) : Ctxs[n].sch = s}
Lhs == << <<[k |-> "id", name |-> "i"]>>, <<[k |-> "id", name |-> "s"]>>, <<[k |-> "id", name |-> "ip"]>>,
          <<[k |-> "id", name |-> "ai"], [k |-> "lb"], [k |-> "int", v |-> IntOfNat(0), txt |-> "0"], [k |-> "rb"]>> >>
Init == cas \in {<<nm, s, l>> : nm \in Names, s \in 1..3, l \in 1..Len(Lhs)}
Next == FALSE /\ UNCHANGED cas
Spec == Init /\ [][Next]_cas
Toks == Lhs[cas[3]] \o <<[k |-> "in"], [k |-> "list", name |-> cas[1]]>>
(* L1: the verdict stated directly *)
NameOk(nm) == /\ \A j \in 1..Len(nm) : nm[j] \in {97, 49, 95, 46}
              /\ nm[1] # 46 /\ nm[Len(nm)] # 46
LhsType == IF cas[3] = 1 THEN TInt ELSE IF cas[3] = 2 THEN TBytes ELSE IF cas[3] = 3 THEN TIp ELSE TInt
VerdictRule == ParseFilter(Toks, Schemes[cas[2]], 128).ok = (NameOk(cas[1]) /\ ListIdx(Schemes[cas[2]], LhsType) # NoIdx)
Vector == LET sch == Schemes[cas[2]] r == ParseFilter(Toks, sch, 128)
              cs == SetToSortSeq(CtxsOf(cas[2]), LAMBDA x, y : x < y) IN
  IF r.ok THEN [ev |-> "filter", sch |-> cas[2], max |-> 128, ts |-> Toks, ok |-> TRUE, ast |-> AstJson(r.node),
                runs |-> Strict([n \in 1..Len(cs) |-> [ctx |-> cs[n], out |-> "ok", res |-> EvalFilter(r.node, Ctxs[cs[n]], sch)]]), uses |-> <<>>]
  ELSE [ev |-> "filter", sch |-> cas[2], max |-> 128, ts |-> Toks, ok |-> FALSE]
Emit == PrintT(<<"REPLAY", ToJson(Vector)>>)
ASSUME /\ \A n \in 1..3 : PrintT(<<"REPLAY", ToJson([hdr |-> "scheme", sch |-> Schemes[n]])>>)
       /\ \A n \in 1..Len(Ctxs) : PrintT(<<"REPLAY", ToJson([hdr |-> "ctx", ctx |-> Ctxs[n]])>>)
=============================================================================
