CONSTANTS
  MaxItems = 2
  Top = 6
SPECIFICATION Spec
INVARIANTS RangeSetCorrect EvalIsMember Emit
CHECK_DEADLOCK FALSE
