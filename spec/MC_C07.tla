------------------------------- MODULE MC_C07 -------------------------------
(* Alias exhaustiveness for property C07: for a set of base programs that together contain every *)
(* aliasable operator (not/!, and/&&, or/||, xor/^^, eq/==, ne/!=, ge/>=, le/<=, gt/>, lt/<,      *)
(* matches/~, bitwise_and/&), every assignment of spellings to the operator occurrences is       *)
(* emitted; the expected AST JSON does not depend on the assignment (AstJson ignores spelling),  *)
(* and structurally different base programs have different expected JSON (checked in-model).     *)
(* Every assignment is laid out with each of six white-space conventions (one space, line feed, *)
(* CR LF, bare CR, mixed, and no space where none is needed).  Association: the three ways of    *)
(* grouping a three-operand chain are distinct programs with distinct JSON.                      *)
EXTENDS WfParser, WfEval, WfJson, Json, SequencesExt
VARIABLES cas
Sch == [fields |-> <<[name |-> "i", ty |-> TInt, opt |-> TRUE], [name |-> "s", ty |-> TBytes, opt |-> TRUE],
                     [name |-> "b1", ty |-> TBool, opt |-> TRUE], [name |-> "b2", ty |-> TBool, opt |-> TRUE],
                     [name |-> "vb", ty |-> TArr(TBool), opt |-> TRUE]>>,
        funcs |-> <<>>, lists |-> <<>>, nne |-> TRUE]
Ctxs == << [sch |-> 1, vals |-> <<VInt(IntOfNat(1)), VBytes(<<97>>), VBool(TRUE), VBool(FALSE), VArr(TBool, <<VBool(TRUE), VBool(FALSE)>>)>>, lists |-> <<>>],
           [sch |-> 1, vals |-> <<Nil, Nil, Nil, Nil, Nil>>, lists |-> <<>>] >>
Id(n) == [k |-> "id", name |-> n]
O(v) == [k |-> "ord", v |-> v, a |-> 0]
L(v) == [k |-> "lop", v |-> v, a |-> 0]
N == [k |-> "not", a |-> 0]
I1 == [k |-> "int", v |-> IntOfNat(1), txt |-> "1"]
Sa == [k |-> "bytes", v |-> <<97>>, form |-> "q", txt |-> "\"a\""]
Re == [k |-> "regex", pat |-> <<97>>, form |-> "r", bad |-> "none", re |-> [k |-> "lit", c |-> 97], body |-> <<>>, txt |-> "r\"a\""]
Base == << <<N, Id("b1"), L("and"), Id("b2"), L("or"), N, Id("b1"), L("xor"), Id("b2")>>,
           <<Id("i"), O("eq"), I1, L("and"), Id("i"), O("ne"), I1, L("and"), Id("i"), O("ge"), I1>>,
           <<Id("i"), O("le"), I1, L("or"), Id("i"), O("gt"), I1, L("or"), Id("i"), O("lt"), I1>>,
           <<Id("i"), [k |-> "band", a |-> 0], I1, L("xor"), Id("s"), [k |-> "bop", v |-> "matches", a |-> 0], Re>>,
           <<N, N, [k |-> "lp"], Id("s"), O("eq"), Sa, L("and"), N, Id("b1"), [k |-> "rp"]>>,
           <<Id("b1"), L("and"), Id("b2"), L("and"), Id("b1"), L("or"), Id("b2"), L("xor"), Id("b1")>>,
           <<Id("b1"), L("or"), Id("b2"), L("or"), Id("b1")>>,
           <<[k |-> "lp"], Id("b1"), L("or"), Id("b2"), [k |-> "rp"], L("or"), Id("b1")>>,
           <<Id("b1"), L("or"), [k |-> "lp"], Id("b2"), L("or"), Id("b1"), [k |-> "rp"]>>,
           <<[k |-> "lp"], Id("b1"), L("and"), Id("b2"), [k |-> "rp"], L("and"), N, [k |-> "lp"], Id("b1"), [k |-> "rp"]>>,
           <<[k |-> "quant", v |-> "any"], [k |-> "lp"], N, Id("vb"), [k |-> "rp"], L("xor"),
             [k |-> "quant", v |-> "all"], [k |-> "lp"], N, [k |-> "lp"], Id("vb"), L("and"), N, Id("vb"), [k |-> "rp"], [k |-> "rp"]>> >>
HasAlias(t) == t.k \in {"not", "lop", "ord", "band"} \/ (t.k = "bop" /\ t.v = "matches")
APos(p) == SetToSortSeq({j \in 1..Len(Base[p]) : HasAlias(Base[p][j])}, LAMBDA x, y : x < y)
Seps == {"sp", "lf", "crlf", "cr", "wide", "tight"}
Init == cas \in UNION {{<<p, asg, sep>> : asg \in [1..Len(APos(p)) -> {0, 1}], sep \in Seps} : p \in 1..Len(Base)}
Next == FALSE /\ UNCHANGED cas
Spec == Init /\ [][Next]_cas
Toks == LET ps == APos(cas[1]) IN
        Strict([j \in 1..Len(Base[cas[1]]) |->
           IF \E n \in 1..Len(ps) : ps[n] = j
           THEN [Base[cas[1]][j] EXCEPT !.a = cas[2][CHOOSE n \in 1..Len(ps) : ps[n] = j]]
           ELSE Base[cas[1]][j]])
SpellingIrrelevant == LET r == ParseFilter(Toks, Sch, 128) r0 == ParseFilter(Base[cas[1]], Sch, 128) IN
                      r.ok /\ r0.ok /\ AstJson(r.node) = AstJson(r0.node)
DistinctStructureDistinctJson ==
  \A q \in 1..Len(Base) : q # cas[1] =>
     AstJson(ParseFilter(Base[q], Sch, 128).node) # AstJson(ParseFilter(Base[cas[1]], Sch, 128).node)
Vector == LET r == ParseFilter(Toks, Sch, 128) IN
  [ev |-> "filter", sch |-> 1, max |-> 128, sep |-> cas[3], ts |-> Toks, ok |-> r.ok, ast |-> AstJson(r.node),
   runs |-> Strict([n \in 1..Len(Ctxs) |-> [ctx |-> n, out |-> "ok", res |-> EvalFilter(r.node, Ctxs[n], Sch)]]), uses |-> <<>>]
Emit == PrintT(<<"REPLAY", ToJson(Vector)>>)
ASSUME /\ PrintT(<<"REPLAY", ToJson([hdr |-> "scheme", sch |-> Sch])>>)
       /\ \A n \in 1..Len(Ctxs) : PrintT(<<"REPLAY", ToJson([hdr |-> "ctx", ctx |-> Ctxs[n]])>>)
=============================================================================
