------------------------------- MODULE WfJson -------------------------------
(***************************************************************************)
(* The canonical JSON document of an AST (property C07), in the tagged     *)
(* all-record form shared with the harness:                                *)
(*   structural string  [c |-> "And"]        data string   [s |-> bytes]   *)
(*   number             [n |-> limbs]        byte array    [b |-> bytes]   *)
(*   array              [a |-> Seq(node)]    object        the record      *)
(*   IP address         [ip |-> octets]      CIDR   [cidr |-> octets, len] *)
(* Every node is a record, so TLC never compares values of different kinds *)
(* when a recorded document differs from the expected one.                 *)
(***************************************************************************)
EXTENDS WfSyntax

JC(s) == [c |-> s]
JA(s) == [a |-> s]
JBytes(v, str) == IF str /\ IsUtf8(v) THEN [s |-> v] ELSE [b |-> v]
JCidr(v, len) == IF len = 8 * Len(v) THEN [ip |-> v] ELSE [cidr |-> v, len |-> len]

JItem(it) ==
  IF it.k = "int" THEN [start |-> [n |-> it.v], end |-> [n |-> it.v]]
  ELSE IF it.k = "irange" THEN [start |-> [n |-> it.lo], end |-> [n |-> it.hi]]
  ELSE IF it.k = "bytes" THEN JBytes(it.v, it.str)
  ELSE IF it.k = "ip" THEN [ip |-> it.v]
  ELSE IF it.k = "cidr" THEN JCidr(it.v, it.len)
  ELSE [start |-> [ip |-> it.lo], end |-> [ip |-> it.hi]]

JRhs(r) ==
  IF r.k = "int" THEN [n |-> r.v]
  ELSE IF r.k = "bytes" THEN JBytes(r.v, r.str)
  ELSE IF r.k = "wild" THEN JBytes(r.v, TRUE)
  ELSE IF r.k = "ip" THEN [ip |-> r.v]
  ELSE IF r.k = "regex" THEN [s |-> r.pat]
  ELSE IF r.k = "list" THEN [s |-> r.name]
  ELSE JA(Strict([i \in 1..Len(r.items) |-> JItem(r.items[i])]))       \* "items"

RECURSIVE JLogical(_), JIndex(_), JArg(_)

JIdx(ix) == IF ix.k = "ai" THEN [kind |-> JC("ArrayIndex"), value |-> [n |-> ix.v]]
            ELSE IF ix.k = "mk" THEN [kind |-> JC("MapKey"), value |-> [s |-> ix.v]]
            ELSE [kind |-> JC("MapEach")]

JIdent(id) == IF id.k = "field" THEN JC(id.name)
              ELSE [name |-> JC(id.name),
                    args |-> JA(Strict([i \in 1..Len(id.args) |-> JArg(id.args[i])]))]

JIndex(ie) == IF ie.idx = <<>> THEN JIdent(ie.id)
              ELSE JA(<<JIdent(ie.id)>> \o Strict([i \in 1..Len(ie.idx) |-> JIdx(ie.idx[i])]))

JArg(a) == IF a.k = "aidx" THEN [kind |-> JC("IndexExpr"), value |-> JIndex(a.e)]
           ELSE IF a.k = "alit" THEN [kind |-> JC("Literal"), value |-> JRhs(a.v)]
           ELSE [kind |-> JC("SimpleExpr"), value |-> JLogical(a.e)]

JLogical(n) ==
  IF n.k = "comb" THEN [op |-> JC(n.op),
                        items |-> JA(Strict([i \in 1..Len(n.items) |-> JLogical(n.items[i])]))]
  ELSE IF n.k = "cmp"
       THEN IF n.op = "IsTrue" THEN [lhs |-> JIndex(n.lhs), op |-> JC("IsTrue")]
            ELSE [lhs |-> JIndex(n.lhs), op |-> JC(n.op), rhs |-> JRhs(n.rhs)]
  ELSE IF n.k = "paren" THEN JLogical(n.e)
  ELSE IF n.k = "not" THEN [op |-> JC("Not"), arg |-> JLogical(n.e)]
  ELSE [op |-> JC(IF n.op = "any" THEN "Any" ELSE "All"), arg |-> JArg(n.arg)]

AstJson(node) == JLogical(node)
ValueAstJson(ie) == JIndex(ie)
=============================================================================
