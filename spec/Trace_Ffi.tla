------------------------------ MODULE Trace_Ffi -----------------------------
(* Trace specification for recorded C API sessions (C20).  Events of all threads are listed;  *)
(* per thread they are in call order.  State: the last-error text of every thread.  A call is  *)
(* accepted iff                                                                                *)
(*   - the last-error string the thread saw before the call is the one this specification      *)
(*     holds for that thread (no other thread changed it),                                     *)
(*   - its status equals the Rust API's outcome on the twin objects and its output is the same *)
(*     (parse verdict, AST JSON, hash, match result, uses answers, context JSON),              *)
(*   - success leaves the last error unchanged; Error / Panic (or false) sets it to a          *)
(*     non-empty text without interior NUL that equals the Rust error text with NUL -> 0x1A    *)
(*     where the Rust API provides one; clear resets it.                                       *)
EXTENDS Naturals, Sequences, FiniteSets, TLC, Json, IOUtils
Rec == ndJsonDeserialize(IOEnv.TRACE)
VARIABLES l, nbad, le
vars == <<l, nbad, le>>
Chk(cond, msg) == IF cond THEN TRUE
                  ELSE (PrintT(<<"REJECT", l, Rec[l].id>>) /\ PrintT(<<"DETAIL", l, msg>>) /\ FALSE)
NullLe == [null |-> TRUE, b |-> <<>>]
Cur(t) == IF t \in DOMAIN le THEN le[t] ELSE NullLe
NoNul(b) == \A i \in 1..Len(b) : b[i] # 0
Check(e) ==
  /\ Chk(e.le_before = Cur(e.th), <<"last error before the call is not this thread's", e.fn, "thread", e.th>>)
  /\ Chk(e.status = e.rust_status, <<"status", e.status, "but the Rust API outcome is", e.rust_status, "fn", e.fn>>)
  /\ Chk(e.same, <<"output differs from the Rust API", e.fn>>)
  /\ IF e.fn = "clear" THEN Chk(e.le_after.null, "clear_last_error left a message")
     ELSE IF e.status = "ok" THEN Chk(e.le_after = e.le_before, <<"a successful call changed the last error", e.fn>>)
     ELSE /\ Chk(~e.le_after.null /\ Len(e.le_after.b) > 0, <<"failure reported without a last-error message", e.fn>>)
          /\ Chk(NoNul(e.le_after.b), "interior NUL in the last-error string")
          /\ (~e.le_after.null) => Chk(e.le_after # e.le_before \/ e.status # "err" \/ e.rust_err.have = FALSE
                                        \/ e.le_after.b = e.rust_err.b,
                                        <<"stale last-error message after a failing call", e.fn>>)
          /\ (e.rust_err.have /\ ~e.le_after.null) =>
                Chk(e.le_after.b = e.rust_err.b, <<"last-error text differs from the Rust error text", e.fn>>)
Init == l = 1 /\ nbad = 0 /\ le = <<>>
Next == /\ l <= Len(Rec)
        /\ nbad' = IF Check(Rec[l]) THEN nbad ELSE nbad + 1
        /\ le' = [t \in (DOMAIN le) \cup {Rec[l].th} |-> IF t = Rec[l].th THEN Rec[l].le_after ELSE le[t]]
        /\ l' = l + 1
Spec == Init /\ [][Next]_vars
Accepted == IF TLCGet("stats").diameter = Len(Rec) + 1 THEN PrintT(<<"TRACE-CONSUMED", Len(Rec)>>)
            ELSE (PrintT(<<"TRACE-STUCK-AT", TLCGet("stats").diameter, "of", Len(Rec)>>) /\ FALSE)
=============================================================================
