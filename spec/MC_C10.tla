------------------------------- MODULE MC_C10 -------------------------------
(* Bounded model of `contains` (property C10).  L1: Occurs(p, h) (WfBase).                     *)
(*  Mode "small": every haystack of <= MaxH and pattern of <= MaxP bytes over {a, b}.          *)
(*  Mode "struct": h = pad^a . variant(p) . pad^b for pattern lengths across the 1 / 2..16 /   *)
(*  > 16 specialisations, offsets a, b around 16/32/64-byte block edges and near-miss variants *)
(*  (first / last / middle byte changed, truncated, doubled, exact).                           *)
(* Each case is emitted with the expected answer; the harness runs it on every SIMD anchor     *)
(* position (hook), with the production random anchor, and with the scalar fallback.           *)
EXTENDS WfBase, Json
CONSTANTS Mode, MaxH, MaxP, Pads, PLens
VARIABLES cas
Base == <<97, 98, 99, 97, 98, 100, 97, 97, 98, 99, 101, 97, 98, 97, 98, 99, 100, 100, 97, 98,
          99, 97, 98, 102, 97, 99, 98, 97, 98, 99, 97, 103, 98, 99, 97, 98, 100, 97, 98, 99>>
Pat(n) == SubSeq(Base, 1, n)
Pad(n) == [i \in 1..n |-> IF i % 3 = 0 THEN 97 ELSE 122]          \* mostly z, some a (false candidates)
Variant(p, k) ==
  IF p = <<>> THEN <<>>
  ELSE IF k = 1 THEN p
  ELSE IF k = 2 THEN [p EXCEPT ![1] = 120]
  ELSE IF k = 3 THEN [p EXCEPT ![Len(p)] = 120]
  ELSE IF k = 4 THEN [p EXCEPT ![(Len(p) + 1) \div 2] = 120]
  ELSE IF k = 5 THEN SubSeq(p, 1, Len(p) - 1)
  ELSE p \o p
AB == IF Mode = "small0" THEN {0, 97} ELSE {97, 98}       \* "small0": patterns and haystacks with NUL bytes
SmallCases == {<<h, p>> : h \in UNION {[1..n -> AB] : n \in 0..MaxH}, p \in UNION {[1..n -> AB] : n \in 0..MaxP}}
StructCases == {<<Strict(Pad(a) \o Variant(Pat(n), k) \o Pad(b)), Pat(n)>> : a \in Pads, b \in Pads, n \in PLens, k \in 1..6}
Init == cas \in (IF Mode \in {"small", "small0"} THEN SmallCases ELSE StructCases)
Next == FALSE /\ UNCHANGED cas
Spec == Init /\ [][Next]_cas
(* "the same every time the filter is compiled": other `contains` filters compiled before and still alive - here patterns *)
(* of the same length that differ from p in one bit of the last, the first or a middle byte - change nothing, and each of *)
(* them keeps answering for its own pattern                                                                            *)
Flip(b, w) == IF (b \div w) % 2 = 0 THEN b + w ELSE b - w
Siblings(p) == IF p = <<>> \/ Mode # "struct" THEN <<>>
               ELSE <<[p EXCEPT ![Len(p)] = Flip(@, 16)], [p EXCEPT ![Len(p)] = Flip(@, 1)], [p EXCEPT ![1] = Flip(@, 16)],
                      [p EXCEPT ![Len(p)] = Flip(@, 32)], [p EXCEPT ![(Len(p) + 1) \div 2] = Flip(@, 4)]>>
Emit == PrintT(<<"REPLAY", ToJson([ev |-> "contains", hay |-> cas[1], needle |-> cas[2], exp |-> Occurs(cas[2], cas[1]),
                                   prior |-> Strict([i \in 1..Len(Siblings(cas[2])) |-> [needle |-> Siblings(cas[2])[i], exp |-> Occurs(Siblings(cas[2])[i], cas[1])]])])>>)
(* sanity: the empty pattern always occurs; a pattern longer than the haystack never does *)
Sanity == /\ (cas[2] = <<>> => Occurs(cas[2], cas[1]))
          /\ (Len(cas[2]) > Len(cas[1]) => ~Occurs(cas[2], cas[1]))
=============================================================================
