CONSTANTS
  Part = "pairs"
SPECIFICATION Spec
INVARIANTS RoundTrip DocTheorem Emit
CHECK_DEADLOCK FALSE
