------------------------------ MODULE WfTypes -------------------------------
(***************************************************************************)
(* The three encodings of a type (property C15):                           *)
(*   recursive form   T ::= prim | Array(T) | Map(T)        (WfBase)       *)
(*   packed form      [prim, len, bits]: bits = layer flags (Array = 0,    *)
(*                    Map = 1) as a sequence whose LAST element is the     *)
(*                    least significant bit = the OUTERMOST layer; the     *)
(*                    engine and the C API store them in a u32, so at most *)
(*                    32 layers are representable                          *)
(*   JSON form        "Int" | {"Array": J} | {"Map": J}                    *)
(* and the JSON form of a scheme: an object, in field order, of            *)
(* name -> {"type": J, "optional": b}; duplicate names are an error.       *)
(***************************************************************************)
EXTENDS WfBase

MaxLayers == 32

RECURSIVE Pack(_), Unpack(_), TypeJson(_)
Pack(T) == IF IsPrim(T) THEN [prim |-> T.k, len |-> 0, bits |-> <<>>]
           ELSE LET p == Pack(T.e) IN
                [prim |-> p.prim, len |-> p.len + 1, bits |-> Append(p.bits, IF T.k = "Array" THEN 0 ELSE 1)]
Unpack(p) == IF p.len = 0 THEN [k |-> p.prim]
             ELSE LET inner == Unpack([prim |-> p.prim, len |-> p.len - 1, bits |-> SubSeq(p.bits, 1, p.len - 1)])
                  IN IF p.bits[p.len] = 0 THEN TArr(inner) ELSE TMap(inner)
Representable(T) == TypeDepth(T) <= MaxLayers

(* JSON documents in tagged form: a primitive is [c |-> name]; a container is a one-field record *)
TypeJson(T) == IF IsPrim(T) THEN [c |-> T.k]
               ELSE IF T.k = "Array" THEN [Array |-> TypeJson(T.e)] ELSE [Map |-> TypeJson(T.e)]

(* linear rendering of the (single-path) JSON document: keys outermost first, then the primitive *)
RECURSIVE TypeJsonPath(_)
TypeJsonPath(T) == IF IsPrim(T) THEN <<T.k>> ELSE <<T.k>> \o TypeJsonPath(T.e)
(* layer string, outermost first: 0 = Array, 1 = Map *)
RECURSIVE Layers(_), PrimOf(_)
Layers(T) == IF IsPrim(T) THEN <<>> ELSE <<IF T.k = "Array" THEN 0 ELSE 1>> \o Layers(T.e)
PrimOf(T) == IF IsPrim(T) THEN T.k ELSE PrimOf(T.e)

(* outcome of feeding TypeJson(T) to the deserializer *)
DecType(T) == IF TypeDepth(T) <= MaxLayers THEN [out |-> "ok"]
              ELSE IF TypeDepth(T) = MaxLayers + 1 THEN [out |-> "any"]   \* a value of the recursive form; see DESIGN
              ELSE [out |-> "err"]

(* scheme JSON: sequence of entries in field order *)
SchemeJson(fields) == Strict([i \in 1..Len(fields) |->
                         [name |-> fields[i].name, type |-> TypeJson(fields[i].ty), optional |-> fields[i].opt]])
NoDupNames(fields) == \A i, j \in 1..Len(fields) : fields[i].name = fields[j].name => i = j
=============================================================================
