CONSTANTS
  MaxDepth = 0
  Deep = TRUE
SPECIFICATION Spec
INVARIANTS RoundTrip JsonPathOk Emit
CHECK_DEADLOCK FALSE
