CONSTANTS
  MaxAtoms = 4
  Set = "intitems"
SPECIFICATION Spec
INVARIANTS Emit
CHECK_DEADLOCK FALSE
