CONSTANTS
  MaxLen = 4
SPECIFICATION Spec
INVARIANTS VerdictRule Emit
CHECK_DEADLOCK FALSE
