CONSTANTS
  Part = 28
SPECIFICATION Spec
INVARIANTS ArityRule MapEachOnlyFirst Emit
CHECK_DEADLOCK FALSE
