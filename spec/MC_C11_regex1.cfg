CONSTANTS
  Mode = "regex"
  Level = 1
  MaxLen = 0
SPECIFICATION Spec
INVARIANTS ScannerInvertsQuoting WildMonotone Emit
CHECK_DEADLOCK FALSE
