CONSTANTS
  MaxDepth = 8
  Deep = FALSE
SPECIFICATION Spec
INVARIANTS RoundTrip JsonPathOk Emit
CHECK_DEADLOCK FALSE
