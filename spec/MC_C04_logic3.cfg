CONSTANTS
  Mode = "logic3"
SPECIFICATION Spec
INVARIANTS TableIsParser ChainIsBoolean Emit
CHECK_DEADLOCK FALSE
