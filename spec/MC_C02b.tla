------------------------------ MODULE MC_C02b -------------------------------
(***************************************************************************)
(* Element-wise logic on boolean arrays and the quantifiers (property C02) *)
(* enumerated: three Array(Bool) fields, every assignment of arrays of     *)
(* length 0..2 over {TRUE, FALSE} or "absent" to them (8^3 contexts), and  *)
(* every filter  Q( [not] x o1 y [o2 z] )  with Q in {any, all}, operators *)
(* and / or / xor, operands the three fields.                              *)
(* L1 stated here independently of WfEval: the result array has the length *)
(* of the shortest operand and element i combines the i-th elements (an    *)
(* absent operand is an empty array); any = some element true, all = every *)
(* element true; Q(x) applied directly to an absent x is false.  In-model theorem: EvalFilter agrees with that.           *)
(***************************************************************************)
EXTENDS WfParser, WfEval, WfJson, Json
VARIABLES cas
AB == TArr(TBool)
Sch == [fields |-> <<[name |-> "x", ty |-> AB, opt |-> TRUE], [name |-> "y", ty |-> AB, opt |-> TRUE],
                     [name |-> "z", ty |-> AB, opt |-> TRUE]>>, funcs |-> <<>>, lists |-> <<>>, nne |-> TRUE]
BoolSeqs == {<<>>} \cup {<<a>> : a \in BOOLEAN} \cup {<<a, b>> : a \in BOOLEAN, b \in BOOLEAN}
ValOf(s) == VArr(TBool, [i \in 1..Len(s) |-> VBool(s[i])])
ArrVals == <<Nil, ValOf(<<>>), ValOf(<<TRUE>>), ValOf(<<FALSE>>), ValOf(<<TRUE, TRUE>>), ValOf(<<TRUE, FALSE>>),
             ValOf(<<FALSE, TRUE>>), ValOf(<<FALSE, FALSE>>)>>
NV == Len(ArrVals)
CtxOf(a, b, c) == [sch |-> 1, vals |-> <<ArrVals[a], ArrVals[b], ArrVals[c]>>, lists |-> <<>>]
Ctxs == [n \in 1..(NV * NV * NV) |-> CtxOf(((n - 1) \div (NV * NV)) + 1, (((n - 1) \div NV) % NV) + 1, ((n - 1) % NV) + 1)]
Ops == {"and", "or", "xor"}
Cases == {<<q, neg, o1, o2>> : q \in {"any", "all"}, neg \in BOOLEAN, o1 \in Ops, o2 \in Ops \cup {"none"}}
         \cup {<<q, neg, "bare", "none">> : q \in {"any", "all"}, neg \in BOOLEAN}     \* Q(x), Q(not x)
Init == cas \in Cases
Next == FALSE /\ UNCHANGED cas
Spec == Init /\ [][Next]_cas
Id(n) == [k |-> "id", name |-> n]
Lop(o, a) == [k |-> "lop", v |-> o, a |-> a]
Body == (IF cas[2] THEN <<[k |-> "not", a |-> 1]>> ELSE <<>>)
        \o (IF cas[3] = "bare" THEN <<Id("x")>> ELSE <<Id("x"), Lop(cas[3], 0), Id("y")>>)
        \o (IF cas[4] = "none" THEN <<>> ELSE <<Lop(cas[4], 1), Id("z")>>)
Toks == IF cas[3] = "bare" THEN <<[k |-> "quant", v |-> cas[1]], [k |-> "lp"]>> \o Body \o <<[k |-> "rp"]>>
        ELSE <<[k |-> "quant", v |-> cas[1]], [k |-> "lp"], [k |-> "lp"]>> \o Body \o <<[k |-> "rp"], [k |-> "rp"]>>
(* ---- L1, written out for this shape ---- *)
Seq0(v) == IF IsNil(v) THEN <<>> ELSE [i \in 1..Len(v.v) |-> v.v[i].v]
Min(a, b) == IF a < b THEN a ELSE b
Comb(o, s, t) == [i \in 1..Min(Len(s), Len(t)) |->
                    IF o = "and" THEN s[i] /\ t[i] ELSE IF o = "or" THEN s[i] \/ t[i] ELSE s[i] # t[i]]
Bind(o) == IF o = "and" THEN 3 ELSE IF o = "xor" THEN 2 ELSE 1
NotS(s) == [i \in 1..Len(s) |-> ~s[i]]
L1Array(c) ==
  LET x == IF cas[2] THEN NotS(Seq0(c.vals[1])) ELSE Seq0(c.vals[1])
      y == Seq0(c.vals[2])
      z == Seq0(c.vals[3])
  IN IF cas[3] = "bare" THEN x
     ELSE IF cas[4] = "none" THEN Comb(cas[3], x, y)
     ELSE IF Bind(cas[4]) > Bind(cas[3]) THEN Comb(cas[3], x, Comb(cas[4], y, z))     \* the later operator binds tighter
     ELSE Comb(cas[4], Comb(cas[3], x, y), z)
L1Verdict(c) == LET a == L1Array(c) IN
                IF cas[3] = "bare" /\ ~cas[2] /\ IsNil(c.vals[1]) THEN FALSE   \* a quantifier applied directly to an absent value
                ELSE IF cas[1] = "any" THEN \E i \in 1..Len(a) : a[i] ELSE \A i \in 1..Len(a) : a[i]
R == ParseFilter(Toks, Sch, 128)
EvalIsL1 == R.ok /\ \A n \in 1..Len(Ctxs) : EvalFilter(R.node, Ctxs[n], Sch) = L1Verdict(Ctxs[n])
Vector == [ev |-> "filter", sch |-> 1, max |-> 128, ts |-> Toks, ok |-> R.ok, ast |-> AstJson(R.node),
           runs |-> Strict([n \in 1..Len(Ctxs) |-> [ctx |-> n, out |-> "ok", res |-> EvalFilter(R.node, Ctxs[n], Sch)]]), uses |-> <<>>]
Emit == PrintT(<<"REPLAY", ToJson(Vector)>>)
ASSUME /\ PrintT(<<"REPLAY", ToJson([hdr |-> "scheme", sch |-> Sch])>>)
       /\ \A n \in 1..Len(Ctxs) : PrintT(<<"REPLAY", ToJson([hdr |-> "ctx", ctx |-> Ctxs[n]])>>)
=============================================================================
