------------------------------- MODULE MC_C11 -------------------------------
(* Bounded model of the pattern operators (property C11).                                      *)
(*  Mode "regex": every regex AST of the subset up to nesting Level over the byte alphabet     *)
(*    {a, b, ", ], [, \, LF}; in-model: the quoted-source scanner (L2) inverts the documented        *)
(*    quoting (L1): ScanQuoted(QuotedSource(p)) = p; one vector per AST and literal form with  *)
(*    the expected result of `s matches <re>` on every value of the pool.                      *)
(*  Mode "wild": every wildcard pattern of <= MaxLen bytes over {a, A, *, ?, \} x strict /     *)
(*    case-insensitive x star limit; expected validity and whole-value match on the pool.      *)
EXTENDS WfParser, WfEval, WfJson, Json, SequencesExt
CONSTANTS Mode, Level, MaxLen
VARIABLES cas

Sch == [fields |-> <<[name |-> "s", ty |-> TBytes, opt |-> TRUE]>>, funcs |-> <<>>, lists |-> <<>>, nne |-> TRUE]
(* value pool: all strings of length <= 3 over {a, b} plus special ones *)
AB == {97, 98}
PoolSet == UNION {[1..n -> AB] : n \in 0..3}
           \cup {<<65>>, <<10>>, <<97, 10, 98>>, <<34>>, <<93>>, <<255>>, <<97, 255>>, <<65, 66>>, <<42>>, <<97, 42>>, <<92>>, <<63>>}
Pool == SetToSortSeq(PoolSet, LAMBDA x, y : LexCmp(x, y) < 0)
Ctxs == Strict([i \in 1..Len(Pool) |-> [sch |-> 1, vals |-> <<VBytes(Pool[i])>>, lists |-> <<>>]]) \o <<[sch |-> 1, vals |-> <<Nil>>, lists |-> <<>>]>>

Lit(c) == [k |-> "lit", c |-> c]
Cls(neg, rs) == [k |-> "cls", neg |-> neg, rs |-> rs]
Atoms == {Lit(97), Lit(98), Lit(34), Lit(93), Lit(91), Lit(92), [k |-> "any"],
          Cls(FALSE, <<[lo |-> 93, hi |-> 93], [lo |-> 34, hi |-> 34]>>),      \* [\]"] : a quote after an escaped bracket
          Cls(FALSE, <<[lo |-> 97, hi |-> 97]>>), Cls(TRUE, <<[lo |-> 97, hi |-> 97]>>),
          Cls(FALSE, <<[lo |-> 34, hi |-> 34], [lo |-> 93, hi |-> 93]>>), Cls(FALSE, <<[lo |-> 97, hi |-> 98]>>)}
Wrap(x) == IF x.k = "alt" THEN [k |-> "grp", a |-> x] ELSE x
Atomic(x) == IF IsAtom(x) THEN x ELSE [k |-> "grp", a |-> x]
Next1(S) == S \cup {[k |-> q, a |-> Atomic(x)] : q \in {"star", "plus", "opt"}, x \in S}
              \cup {[k |-> "cat", a |-> Wrap(x), b |-> Wrap(y)] : x \in S, y \in S}
              \cup {[k |-> "alt", a |-> x, b |-> y] : x \in S, y \in S}
              \cup {[k |-> "cat", a |-> [k |-> "bol"], b |-> Wrap(x)] : x \in S}
              \cup {[k |-> "cat", a |-> Wrap(x), b |-> [k |-> "eol"]] : x \in S}
SmallAtoms == {Lit(97), Lit(98), [k |-> "any"], Cls(TRUE, <<[lo |-> 97, hi |-> 97]>>)}
Regexes == IF Level = 1 THEN Next1(Atoms) \cup {[k |-> "empty"]} ELSE Next1(Next1(SmallAtoms))

WAlpha == <<97, 65, 42, 63, 92>>
WPatterns == {Strict([i \in 1..Len(b) |-> WAlpha[b[i]]]) : b \in UNION {[1..n -> 1..5] : n \in 0..MaxLen}}

Id(n) == [k |-> "id", name |-> n]
RegexTok(re, form) == LET p == RenderPat(re) IN
  [k |-> "regex", pat |-> p, form |-> form, bad |-> "none", re |-> re,
   body |-> IF form = "q" THEN QuotedSource(p) ELSE <<>>, txt |-> ""]
(* Mode "scan": every quoted literal body of <= MaxLen characters over {\ " [ ] a} followed by a closing quote. *)
(* The scanner (L2, ScanQuoted) determines where the literal ends and which pattern reaches the regex engine;   *)
(* whether that pattern is a valid regular expression is the engine's business, so the expectation is           *)
(* differential: the quoted literal behaves exactly like the raw literal of the scanned pattern.                *)
SAlpha == <<92, 34, 91, 93, 97>>
Bodies == {Strict([i \in 1..Len(b) |-> SAlpha[b[i]]]) \o <<34>> : b \in UNION {[1..n -> 1..5] : n \in 0..MaxLen}}
Cases == IF Mode = "scan" THEN {<<"scan", b>> : b \in Bodies}
         ELSE IF Mode = "regex" THEN {<<"re", re, f>> : re \in Regexes, f \in {"q", "r"}}
         ELSE {<<"w", p, st, lim, "top">> : p \in WPatterns, st \in BOOLEAN, lim \in {-1, 0, 1, 2}}
              \* the limits are settings of the parser: they hold at every nesting level
              \cup {<<"w", p, FALSE, lim, wr>> : p \in WPatterns, lim \in {0, 1}, wr \in {"paren", "not"}}
Init == cas \in Cases
Next == FALSE /\ UNCHANGED cas
Spec == Init /\ [][Next]_cas

WToks == <<Id("s"), [k |-> "bop", v |-> (IF cas[3] THEN "strict wildcard" ELSE "wildcard"), a |-> 0],
           [k |-> "wild", v |-> cas[2], form |-> "q", txt |-> ""]>>
Toks == IF cas[1] = "re"
        THEN <<Id("s"), [k |-> "bop", v |-> "matches", a |-> 0], RegexTok(cas[2], cas[3])>>
        ELSE IF cas[5] = "paren" THEN <<[k |-> "lp"]>> \o WToks \o <<[k |-> "rp"]>>
        ELSE IF cas[5] = "not" THEN <<[k |-> "not", a |-> 1], [k |-> "lp"], [k |-> "not", a |-> 0]>> \o WToks \o <<[k |-> "rp"]>>
        ELSE WToks
Star == IF cas[1] \in {"re", "scan"} THEN -1 ELSE cas[4]
Vector ==
  LET r == ParseFilterS(Toks, Sch, 128, Star) IN
  IF r.ok
  THEN [ev |-> "filter", sch |-> 1, max |-> 128, star |-> Star, ts |-> Toks, ok |-> TRUE, ast |-> AstJson(r.node),
        runs |-> Strict([n \in 1..Len(Ctxs) |-> [ctx |-> n, out |-> "ok", res |-> EvalFilter(r.node, Ctxs[n], Sch)]]),
        uses |-> <<>>]
  ELSE [ev |-> "filter", sch |-> 1, max |-> 128, star |-> Star, ts |-> Toks, ok |-> FALSE]
ScanVector == LET r == ScanQuoted(cas[2]) IN
  [ev |-> "scan", sch |-> 1, body |-> cas[2],
   exp |-> IF r.ok /\ r.n = Len(cas[2]) THEN "as-raw" ELSE "reject",
   pat |-> IF r.ok THEN r.pat ELSE <<>>]
Emit == PrintT(<<"REPLAY", ToJson(IF cas[1] = "scan" THEN ScanVector ELSE Vector)>>)

(* in-model theorems *)
ScannerInvertsQuoting ==
  cas[1] = "re" => LET p == RenderPat(cas[2]) r == ScanQuoted(QuotedSource(p)) IN
                   ReWF(cas[2]) /\ r.ok /\ r.pat = p /\ r.n = Len(QuotedSource(p))
(* a strict match is also a case-insensitive match; an unlimited pattern valid under a limit stays valid *)
WildMonotone ==
  cas[1] = "w" => /\ (WildValid(cas[2], cas[4]) => WildValid(cas[2], -1))
                  /\ WildValid(cas[2], -1) =>
                       \A i \in 1..Len(Pool) : WildMatch(cas[2], Pool[i], TRUE) => WildMatch(cas[2], Pool[i], FALSE)

ASSUME /\ PrintT(<<"REPLAY", ToJson([hdr |-> "scheme", sch |-> Sch])>>)
       /\ \A n \in 1..Len(Ctxs) : PrintT(<<"REPLAY", ToJson([hdr |-> "ctx", ctx |-> Ctxs[n]])>>)
=============================================================================
