------------------------------- MODULE MC_C20 -------------------------------
EXTENDS WfFfi, Json
(* failure texts are garbage tokens appended to a filter; the engine echoes the offending line in its   *)
(* error message, so a NUL byte in the text reaches the last-error string and must be substituted       *)
TextsDef == {<<101>>, <<101, 0, 102>>, <<0>>}
Emit == (calls = MaxCalls) => PrintT(<<"REPLAY", ToJson([ev |-> "ffiseq", hist |-> hist])>>)
=============================================================================
