------------------------------- MODULE MC_C20 -------------------------------
EXTENDS WfFfi, Json
(* failure texts are garbage tokens appended to a filter; the engine echoes the offending line in its   *)
(* error message, so a NUL byte in the text reaches the last-error string and must be substituted       *)
(* offending tails appended to "i == 1 ": plain, NUL inside, NUL alone, NUL first on its line (the line is one *)
(* formatting piece of the message), NUL last, two NULs in one line                                                                 *)
TextsDef == {<<101>>, <<101, 0, 102>>, <<0>>, <<124, 124, 10, 0, 120>>, <<120, 0>>, <<120, 0, 121, 0, 122>>}
Emit == (calls = MaxCalls) => PrintT(<<"REPLAY", ToJson([ev |-> "ffiseq", hist |-> hist])>>)
=============================================================================
