CONSTANTS
  MaxLen = 0
  Kind = "intbounds"
SPECIFICATION Spec
INVARIANTS ConsumedInRange BlockTheorem Emit
CHECK_DEADLOCK FALSE
