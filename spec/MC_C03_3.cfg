CONSTANTS
  Part = 3
SPECIFICATION Spec
INVARIANTS ArityRule MapEachOnlyFirst Emit
CHECK_DEADLOCK FALSE
