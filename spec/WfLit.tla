-------------------------------- MODULE WfLit --------------------------------
(* What parsing `<field> <op> T` must do for a candidate literal text T (code points), per    *)
(* context kind: "int" (i == T), "bytes" (s == T), "index" (ai[T] == 1), "key" (mi[T] == 1).  *)
(* "ipeq" (ip == T) and "ipitem" (ip in {T}) for addresses, CIDR blocks and address ranges.  *)
(* Expected == [ok, v]: accepted iff T is, in its entirety, one well-formed literal.          *)
(* For the IP kinds ok is "yes" / "no" / "unspec" (short IPv4 forms are not judged) and the   *)
(* value is [a, b, len]: address (a = b, len = bits), block (a = b = network), range (len -1).*)
EXTENDS WfLexIp
ExpectedIp(kind, T) ==
  LET r == IF kind = "ipeq" THEN LexIpAddr(T) ELSE LexIpItem(T) IN
  IF r.ok = "yes" THEN (IF r.n = Len(T) THEN [ok |-> "yes", v |-> r.v] ELSE [ok |-> "no"])
  ELSE IF r.ok = "unspec" THEN [ok |-> "unspec"]
  ELSE [ok |-> "no"]
Expected(kind, T) ==
  IF kind = "int"
  THEN LET r == LexInt(T) IN IF Whole(r, T) THEN [ok |-> TRUE, v |-> r.v] ELSE [ok |-> FALSE, v |-> <<>>]
  ELSE IF kind = "bytes"
  THEN LET r == LexBytes(T) IN IF Whole(r, T) THEN [ok |-> TRUE, v |-> r.v] ELSE [ok |-> FALSE, v |-> <<>>]
  ELSE IF kind = "index"
  THEN LET r == LexInt(T) IN
       IF Whole(r, T) /\ IntIsU32(r.v) THEN [ok |-> TRUE, v |-> r.v] ELSE [ok |-> FALSE, v |-> <<>>]
  ELSE \* key: a quoted string whose value is valid UTF-8
       LET r == LexQuoted(T) IN
       IF Whole(r, T) /\ IsUtf8(r.v) THEN [ok |-> TRUE, v |-> r.v] ELSE [ok |-> FALSE, v |-> <<>>]
=============================================================================
