-------------------------------- MODULE WfLit --------------------------------
(* What parsing `<field> <op> T` must do for a candidate literal text T (code points), per    *)
(* context kind: "int" (i == T), "bytes" (s == T), "index" (ai[T] == 1), "key" (mi[T] == 1).  *)
(* Expected == [ok, v]: accepted iff T is, in its entirety, one well-formed literal.          *)
EXTENDS WfLexLit
Expected(kind, T) ==
  IF kind = "int"
  THEN LET r == LexInt(T) IN IF Whole(r, T) THEN [ok |-> TRUE, v |-> r.v] ELSE [ok |-> FALSE, v |-> <<>>]
  ELSE IF kind = "bytes"
  THEN LET r == LexBytes(T) IN IF Whole(r, T) THEN [ok |-> TRUE, v |-> r.v] ELSE [ok |-> FALSE, v |-> <<>>]
  ELSE IF kind = "index"
  THEN LET r == LexInt(T) IN
       IF Whole(r, T) /\ IntIsU32(r.v) THEN [ok |-> TRUE, v |-> r.v] ELSE [ok |-> FALSE, v |-> <<>>]
  ELSE \* key: a quoted string whose value is valid UTF-8
       LET r == LexQuoted(T) IN
       IF Whole(r, T) /\ IsUtf8(r.v) THEN [ok |-> TRUE, v |-> r.v] ELSE [ok |-> FALSE, v |-> <<>>]
=============================================================================
