------------------------------- MODULE MC_C08 -------------------------------
(***************************************************************************)
(* Bounded model of execution-context histories (properties C08, C17).     *)
(* Scheme 1 and scheme 2 are structurally identical but distinct.  Every   *)
(* history of at most MaxLen operations over the operation alphabet below  *)
(* is explored; TypeOK is checked in every reachable world, and every      *)
(* finished history is emitted as a REPLAY vector (operations, expected    *)
(* result of every call, expected final state of every context).           *)
(***************************************************************************)
EXTENDS WfContext, Json

CONSTANTS MaxLen, Pool, WithLists

VARIABLES w, ops, rs, done
vars == <<w, ops, rs, done>>

TABytes == TArr(TBytes)
Fld(n, t) == [name |-> n, ty |-> t, opt |-> TRUE]
SchemeA == [fields |-> <<Fld("x", TInt), Fld("y", TArr(TInt)), Fld("z", TMap(TABytes))>>,
            funcs |-> <<>>, lists |-> <<TInt>>, listkinds |-> <<"set">>, nne |-> TRUE]
S == <<SchemeA, SchemeA>>

I5 == VInt(<<0, 0, 0, 5>>)
I6 == VInt(<<0, 0, 0, 6>>)
Ba == VBytes(<<97>>)
Vals == << I5, Ba,
           VArr(TInt, <<VInt(<<0, 0, 0, 1>>), VInt(<<0, 0, 0, 2>>)>>),
           VArr(TBytes, <<Ba>>),
           VArr(TArr(TInt), <<VArr(TInt, <<VInt(<<0, 0, 0, 1>>)>>)>>),
           VMap(TABytes, <<[k |-> <<107>>, v |-> VArr(TBytes, <<Ba>>)]>>),
           VMap(TArr(TInt), <<[k |-> <<107>>, v |-> VArr(TInt, <<I5>>)]>>),
           I6 >>

Id(n) == [k |-> "id", name |-> n]
Filters == << <<Id("x"), [k |-> "ord", v |-> "eq", a |-> 1], [k |-> "int", v |-> <<0, 0, 0, 5>>, txt |-> "5"]>>,
              <<Id("y"), [k |-> "lb"], [k |-> "int", v |-> <<0, 0, 0, 0>>, txt |-> "0"], [k |-> "rb"],
                [k |-> "ord", v |-> "eq", a |-> 1], [k |-> "int", v |-> <<0, 0, 0, 1>>, txt |-> "1"]>>,
              <<Id("x"), [k |-> "in"], [k |-> "list", name |-> <<108, 49>>, valid |-> TRUE, txt |-> "$l1"]>> >>
ValueExprs == << <<Id("x")>>,
                 <<Id("y"), [k |-> "lb"], [k |-> "int", v |-> <<0, 0, 0, 0>>, txt |-> "0"], [k |-> "rb"]>> >>
M1 == [kind |-> "set", sets |-> <<[name |-> <<108, 49>>, vals |-> <<I5>>]>>]

Alive(c) == c <= Len(w) /\ w[c].alive
Names == {"x", "y", "z"}

SetOps(c) == {[op |-> "set", c |-> c, how |-> h[1], fsch |-> h[2], name |-> n, v |-> Vals[v]] :
                h \in {<<"name", w[c].sch>>, <<"field", 1>>, <<"field", 2>>}, n \in Names, v \in Pool}
             \cup {[op |-> "set", c |-> c, how |-> "name", fsch |-> w[c].sch, name |-> "nosuch", v |-> I5]}
InnerSets(c) == {[op |-> "set", c |-> c, how |-> "name", fsch |-> w[c].sch, name |-> "x", v |-> Vals[v]] : v \in {1, 2}}
OpsOn(c) ==
  SetOps(c)
  \cup {[op |-> "get", c |-> c, name |-> n] : n \in Names}
  \cup {[op |-> "clear", c |-> c], [op |-> "clone", c |-> c], [op |-> "take", c |-> c]}
  \cup {[op |-> "exec", c |-> c, fsch |-> f, ts |-> Filters[i]] : f \in {1, 2}, i \in 1..(IF WithLists THEN 3 ELSE 2)}
  \cup {[op |-> "execv", c |-> c, fsch |-> f, ts |-> ValueExprs[i]] : f \in {1, 2}, i \in 1..2}
  \cup (IF WithLists THEN {[op |-> "setlist", c |-> c, li |-> 1, m |-> M1]} ELSE {})
  \cup {[op |-> "borrow", c |-> c, ops |-> <<o>>] : o \in InnerSets(c)}
  \cup {[op |-> "borrow", c |-> c, ops |-> <<o, [op |-> "clear", c |-> c]>>] : o \in InnerSets(c)}

Init == /\ w = <<NewCtx(S, 1), NewCtx(S, 2)>>
        /\ ops = <<>> /\ rs = <<>> /\ done = FALSE
DoOp == /\ ~done /\ Len(ops) < MaxLen
        /\ \E c \in 1..Len(w) : Alive(c) /\ c # 2 /\
             \E o \in OpsOn(c) :
               LET r == Apply(S, w, o) IN
               /\ w' = r.w /\ ops' = Append(ops, o) /\ rs' = Append(rs, r.res)
        /\ UNCHANGED done
Finish == ~done /\ ops # <<>> /\ done' = TRUE /\ UNCHANGED <<w, ops, rs>>
Next == DoOp \/ Finish
Spec == Init /\ [][Next]_vars

WorldTypeOK == TypeOK(S, w)
(* a failed set never changes the world; checked as an action property on the model itself *)
FailedSetIsNoop == [][(~done /\ ops' # ops /\ ops'[Len(ops')].op = "set" /\ rs'[Len(rs')].out # "ok") => w' = w]_vars

Emit == done => PrintT(<<"REPLAY", ToJson([ev |-> "hist", init |-> <<1, 2>>, ops |-> ops, res |-> rs, final |-> w])>>)
ASSUME PrintT(<<"REPLAY", ToJson([hdr |-> "schemes", schs |-> S])>>)
=============================================================================
