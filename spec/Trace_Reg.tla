----------------------------- MODULE Trace_Reg ------------------------------
(* Trace specification for recorded scheme-registration histories (C16): "reset" starts a   *)
(* builder, "add" is one add_field/add_optional_field/add_function/add_list call with its   *)
(* result, "built" carries the built scheme's answers for a pool of probe names.            *)
EXTENDS WfRegistry, Json, IOUtils
Rec == ndJsonDeserialize(IOEnv.TRACE)
VARIABLES st, l, nbad
vars == <<st, l, nbad>>
Chk(cond, msg) == IF cond THEN TRUE
                  ELSE (PrintT(<<"REJECT", l, Rec[l].id>>) /\ PrintT(<<"DETAIL", l, msg>>) /\ FALSE)
Init == st = EmptyReg /\ l = 1 /\ nbad = 0
Add(e) == LET r == RegApply(st, e.op)
              good == Chk(r.res = e.res, <<"result of", e.op, "expected", r.res, "observed", e.res>>)
          IN st' = r.st /\ nbad' = IF good THEN nbad ELSE nbad + 1
(* "bulk": n registrations with generated names in one event; the harness reports how many calls succeeded *)
Bulk(e) == LET good == /\ Chk(BulkFresh(st, e.op), <<"generator: bulk names are not new", e.op>>)
                       /\ Chk(e.nok = e.op.n, <<"bulk registration of new names:", e.op.n, "calls,", e.nok, "succeeded">>)
           IN st' = BulkApply(st, e.op) /\ nbad' = IF good THEN nbad ELSE nbad + 1
Built(e) ==
  LET good == /\ \A i \in 1..Len(e.probes) :
                   Chk(e.probes[i] = Probe(st, e.probes[i].name),
                       <<"probe", e.probes[i].name, "expected", Probe(st, e.probes[i].name), "observed", e.probes[i]>>)
              /\ Chk(e.summary = Summary(st), <<"summary expected", Summary(st), "observed", e.summary>>)
              /\ Chk(e.eq_clone, "scheme differs from its clone")
              /\ Chk(Unique(st), "Unique")
  IN UNCHANGED st /\ nbad' = IF good THEN nbad ELSE nbad + 1
Next == /\ l <= Len(Rec)
        /\ IF Rec[l].ev = "reset" THEN st' = EmptyReg /\ UNCHANGED nbad
           ELSE IF Rec[l].ev = "add" THEN Add(Rec[l])
           ELSE IF Rec[l].ev = "bulk" THEN Bulk(Rec[l]) ELSE Built(Rec[l])
        /\ l' = l + 1
Spec == Init /\ [][Next]_vars
Accepted == IF TLCGet("stats").diameter = Len(Rec) + 1 THEN PrintT(<<"TRACE-CONSUMED", Len(Rec)>>)
            ELSE (PrintT(<<"TRACE-STUCK-AT", TLCGet("stats").diameter, "of", Len(Rec)>>) /\ FALSE)
=============================================================================
