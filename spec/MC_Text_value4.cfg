CONSTANTS
  MaxAtoms = 4
  Set = "value"
SPECIFICATION Spec
INVARIANTS Emit
CHECK_DEADLOCK FALSE
