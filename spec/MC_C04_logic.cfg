CONSTANTS
  Mode = "logic"
SPECIFICATION Spec
INVARIANTS TableIsParser Emit
CHECK_DEADLOCK FALSE
