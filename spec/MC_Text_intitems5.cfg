CONSTANTS
  MaxAtoms = 5
  Set = "intitems"
SPECIFICATION Spec
INVARIANTS Emit
CHECK_DEADLOCK FALSE
