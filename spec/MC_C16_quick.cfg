CONSTANTS
  MaxLen = 3
  Names = {"x", "x.y", "X", "xy"}
  NTypes = 2
SPECIFICATION Spec
INVARIANTS UniqueInv Emit
PROPERTY FailedAddIsNoop
CHECK_DEADLOCK FALSE
