------------------------------- MODULE MC_C19 -------------------------------
(* Bounded exploration of the panic-catcher machine: every well-bracketed script of at most  *)
(* MaxLen steps per thread, every interleaving of the threads at step granularity.  Balance, *)
(* OwnMessage, EscapeIffForwarded and Isolation (interleaved run = each thread alone) are    *)
(* checked in every state; every terminal state is emitted as a vector.                      *)
EXTENDS WfPanic, Json
Emit == AllDone => PrintT(<<"REPLAY", ToJson([ev |-> "panic", scripts |-> Scripts, sched |-> sched,
           obs |-> obs, sent |-> sent, status |-> status, levels |-> lvlog])>>)
=============================================================================
