SPECIFICATION Spec
INVARIANTS StrategyIsFlatten Emit
CHECK_DEADLOCK FALSE
