------------------------------ MODULE WfLexLit ------------------------------
(***************************************************************************)
(* Character-level lexers of literals (property C06).  Input: a sequence   *)
(* of Unicode code points.  Each lexer returns                             *)
(*      [ok |-> TRUE, v |-> value, n |-> characters consumed]  or  Bad.    *)
(*                                                                         *)
(* L1 (documented forms):                                                  *)
(*  integer  = "0x" hexdigit+ | "0" octdigit* | ["-"] decdigit+            *)
(*             the digit run is maximal over [0-9a-fA-F] (a following      *)
(*             letter of that set makes the literal malformed); value must *)
(*             fit i64                                                     *)
(*  quoted   = '"' ( char | \" | \\ | \x HH | \ OOO )* '"'                 *)
(*             HH = exactly two hex digits, OOO = exactly three octal      *)
(*             digits with value <= 255                                    *)
(*  raw      = r #{n} '"' body '"' #{n}   (n <= 255; shortest body)        *)
(*  hexpairs = HH (sep HH)+   sep in : - .                                 *)
(* The values of integer literals are computed on 16-bit limbs.            *)
(***************************************************************************)
EXTENDS WfBase

Bad == [ok |-> FALSE]
Lexed(v, n) == [ok |-> TRUE, v |-> v, n |-> n]

IsDec(c) == c \in 48..57
IsOct(c) == c \in 48..55
IsHex(c) == c \in 48..57 \/ c \in 65..70 \/ c \in 97..102
HexVal(c) == IF c \in 48..57 THEN c - 48 ELSE IF c \in 65..70 THEN c - 55 ELSE c - 87

(* maximal run of hex digits starting at position i (1-based); returns its length *)
RECURSIVE HexRun(_, _)
HexRun(s, i) == IF i <= Len(s) /\ IsHex(s[i]) THEN 1 + HexRun(s, i + 1) ELSE 0

(* unsigned magnitude on four 16-bit limbs, with overflow flag: m * radix + d *)
MulAdd(m, radix, d) ==
  LET x4 == m.l[4] * radix + d
      x3 == m.l[3] * radix + (x4 \div 65536)
      x2 == m.l[2] * radix + (x3 \div 65536)
      x1 == m.l[1] * radix + (x2 \div 65536)
  IN [l |-> <<x1 % 65536, x2 % 65536, x3 % 65536, x4 % 65536>>, ovf |-> m.ovf \/ x1 >= 65536]
RECURSIVE Magnitude(_, _, _, _, _)
Magnitude(s, i, j, radix, acc) ==            \* digits s[i..j]
  IF i > j THEN acc ELSE Magnitude(s, i + 1, j, radix, MulAdd(acc, radix, HexVal(s[i])))
Zero64 == [l |-> <<0, 0, 0, 0>>, ovf |-> FALSE]

(* two's complement negation of a magnitude <= 2^63 as signed limbs *)
NegLimbs(l) ==
  LET inv == [i \in 1..4 |-> 65535 - l[i]]
      a4 == inv[4] + 1
      a3 == inv[3] + (a4 \div 65536)
      a2 == inv[2] + (a3 \div 65536)
      a1 == inv[1] + (a2 \div 65536)
      top == a1 % 65536
  IN <<IF top >= 32768 THEN top - 65536 ELSE top, a2 % 65536, a3 % 65536, a4 % 65536>>

(* magnitude -> i64 limbs if in range *)
ToI64(m, neg) ==
  IF m.ovf THEN Bad
  ELSE IF ~neg THEN IF m.l[1] < 32768 THEN [ok |-> TRUE, v |-> m.l] ELSE Bad
  ELSE IF m.l[1] < 32768 THEN [ok |-> TRUE, v |-> IF m.l = <<0, 0, 0, 0>> THEN m.l ELSE NegLimbs(m.l)]
  ELSE IF m.l = <<32768, 0, 0, 0>> THEN [ok |-> TRUE, v |-> <<-32768, 0, 0, 0>>]
  ELSE Bad

AllIn(s, i, j, P(_)) == \A k \in i..j : P(s[k])

LexInt(s) ==
  IF Len(s) >= 2 /\ s[1] = 48 /\ s[2] = 120                       \* "0x"
  THEN LET n == HexRun(s, 3) IN
       IF n = 0 THEN Bad
       ELSE LET r == ToI64(Magnitude(s, 3, 2 + n, 16, Zero64), FALSE)
            IN IF r.ok THEN Lexed(r.v, 2 + n) ELSE Bad
  ELSE IF Len(s) >= 1 /\ s[1] = 48                                 \* leading 0: octal
  THEN LET n == HexRun(s, 1) IN
       IF ~AllIn(s, 1, n, IsOct) THEN Bad
       ELSE LET r == ToI64(Magnitude(s, 1, n, 8, Zero64), FALSE)
            IN IF r.ok THEN Lexed(r.v, n) ELSE Bad
  ELSE LET neg == Len(s) >= 1 /\ s[1] = 45
           st == IF neg THEN 2 ELSE 1
           n == HexRun(s, st)
       IN IF n = 0 \/ ~AllIn(s, st, st + n - 1, IsDec) THEN Bad
          ELSE LET r == ToI64(Magnitude(s, st, st + n - 1, 10, Zero64), neg)
               IN IF r.ok THEN Lexed(r.v, st + n - 1) ELSE Bad

----------------------------------------------------------------------------
(* UTF-8 encoding of a code point *)
Utf8(c) == IF c < 128 THEN <<c>>
           ELSE IF c < 2048 THEN <<192 + (c \div 64), 128 + (c % 64)>>
           ELSE IF c < 65536 THEN <<224 + (c \div 4096), 128 + ((c \div 64) % 64), 128 + (c % 64)>>
           ELSE <<240 + (c \div 262144), 128 + ((c \div 4096) % 64), 128 + ((c \div 64) % 64), 128 + (c % 64)>>

(* quoted string: s[1] is the opening quote; loop over the body *)
RECURSIVE QuotedFrom(_, _, _)
QuotedFrom(s, i, acc) ==
  IF i > Len(s) THEN Bad                                            \* missing ending quote
  ELSE IF s[i] = 34 THEN Lexed(acc, i)
  ELSE IF s[i] = 92
       THEN IF i + 1 > Len(s) THEN Bad
            ELSE LET c == s[i + 1] IN
                 IF c = 34 \/ c = 92 THEN QuotedFrom(s, i + 2, Append(acc, c))
                 ELSE IF c = 120                                     \* \xHH
                      THEN IF i + 3 <= Len(s) /\ IsHex(s[i + 2]) /\ IsHex(s[i + 3])
                           THEN QuotedFrom(s, i + 4, Append(acc, 16 * HexVal(s[i + 2]) + HexVal(s[i + 3])))
                           ELSE Bad
                 ELSE IF IsOct(c)                                    \* \OOO
                      THEN IF i + 3 <= Len(s) /\ IsOct(s[i + 2]) /\ IsOct(s[i + 3])
                              /\ 64 * (c - 48) + 8 * (s[i + 2] - 48) + (s[i + 3] - 48) <= 255
                           THEN QuotedFrom(s, i + 4, Append(acc, 64 * (c - 48) + 8 * (s[i + 2] - 48) + (s[i + 3] - 48)))
                           ELSE Bad
                 ELSE Bad
  ELSE QuotedFrom(s, i + 1, acc \o Utf8(s[i]))
LexQuoted(s) == IF Len(s) >= 1 /\ s[1] = 34 THEN QuotedFrom(s, 2, <<>>) ELSE Bad

(* raw string: s[1] = 'r' *)
RECURSIVE HashRun(_, _)
HashRun(s, i) == IF i <= Len(s) /\ s[i] = 35 THEN 1 + HashRun(s, i + 1) ELSE 0
RECURSIVE RawBody(_, _, _, _)
RawBody(s, i, n, start) ==           \* find the first quote at position >= i followed by n hashes
  IF i > Len(s) THEN Bad
  ELSE IF s[i] = 34 /\ HashRun(s, i + 1) >= n
       THEN Lexed(FlatSeq(Strict([k \in 1..(i - start) |-> Utf8(s[start + k - 1])])), i + n)
       ELSE RawBody(s, i + 1, n, start)
LexRaw(s) ==
  IF Len(s) < 1 \/ s[1] # 114 THEN Bad
  ELSE LET n == HashRun(s, 2) IN
       IF n > 255 THEN Bad
       ELSE IF 2 + n > Len(s) \/ s[2 + n] # 34 THEN Bad
       ELSE RawBody(s, 3 + n, n, 3 + n)

(* hex pairs *)
IsSep(c) == c \in {58, 45, 46}
RECURSIVE HexPairs(_, _, _)
HexPairs(s, i, acc) ==               \* acc non-empty; at i: optional (sep pair)
  IF i <= Len(s) /\ IsSep(s[i])
  THEN IF i + 2 <= Len(s) /\ IsHex(s[i + 1]) /\ IsHex(s[i + 2])
       THEN HexPairs(s, i + 3, Append(acc, 16 * HexVal(s[i + 1]) + HexVal(s[i + 2])))
       ELSE Bad                       \* a separator must be followed by a pair
  ELSE IF Len(acc) >= 2 THEN Lexed(acc, i - 1) ELSE Bad
LexHex(s) == IF Len(s) >= 2 /\ IsHex(s[1]) /\ IsHex(s[2]) THEN HexPairs(s, 3, <<16 * HexVal(s[1]) + HexVal(s[2])>>)
             ELSE Bad

(* a bytes literal in any form, chosen by its first character as the engine does *)
LexBytes(s) == IF Len(s) = 0 THEN Bad
               ELSE IF s[1] = 34 THEN LexQuoted(s)
               ELSE IF s[1] = 114 THEN LexRaw(s)
               ELSE LexHex(s)

(* whole-text acceptance: the literal must consume every character *)
Whole(r, s) == r.ok /\ r.n = Len(s)
=============================================================================
