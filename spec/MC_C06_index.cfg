CONSTANTS
  MaxLen = 4
  Kind = "index"
SPECIFICATION Spec
INVARIANTS ConsumedInRange Emit
CHECK_DEADLOCK FALSE
