CONSTANTS
  MaxItems = 3
  Top = 6
SPECIFICATION Spec
INVARIANTS RangeSetCorrect EvalIsMember Emit
CHECK_DEADLOCK FALSE
