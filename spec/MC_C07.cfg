SPECIFICATION Spec
INVARIANTS SpellingIrrelevant DistinctStructureDistinctJson Emit
CHECK_DEADLOCK FALSE
