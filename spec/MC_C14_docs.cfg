CONSTANTS
  Part = "docs"
SPECIFICATION Spec
INVARIANTS RoundTrip DocTheorem Emit
CHECK_DEADLOCK FALSE
