CONSTANTS
  Mode = "struct"
  MaxH = 0
  MaxP = 0
  Pads = {0, 1, 2, 3, 13, 14, 15, 16, 17, 18, 19, 29, 30, 31, 32, 33, 34, 35, 61, 62, 63, 64, 65, 66, 67}
  PLens = {0, 1, 2, 3, 4, 5, 6, 7, 8, 9, 10, 11, 12, 13, 14, 15, 16, 17, 18, 24, 31, 32, 33, 39, 40}
SPECIFICATION Spec
INVARIANTS Sanity Emit
CHECK_DEADLOCK FALSE
