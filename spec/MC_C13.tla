------------------------------- MODULE MC_C13 -------------------------------
(* Bounded model of the nesting limit (property C13): every sequence of at most MaxLen          *)
(* nesting constructs p (parenthesis), n (not), q (any/all), c (call argument list), realised   *)
(* outermost-first around a base expression with the converter functions bb: Bool -> Bool and   *)
(* ba: Bool -> Array(Bool) (a quantifier can only enclose an array-typed expression, so q is    *)
(* realisable exactly in boolean position); every limit d in 0..MaxD.                           *)
(* With side = "right" every parenthesis holds a chain `x and ( ... )` whose right operand carries *)
(* the remaining constructs (the deepest path lies in the right operand of a chain).              *)
(* In-model: the L2 counter accepts iff Nesting(ast) <= d, and Nesting = length of the shape.   *)
EXTENDS WfParser, WfEval, WfJson, Json
CONSTANTS MaxLen, MaxD
VARIABLES shape, d, side      \* side = "right": every parenthesis holds a chain whose right operand carries the rest
                              \* side = "prec": the whole shape is the last operand of  b1 or b1 and <shape>  (operators
                              \*   and their precedence recursion are not nesting)
                              \* side = "call0": the innermost expression is  z0() >= 0 , a call with an empty argument
                              \*   list (one more level)
AB == TArr(TBool)
Fn(n, s, pt, rt) == [name |-> n, sem |-> s, params |-> <<[kind |-> "Field", ty |-> pt]>>, opts |-> <<>>, ret |-> rt]
Sch == [fields |-> <<[name |-> "b1", ty |-> TBool, opt |-> TRUE], [name |-> "vb", ty |-> AB, opt |-> TRUE]>>,
        funcs |-> <<Fn("bb", "bb", TBool, TBool), Fn("ba", "ba", TBool, AB), Fn("aa", "aa", AB, AB),
                    [name |-> "ctxfn", sem |-> "ctxfn", params |-> <<>>, opts |-> <<>>, ret |-> TInt]>>,
        lists |-> <<>>, nne |-> TRUE]
Ctxs == <<[sch |-> 1, vals |-> <<VBool(TRUE), VArr(TBool, <<VBool(TRUE), VBool(FALSE)>>)>>, lists |-> <<>>],
          [sch |-> 1, vals |-> <<VBool(FALSE), VArr(TBool, <<>>)>>, lists |-> <<>>],
          [sch |-> 1, vals |-> <<Nil, Nil>>, lists |-> <<>>]>>
Id(n) == [k |-> "id", name |-> n]
LP == [k |-> "lp"]
RP == [k |-> "rp"]
(* Build(s, i, vec): tokens realising constructs s[i..] around the base; vec = an array is wanted here.  *)
(* Returns <<>> if the shape is not realisable.                                                          *)
RECURSIVE Build(_, _, _)
Call0 == <<Id("ctxfn"), LP, RP, [k |-> "ord", v |-> "ge", a |-> 1], [k |-> "int", v |-> IntOfNat(0), txt |-> "0"]>>
Build(s, i, vec) ==
  IF i > Len(s) THEN IF vec THEN <<Id("vb")>> ELSE IF side = "call0" THEN Call0 ELSE <<Id("b1")>>
  ELSE LET c == s[i] IN
       IF c = "p" THEN LET x == Build(s, i + 1, vec) IN
                       IF x = <<>> THEN <<>>
                       ELSE IF side = "right"
                            THEN <<LP, IF vec THEN Id("vb") ELSE Id("b1"), [k |-> "lop", v |-> (IF i % 2 = 0 THEN "and" ELSE "or"), a |-> 0]>> \o x \o <<RP>>
                            ELSE <<LP>> \o x \o <<RP>>
       ELSE IF c = "n" THEN LET x == Build(s, i + 1, vec) IN IF x = <<>> THEN <<>> ELSE <<[k |-> "not", a |-> i % 2]>> \o x
       ELSE IF c = "q" THEN IF vec THEN <<>>
                            ELSE LET x == Build(s, i + 1, TRUE) IN
                                 IF x = <<>> THEN <<>> ELSE <<[k |-> "quant", v |-> (IF i % 2 = 0 THEN "any" ELSE "all")], LP>> \o x \o <<RP>>
       ELSE \* call: in boolean position bb(Bool); in array position ba(Bool) or aa(Array) by parity
            IF vec THEN IF i % 2 = 0
                        THEN LET x == Build(s, i + 1, FALSE) IN IF x = <<>> THEN <<>> ELSE <<Id("ba"), LP>> \o x \o <<RP>>
                        ELSE LET x == Build(s, i + 1, TRUE) IN IF x = <<>> THEN <<>> ELSE <<Id("aa"), LP>> \o x \o <<RP>>
            ELSE LET x == Build(s, i + 1, FALSE) IN IF x = <<>> THEN <<>> ELSE <<Id("bb"), LP>> \o x \o <<RP>>
Shapes == UNION {[1..n -> {"p", "n", "q", "c"}] : n \in 0..MaxLen}
HasParen(s) == \E i \in 1..Len(s) : s[i] = "p"
Init == /\ side \in {"plain", "right", "prec", "call0", "xor3"}
        /\ shape \in {s \in Shapes : Build(s, 1, FALSE) # <<>> /\ (side = "right" => HasParen(s))
                                    /\ (side \in {"prec", "call0", "xor3"} => Len(s) <= 3)}
        /\ d \in 0..MaxD
Next == FALSE /\ UNCHANGED <<shape, d, side>>
Spec == Init /\ [][Next]_<<shape, d, side>>
(* side = "xor3": the shape is the last operand of  b1 xor b1 xor <shape> : a chain of one operator is ONE node with three *)
(* operands (no level of its own, in the limit and in the tree alike)                                                      *)
Toks == IF side = "xor3"
        THEN <<Id("b1"), [k |-> "lop", v |-> "xor", a |-> 0], Id("b1"), [k |-> "lop", v |-> "xor", a |-> 1]>> \o Build(shape, 1, FALSE)
        ELSE IF side = "prec"
        THEN <<Id("b1"), [k |-> "lop", v |-> "or", a |-> 0], Id("b1"), [k |-> "lop", v |-> "and", a |-> 1]>> \o Build(shape, 1, FALSE)
        ELSE Build(shape, 1, FALSE)
(* with call0 the base adds a level unless the innermost position wants an array (then the base is the field vb) *)
RECURSIVE EndsVec(_, _, _)
EndsVec(s, i, vec) == IF i > Len(s) THEN vec
                      ELSE IF s[i] \in {"p", "n"} THEN EndsVec(s, i + 1, vec)
                      ELSE IF s[i] = "q" THEN EndsVec(s, i + 1, TRUE)
                      ELSE IF vec THEN EndsVec(s, i + 1, i % 2 # 0) ELSE EndsVec(s, i + 1, FALSE)
Depth == Len(shape) + (IF side = "call0" /\ ~EndsVec(shape, 1, FALSE) THEN 1 ELSE 0)
CounterIsNesting ==
  LET r == ParseFilter(Toks, Sch, d)
      free == ParseFilter(Toks, Sch, 1000) IN
  /\ free.ok /\ NestLogical(free.node) = Depth
  /\ r.ok = (Depth <= d)
Vector == LET r == ParseFilter(Toks, Sch, d) IN
  IF r.ok THEN [ev |-> "filter", sch |-> 1, max |-> d, ts |-> Toks, ok |-> TRUE, ast |-> AstJson(r.node),
                runs |-> Strict([n \in 1..Len(Ctxs) |-> [ctx |-> n, out |-> "ok", res |-> EvalFilter(r.node, Ctxs[n], Sch)]]), uses |-> <<>>]
  ELSE [ev |-> "filter", sch |-> 1, max |-> d, ts |-> Toks, ok |-> FALSE]
Emit == PrintT(<<"REPLAY", ToJson(Vector)>>)
ASSUME /\ PrintT(<<"REPLAY", ToJson([hdr |-> "scheme", sch |-> Sch])>>)
       /\ \A n \in 1..Len(Ctxs) : PrintT(<<"REPLAY", ToJson([hdr |-> "ctx", ctx |-> Ctxs[n]])>>)
=============================================================================
