CONSTANTS
  MaxLen = 0
  Kind = "indexbounds"
SPECIFICATION Spec
INVARIANTS ConsumedInRange BlockTheorem Emit
CHECK_DEADLOCK FALSE
