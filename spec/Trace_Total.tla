---------------------------- MODULE Trace_Total -----------------------------
(* Trace specification for property C05: every input (parsed in a child process) yields an     *)
(* AST or a parse error; a crash, abort, stack overflow, hang or panic of the child is an       *)
(* outcome no action of this specification produces.  Every error must designate a line of      *)
(* the input, echo exactly that line, carry a column range inside it and format to the          *)
(* documented layout (header, the line, start spaces, max(1, len) carets).                      *)
EXTENDS WfBase, Json, IOUtils, SequencesExt
Rec == ndJsonDeserialize(IOEnv.TRACE)
VARIABLES l, nbad
vars == <<l, nbad>>
Chk(cond, msg) == IF cond THEN TRUE
                  ELSE (PrintT(<<"REJECT", l, Rec[l].id>>) /\ PrintT(<<"DETAIL", l, msg>>) /\ FALSE)

(* the k-th line (0-based) of a byte string, lines separated by LF *)
LFs(s) == {i \in 1..Len(s) : s[i] = 10}
LineStart(s, k) == IF k = 0 THEN 1 ELSE SetToSortSeq(LFs(s), LAMBDA a, b : a < b)[k] + 1
LineEnd(s, k) == LET ps == SetToSortSeq(LFs(s), LAMBDA a, b : a < b) IN IF k + 1 <= Len(ps) THEN ps[k + 1] - 1 ELSE Len(s)
LineAt(s, k) == SubSeq(s, LineStart(s, k), LineEnd(s, k))
NLines(s) == Cardinality(LFs(s)) + 1

ErrShape(o) == /\ Chk(o.head_ok, "error text does not start with the documented header")
               /\ Chk(o.line >= 0 /\ o.start >= 0 /\ o.len >= 0, "error location fields missing")
               /\ Chk(o.spaces = o.start, <<"caret line is indented by", o.spaces, "columns, span starts at", o.start>>)
               /\ Chk(o.carets = Max2(1, o.len), <<"caret count", o.carets, "span length", o.len>>)

Check(e) ==
  LET o == e.obs IN
  /\ Chk(o.out \in {"ast", "error"}, <<"outcome", o.out, "input class", e.class, "size", e.size>>)
  /\ (o.out = "error") =>
       /\ ErrShape(o)
       /\ IF e.ev = "total"
          THEN /\ Chk(o.line < NLines(e.input), <<"reported line", o.line, "but the input has", NLines(e.input), "lines">>)
               /\ o.line < NLines(e.input) =>
                    /\ Chk(o.linetext = LineAt(e.input, o.line), <<"echoed line differs from line", o.line, "of the input">>)
                    /\ Chk(o.start + o.len <= Len(LineAt(e.input, o.line)),
                           <<"column range", o.start, o.len, "outside the line of length", Len(LineAt(e.input, o.line))>>)
          ELSE /\ Chk(e.line_exists, <<"reported line", o.line, "but the input has", e.nlines, "lines">>)
               /\ Chk(o.linetext = e.actual_line, "echoed line differs from that line of the input")
               /\ Chk(o.start + o.len <= Len(e.actual_line), "column range outside the line")
Init == l = 1 /\ nbad = 0
Next == /\ l <= Len(Rec)
        /\ nbad' = IF Check(Rec[l]) THEN nbad ELSE nbad + 1
        /\ l' = l + 1
Spec == Init /\ [][Next]_vars
Accepted == IF TLCGet("stats").diameter = Len(Rec) + 1 THEN PrintT(<<"TRACE-CONSUMED", Len(Rec)>>)
            ELSE (PrintT(<<"TRACE-STUCK-AT", TLCGet("stats").diameter, "of", Len(Rec)>>) /\ FALSE)
=============================================================================
