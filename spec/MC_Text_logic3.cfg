CONSTANTS
  MaxAtoms = 3
  Set = "logic"
SPECIFICATION Spec
INVARIANTS Emit
CHECK_DEADLOCK FALSE
