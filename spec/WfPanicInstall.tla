--------------------------- MODULE WfPanicInstall ---------------------------
(***************************************************************************)
(* The FIRST installation of the panic catcher's hook by concurrent        *)
(* threads (finding F11 of DESIGN.md, property C19).                       *)
(*                                                                         *)
(* Mode "flag" is the code before the repair: check-then-act               *)
(*     L1: if HOOK_SET.load() return                                       *)
(*     L2: next := take_hook()      -- the global hook becomes the default *)
(*     L3: set_hook(wrapper(next))                                         *)
(*     L4: HOOK_SET.store(true)                                            *)
(* Mode "once" is the repaired code: std::sync::Once                       *)
(*     L1: if ONCE is complete return; if ONCE is running wait; otherwise  *)
(*         become the runner                                               *)
(*     L2, L3 as above (only the runner executes them)                     *)
(*     L4: ONCE := complete                                                *)
(* The global hook is a chain (sequence, outermost first) ending in        *)
(* "default".  After its set_hook call returned, a thread enables catching *)
(* and panics inside catch_panic; the panic is recorded iff the chain      *)
(* contains a wrapper at that moment (std::panic::take_hook / set_hook are *)
(* each atomic: they take the global hook lock).                           *)
(*                                                                         *)
(* In mode "flag" TLC finds the interleaving in which B has read           *)
(* HOOK_SET = false before A's L4 and executes L2 after A's L3: between    *)
(* B's L2 and L3 the global hook is the default hook and A's panic in that *)
(* window is not recorded (A's catch_panic returns a stale or "<unknown>"  *)
(* text) -- RecordedIfInstalled is violated, and so is SingleWrapper (the  *)
(* catcher ends up chained onto itself).  In mode "once" both hold for     *)
(* every interleaving of N threads.  The harness stage first-install-race  *)
(* (wfh gen-panic --raceonly) executes this race against the real code.    *)
(***************************************************************************)
EXTENDS Naturals, Sequences, FiniteSets, TLC
CONSTANTS Threads, Mode
VARIABLES once,      \* "new" | "running" | "complete"   (flag mode: "new" | "complete" = HOOK_SET)
          chain, pc, nxt, recorded
vars == <<once, chain, pc, nxt, recorded>>
HasWrapper(c) == \E i \in 1..Len(c) : c[i] = "wrapper"
Wrappers(c) == Cardinality({i \in 1..Len(c) : c[i] = "wrapper"})
Init == /\ once = "new" /\ chain = <<"default">>
        /\ pc = [t \in Threads |-> "L1"] /\ nxt = [t \in Threads |-> <<>>]
        /\ recorded = [t \in Threads |-> "n/a"]
L1(t) == /\ pc[t] = "L1"
         /\ IF Mode = "flag"
            THEN pc' = [pc EXCEPT ![t] = IF once = "complete" THEN "installed" ELSE "L2"] /\ UNCHANGED once
            ELSE \/ once = "complete" /\ pc' = [pc EXCEPT ![t] = "installed"] /\ UNCHANGED once
                 \/ once = "new" /\ once' = "running" /\ pc' = [pc EXCEPT ![t] = "L2"]
                 \* once = "running": blocked (call_once waits)
         /\ UNCHANGED <<chain, nxt, recorded>>
L2(t) == pc[t] = "L2" /\ nxt' = [nxt EXCEPT ![t] = chain] /\ chain' = <<"default">>
         /\ pc' = [pc EXCEPT ![t] = "L3"] /\ UNCHANGED <<once, recorded>>
L3(t) == pc[t] = "L3" /\ chain' = <<"wrapper">> \o nxt[t] /\ pc' = [pc EXCEPT ![t] = "L4"]
         /\ UNCHANGED <<once, nxt, recorded>>
L4(t) == pc[t] = "L4" /\ once' = "complete" /\ pc' = [pc EXCEPT ![t] = "installed"]
         /\ UNCHANGED <<chain, nxt, recorded>>
(* the thread panics inside catch_panic (catching enabled, level 1) *)
Panic(t) == pc[t] = "installed" /\ recorded' = [recorded EXCEPT ![t] = IF HasWrapper(chain) THEN "yes" ELSE "no"]
            /\ pc' = [pc EXCEPT ![t] = "done"] /\ UNCHANGED <<once, chain, nxt>>
Next == \E t \in Threads : L1(t) \/ L2(t) \/ L3(t) \/ L4(t) \/ Panic(t)
Spec == Init /\ [][Next]_vars /\ WF_vars(Next)
TypeOK == once \in {"new", "running", "complete"} /\ \A t \in Threads : pc[t] \in {"L1", "L2", "L3", "L4", "installed", "done"}
(* C19 for a thread that has installed the hook: its panic is recorded for it *)
RecordedIfInstalled == \A t \in Threads : recorded[t] # "no"
(* the catcher is never chained onto itself and the previously installed hook is never lost *)
SingleWrapper == Wrappers(chain) <= 1
ChainKept == \A t \in Threads : pc[t] \in {"installed", "done"} => chain = <<"wrapper", "default">>
(* nobody waits forever: every thread gets through (checked under weak fairness) *)
AllDone == <>(\A t \in Threads : pc[t] = "done")
=============================================================================
