CONSTANTS
  NThreads = 1
  MaxLen = 5
  Ops = {"enable", "disable", "enter", "genter", "ret", "panic", "swallow", "sethook", "bt"}
SPECIFICATION Spec
INVARIANTS Balance OwnMessage EscapeIffForwarded Isolation Emit
CHECK_DEADLOCK FALSE
