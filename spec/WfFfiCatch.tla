----------------------------- MODULE WfFfiCatch -----------------------------
(***************************************************************************)
(* The C API seen as one machine (property C20, second half): per thread   *)
(* the panic catcher's switch and the last-error slot; process-wide the    *)
(* hook (installed before the first call, see WfPanicInstall).             *)
(*                                                                         *)
(* Calls of thread t:                                                      *)
(*   Enable(t) / Disable(t)   wirefilter_{enable,disable}_panic_catcher:   *)
(*                            flip enabled[t] only, never fail             *)
(*   Ok(t)                    a call that succeeds                         *)
(*   Fail(t)                  a call that fails with an error text         *)
(*   Clear(t)                 wirefilter_clear_last_error                  *)
(*   Boom(t, s)               a user function panics inside parse /        *)
(*                            compile / match (s = the site).  With the    *)
(*                            catcher enabled on t the call returns the    *)
(*                            Panic status and lastErr[t] carries the      *)
(*                            panic message; nothing unwinds into the      *)
(*                            caller.  With the catcher disabled on t the  *)
(*                            statement promises nothing (the process is   *)
(*                            allowed to die): the action is not enabled.  *)
(* What another thread did - switching its catcher, failing, panicking -   *)
(* changes neither enabled[t] nor lastErr[t].                              *)
(***************************************************************************)
EXTENDS Naturals, Sequences, FiniteSets, TLC
CONSTANTS NThreads, MaxCalls
Threads == 1..NThreads
Sites == {"parse", "compile", "match"}
VARIABLES lastErr, enabled, calls, who, hist
vars == <<lastErr, enabled, calls, who, hist>>
Null == [k |-> "null", site |-> ""]
ErrText == [k |-> "err", site |-> ""]
PanicText(s) == [k |-> "panic", site |-> s]
Init == /\ lastErr = [t \in Threads |-> Null] /\ enabled = [t \in Threads |-> FALSE]
        /\ calls = 0 /\ who = 0 /\ hist = <<>>
Step(t, call, site, status, le, en) ==
  /\ calls < MaxCalls /\ calls' = calls + 1 /\ who' = t
  /\ lastErr' = le /\ enabled' = en
  /\ hist' = Append(hist, [th |-> t, call |-> call, site |-> site, status |-> status,
                           after |-> [u \in Threads |-> le[u]], en |-> [u \in Threads |-> en[u]]])
Enable(t) == Step(t, "enable", "", "ok", lastErr, [enabled EXCEPT ![t] = TRUE])
Disable(t) == Step(t, "disable", "", "ok", lastErr, [enabled EXCEPT ![t] = FALSE])
Ok(t) == Step(t, "ok", "", "ok", lastErr, enabled)
Fail(t) == Step(t, "fail", "", "err", [lastErr EXCEPT ![t] = ErrText], enabled)
Clear(t) == Step(t, "clear", "", "ok", [lastErr EXCEPT ![t] = Null], enabled)
Boom(t, s) == enabled[t] /\ Step(t, "boom", s, "panic", [lastErr EXCEPT ![t] = PanicText(s)], enabled)
Next == \E t \in Threads : Enable(t) \/ Disable(t) \/ Ok(t) \/ Fail(t) \/ Clear(t) \/ \E s \in Sites : Boom(t, s)
Spec == Init /\ [][Next]_vars
(* a panic is always reported: the step that panicked leaves the panic text of its site in the caller's slot *)
PanicReported == \A i \in 1..Len(hist) : hist[i].call = "boom" =>
                    /\ hist[i].status = "panic" /\ hist[i].after[hist[i].th] = PanicText(hist[i].site)
                    /\ hist[i].en[hist[i].th]
(* only the calling thread's slot and switch can change *)
ThreadLocal == [][\A t \in Threads : (lastErr'[t] # lastErr[t] \/ enabled'[t] # enabled[t]) => who' = t]_vars
(* a failure or panic status always comes with a message *)
FailureHasMessage == \A i \in 1..Len(hist) : hist[i].status # "ok" => hist[i].after[hist[i].th] # Null
=============================================================================
