CONSTANTS
  MaxAtoms = 3
  Set = "idx"
SPECIFICATION Spec
INVARIANTS Emit
CHECK_DEADLOCK FALSE
