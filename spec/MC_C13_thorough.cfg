CONSTANTS
  MaxLen = 7
  MaxD = 9
SPECIFICATION Spec
INVARIANTS CounterIsNesting Emit
CHECK_DEADLOCK FALSE
