CONSTANTS
  MaxAtoms = 4
  Set = "cmp"
SPECIFICATION Spec
INVARIANTS Emit
CHECK_DEADLOCK FALSE
