CONSTANTS
  Mode = "wild"
  Level = 0
  MaxLen = 4
SPECIFICATION Spec
INVARIANTS ScannerInvertsQuoting WildMonotone Emit
CHECK_DEADLOCK FALSE
