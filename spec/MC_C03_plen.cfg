CONSTANTS
  Part = 27
SPECIFICATION Spec
INVARIANTS ArityRule MapEachOnlyFirst Emit
CHECK_DEADLOCK FALSE
