\* the repaired code (std::sync::Once): all invariants hold for 4 threads
SPECIFICATION Spec
CONSTANTS Threads = {1, 2, 3, 4}
          Mode = "once"
INVARIANTS TypeOK RecordedIfInstalled SingleWrapper ChainKept
PROPERTIES AllDone
CHECK_DEADLOCK FALSE
