CONSTANTS
  NThreads = 2
  MaxCalls = 4
  Texts <- TextsDef
SPECIFICATION Spec
INVARIANT WellFormed
PROPERTY ThreadLocal
CHECK_DEADLOCK FALSE
