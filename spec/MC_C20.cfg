CONSTANTS
  NThreads = 2
  MaxCalls = 4
  Texts <- TextsDef
SPECIFICATION Spec
INVARIANTS WellFormed Emit
PROPERTY ThreadLocal
CHECK_DEADLOCK FALSE
