CONSTANTS
  MaxLen = 2
  Pool = {1, 2, 3, 4, 5, 6, 7, 8}
  WithLists = TRUE
SPECIFICATION Spec
INVARIANTS WorldTypeOK Emit
PROPERTY FailedSetIsNoop
CHECK_DEADLOCK FALSE
