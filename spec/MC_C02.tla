------------------------------- MODULE MC_C02 -------------------------------
(* Bounded model of indexing / map-each / any-all (property C02): every full-depth well-typed   *)
(* index path over ai, aai, mi, mai, ami with array indexes {0, 1, 5}, keys {"k", "z"} and [*], *)
(* every value of a pool (absent, empty, singleton, ragged).  In-model: the engine's strategy    *)
(* (L2, WfIndex) yields exactly the L1 element sequence.  Vectors: `path == 1` (or any / all /   *)
(* not-wrapped when the path maps) and the value expression of every map-free path.             *)
EXTENDS WfIndex, WfParser, WfJson, Json
VARIABLES cas
I(n) == VInt(IntOfNat(n))
AI(s) == VArr(TInt, s)
K == <<107>>
Z == <<122>>
FieldsDef == << [name |-> "ai", ty |-> TArr(TInt), opt |-> TRUE], [name |-> "aai", ty |-> TArr(TArr(TInt)), opt |-> TRUE],
                [name |-> "mi", ty |-> TMap(TInt), opt |-> TRUE], [name |-> "mai", ty |-> TMap(TArr(TInt)), opt |-> TRUE],
                [name |-> "ami", ty |-> TArr(TMap(TInt)), opt |-> TRUE] >>
Sch == [fields |-> FieldsDef, funcs |-> <<>>, lists |-> <<>>, nne |-> TRUE]
MI(s) == VMap(TInt, s)
Pool == << <<Nil, Nil, Nil, Nil, Nil>>,
           <<AI(<<>>), VArr(TArr(TInt), <<>>), MI(<<>>), VMap(TArr(TInt), <<>>), VArr(TMap(TInt), <<>>)>>,
           <<AI(<<I(1)>>), VArr(TArr(TInt), <<AI(<<I(1)>>)>>), MI(<<[k |-> K, v |-> I(1)]>>),
             VMap(TArr(TInt), <<[k |-> K, v |-> AI(<<I(1)>>)]>>), VArr(TMap(TInt), <<MI(<<[k |-> K, v |-> I(1)]>>)>>)>>,
           <<AI(<<I(2), I(1), I(1)>>), VArr(TArr(TInt), <<AI(<<>>), AI(<<I(2), I(1)>>), AI(<<I(1)>>)>>),
             MI(<<[k |-> <<97>>, v |-> I(1)], [k |-> K, v |-> I(2)], [k |-> Z, v |-> I(1)]>>),
             VMap(TArr(TInt), <<[k |-> <<97>>, v |-> AI(<<I(1), I(2)>>)], [k |-> K, v |-> AI(<<>>)]>>),
             VArr(TMap(TInt), <<MI(<<>>), MI(<<[k |-> K, v |-> I(2)], [k |-> Z, v |-> I(1)]>>), MI(<<[k |-> <<97>>, v |-> I(1)]>>)>>)>> >>
Ctxs == Strict([n \in 1..Len(Pool) |-> [sch |-> 1, vals |-> Pool[n], lists |-> <<>>]])
ArrIdx == {[k |-> "ai", v |-> IntOfNat(0)], [k |-> "ai", v |-> IntOfNat(1)], [k |-> "ai", v |-> IntOfNat(5)], [k |-> "each"]}
MapIdx == {[k |-> "mk", v |-> K], [k |-> "mk", v |-> Z], [k |-> "each"]}
IdxFor(T) == IF T.k = "Array" THEN ArrIdx ELSE MapIdx
Paths(T) == IF IsPrim(T.e) THEN {<<i>> : i \in IdxFor(T)}
            ELSE {<<i, j>> : i \in IdxFor(T), j \in IdxFor(T.e)}
Cases == UNION {{<<f, p, w>> : p \in Paths(FieldsDef[f].ty), w \in {"any", "all", "notany"}} : f \in 1..Len(FieldsDef)}
Init == cas \in Cases
Next == FALSE /\ UNCHANGED cas
Spec == Init /\ [][Next]_cas
F == FieldsDef[cas[1]]
StrategyIsFlatten ==
  \A n \in 1..Len(Pool) :
     LET v == Pool[n][cas[1]] IN
     /\ Strategy(v, cas[2]) = L1Elems(v, cas[2])
     /\ (Mec(cas[2]) >= 1 /\ ~IsNil(v)) => CompileIter(v, cas[2]).out = Flatten(v, cas[2])
     /\ (~IsNil(v)) => CompileIter(v, cas[2]).maxdepth <= Len(cas[2])
IdxToks(p) == FlatSeq(Strict([i \in 1..Len(p) |->
                 <<[k |-> "lb"],
                   IF p[i].k = "each" THEN [k |-> "star"]
                   ELSE IF p[i].k = "ai" THEN [k |-> "int", v |-> p[i].v, txt |-> ToString(p[i].v[4])]
                   ELSE [k |-> "bytes", v |-> p[i].v, form |-> "q", txt |-> IF p[i].v = K THEN "\"k\"" ELSE "\"z\""],
                   [k |-> "rb"]>>]))
PathToks == <<[k |-> "id", name |-> F.name]>> \o IdxToks(cas[2])
CmpToks == PathToks \o <<[k |-> "ord", v |-> "eq", a |-> 1], [k |-> "int", v |-> IntOfNat(1), txt |-> "1"]>>
Toks == IF Mec(cas[2]) = 0
        THEN IF cas[3] = "any" THEN CmpToks ELSE IF cas[3] = "all" THEN <<[k |-> "not", a |-> 0]>> \o CmpToks
             ELSE <<[k |-> "lp"]>> \o CmpToks \o <<[k |-> "rp"]>>
        ELSE IF cas[3] = "notany"
             THEN <<[k |-> "quant", v |-> "any"], [k |-> "lp"], [k |-> "not", a |-> 1]>> \o CmpToks \o <<[k |-> "rp"]>>
             ELSE <<[k |-> "quant", v |-> cas[3]], [k |-> "lp"]>> \o CmpToks \o <<[k |-> "rp"]>>
Vector == LET r == ParseFilter(Toks, Sch, 128) IN
  [ev |-> "filter", sch |-> 1, max |-> 128, ts |-> Toks, ok |-> r.ok, ast |-> AstJson(r.node),
   runs |-> Strict([n \in 1..Len(Ctxs) |-> [ctx |-> n, out |-> "ok", res |-> EvalFilter(r.node, Ctxs[n], Sch)]]), uses |-> <<>>]
ValueVector == LET r == ParseValue(PathToks, Sch, 128) IN
  [ev |-> "value", sch |-> 1, max |-> 128, ts |-> PathToks, ok |-> r.ok, ast |-> ValueAstJson(r.node),
   runs |-> Strict([n \in 1..Len(Ctxs) |-> [ctx |-> n, out |-> "ok", res |-> EvalValue(r.node, Ctxs[n], Sch)]]), uses |-> <<>>]
Emit == /\ PrintT(<<"REPLAY", ToJson(Vector)>>)
        /\ (Mec(cas[2]) = 0 /\ cas[3] = "any") => PrintT(<<"REPLAY", ToJson(ValueVector)>>)
ASSUME /\ PrintT(<<"REPLAY", ToJson([hdr |-> "scheme", sch |-> Sch])>>)
       /\ \A n \in 1..Len(Ctxs) : PrintT(<<"REPLAY", ToJson([hdr |-> "ctx", ctx |-> Ctxs[n]])>>)
=============================================================================
