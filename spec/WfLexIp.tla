------------------------------ MODULE WfLexIp -------------------------------
(***************************************************************************)
(* Character-level lexers of IP literals (property C06): addresses, CIDR   *)
(* blocks and explicit ranges.  Input: code points.                        *)
(*                                                                         *)
(* L2 of the engine's scanner: the literal is the maximal run of           *)
(* [0-9a-fA-F:./]; a run containing ".." is a range first..last (split at  *)
(* the first ".."), otherwise it is address[/length].                      *)
(* L1 of the address forms (std::net text forms):                          *)
(*   IPv4  d.d.d.d, each d = 1-3 decimal digits, no leading zero, <= 255   *)
(*   IPv6  eight groups of 1-4 hex digits separated by ":", at most one    *)
(*         "::" standing for one or more zero groups, the last two groups  *)
(*         optionally written as an IPv4 address                           *)
(* The CIDR parser of the engine additionally takes "short" IPv4 forms     *)
(* (10, 10.1, 010.1.2) which the documentation does not mention: for those *)
(* the verdict is "unspec" (not judged).                                   *)
(***************************************************************************)
EXTENDS WfLexLit

IsIpChar(c) == IsHex(c) \/ c \in {58, 46, 47}
RECURSIVE IpRun(_, _)
IpRun(s, i) == IF i <= Len(s) /\ IsIpChar(s[i]) THEN 1 + IpRun(s, i + 1) ELSE 0

Sub(s, i, j) == IF j < i THEN <<>> ELSE SubSeq(s, i, j)
NoIp == [ok |-> FALSE]

(* split at a separator character: sequence of parts (possibly empty parts) *)
RECURSIVE SplitAt(_, _, _, _)
SplitAt(s, sep, i, cur) ==
  IF i > Len(s) THEN <<cur>>
  ELSE IF s[i] = sep THEN <<cur>> \o SplitAt(s, sep, i + 1, <<>>)
  ELSE SplitAt(s, sep, i + 1, Append(cur, s[i]))
Split(s, sep) == SplitAt(s, sep, 1, <<>>)

RECURSIVE DecVal(_, _)
DecVal(s, acc) == IF s = <<>> THEN acc ELSE DecVal(Tail(s), IF acc > 100000 THEN acc ELSE 10 * acc + (Head(s) - 48))
AllDec(s) == \A i \in 1..Len(s) : IsDec(s[i])
RECURSIVE HexVal16(_, _)
HexVal16(s, acc) == IF s = <<>> THEN acc ELSE HexVal16(Tail(s), 16 * acc + HexVal(Head(s)))
AllHex(s) == \A i \in 1..Len(s) : IsHex(s[i])

(* strict IPv4 octet *)
OctetOk(p) == Len(p) \in 1..3 /\ AllDec(p) /\ (Len(p) = 1 \/ p[1] # 48) /\ DecVal(p, 0) <= 255
V4(s) == LET ps == Split(s, 46) IN
         IF Len(ps) = 4 /\ \A i \in 1..4 : OctetOk(ps[i])
         THEN [ok |-> TRUE, v |-> [i \in 1..4 |-> DecVal(ps[i], 0)]] ELSE NoIp
(* "short" IPv4 of the CIDR parser: 1..4 dotted decimal parts (leading zeros allowed), value <= 255 *)
ShortPartOk(p) == Len(p) >= 1 /\ AllDec(p) /\ DecVal(p, 0) <= 255
IsShortV4(s) == LET ps == Split(s, 46) IN Len(ps) \in 1..4 /\ \A i \in 1..Len(ps) : ShortPartOk(ps[i])

(* IPv6 *)
GroupOk(g) == Len(g) \in 1..4 /\ AllHex(g)
GroupOctets(g) == LET x == HexVal16(g, 0) IN <<x \div 256, x % 256>>
(* a ":"-separated list of groups whose last element may be an IPv4 address; returns octets *)
GroupsV(ps) ==       \* ps: non-empty sequence of parts; all but the last are groups
  LET n == Len(ps)
      lastv4 == V4(ps[n])
      heads == \A i \in 1..(n - 1) : GroupOk(ps[i])
  IN IF ~heads THEN NoIp
     ELSE IF GroupOk(ps[n])
          THEN [ok |-> TRUE, n |-> n, v |-> FlatSeq(Strict([i \in 1..n |-> GroupOctets(ps[i])]))]
     ELSE IF lastv4.ok
          THEN [ok |-> TRUE, n |-> n + 1, v |-> FlatSeq(Strict([i \in 1..(n - 1) |-> GroupOctets(ps[i])])) \o lastv4.v]
     ELSE NoIp
ListV(s) == IF s = <<>> THEN [ok |-> TRUE, n |-> 0, v |-> <<>>] ELSE GroupsV(Split(s, 58))
OnlyGroups(s) == s = <<>> \/ (\A p \in {Split(s, 58)[i] : i \in 1..Len(Split(s, 58))} : GroupOk(p))
(* positions p with s[p] = s[p+1] = ":" *)
DColons(s) == {p \in 1..(Len(s) - 1) : s[p] = 58 /\ s[p + 1] = 58}
Zeros(n) == [i \in 1..n |-> 0]
V6(s) ==
  LET D == DColons(s) IN
  IF D = {}
  THEN LET r == ListV(s) IN IF s # <<>> /\ r.ok /\ r.n = 8 THEN [ok |-> TRUE, v |-> r.v] ELSE NoIp
  ELSE IF Cardinality(D) # 1 THEN NoIp          \* two "::" or ":::" cannot be read
  ELSE LET p == CHOOSE q \in D : TRUE
           hd == Sub(s, 1, p - 1)
           tl == Sub(s, p + 2, Len(s))
           h == ListV(hd)
           t == ListV(tl)
       IN IF OnlyGroups(hd) /\ h.ok /\ t.ok /\ h.n + t.n <= 7
          THEN [ok |-> TRUE, v |-> h.v \o Zeros(2 * (8 - h.n - t.n)) \o t.v]
          ELSE NoIp
Addr(s) == LET a == V4(s) IN IF a.ok THEN a ELSE V6(s)

(* first position of ".." or 0 *)
FirstDotDot(s) == LET P == {p \in 1..(Len(s) - 1) : s[p] = 46 /\ s[p + 1] = 46} IN
                  IF P = {} THEN 0 ELSE CHOOSE p \in P : \A q \in P : p <= q
LastSlash(s) == LET P == {p \in 1..Len(s) : s[p] = 47} IN IF P = {} THEN 0 ELSE CHOOSE p \in P : \A q \in P : q <= p

Item(a, b, len) == [a |-> a, b |-> b, len |-> len]
(* `ip == T`: an address, nothing else *)
LexIpAddr(s) ==
  LET n == IpRun(s, 1) ch == Sub(s, 1, n) a == Addr(ch) IN
  IF n > 0 /\ a.ok THEN [ok |-> "yes", v |-> Item(a.v, a.v, 8 * Len(a.v)), n |-> n] ELSE [ok |-> "no"]
(* `ip in {T}`: address, CIDR block or range *)
LexIpItem(s) ==
  LET n == IpRun(s, 1) ch == Sub(s, 1, n) dd == FirstDotDot(ch) sl == LastSlash(ch) IN
  IF n = 0 THEN [ok |-> "no"]
  ELSE IF dd > 0
  THEN LET f == Addr(Sub(ch, 1, dd - 1)) t == Addr(Sub(ch, dd + 2, n)) IN
       IF f.ok /\ t.ok /\ Len(f.v) = Len(t.v) /\ LexCmp(f.v, t.v) <= 0
       THEN [ok |-> "yes", v |-> Item(f.v, t.v, -1), n |-> n] ELSE [ok |-> "no"]     \* len = -1 marks an explicit range
  ELSE LET at == IF sl = 0 THEN ch ELSE Sub(ch, 1, sl - 1)
           lt == Sub(ch, sl + 1, n)
           a == Addr(at)
       IN IF ~a.ok THEN (IF IsShortV4(at) THEN [ok |-> "unspec"] ELSE [ok |-> "no"])
          ELSE IF sl = 0 THEN [ok |-> "yes", v |-> Item(a.v, a.v, 8 * Len(a.v)), n |-> n]
          ELSE IF lt = <<>> \/ ~AllDec(lt) \/ DecVal(lt, 0) > 8 * Len(a.v) THEN [ok |-> "no"]
          ELSE IF CidrHasHostBits(a.v, DecVal(lt, 0)) THEN [ok |-> "no"]
          ELSE [ok |-> "yes", v |-> Item(a.v, a.v, DecVal(lt, 0)), n |-> n]
=============================================================================
