------------------------------- MODULE WfEval -------------------------------
(***************************************************************************)
(* L1: denotational semantics of filters and value expressions.            *)
(*                                                                         *)
(* ctx == [vals  |-> Seq(value | Nil)   aligned with sch.fields,           *)
(*         lists |-> Seq(matcher)       aligned with sch.lists]            *)
(* matcher == [kind |-> "always" | "never" | "set",                        *)
(*             sets |-> Seq([name, vals |-> Seq(value)])]                  *)
(*                                                                         *)
(* EvalB : node of static type Bool        -> BOOLEAN                      *)
(* EvalV : node of static type Array(Bool) -> Seq(BOOLEAN)                 *)
(* EvalIndexValue : index expression -> value | NilT(type)                 *)
(***************************************************************************)
EXTENDS WfSyntax, WfRegex

NilT(T) == [t |-> "nil", ty |-> T]

IdxNat(l) == IF l[1] = 0 /\ l[2] = 0 /\ l[3] < 16384 THEN l[3] * 65536 + l[4] ELSE 1073741824

MapGet(m, key) ==
  LET S == {i \in 1..Len(m.v) : m.v[i].k = key}
  IN IF S = {} THEN Nil ELSE m.v[CHOOSE i \in S : TRUE].v

(* one index step; Nil on any missing step *)
Step(v, ix) ==
  IF IsNil(v) THEN Nil
  ELSE IF ix.k = "ai" THEN IF IdxNat(ix.v) < Len(v.v) THEN v.v[IdxNat(ix.v) + 1] ELSE Nil
  ELSE MapGet(v, ix.v)

RECURSIVE GetPath(_, _)
GetPath(v, idxs) == IF idxs = <<>> THEN v ELSE GetPath(Step(v, Head(idxs)), Tail(idxs))

(* row-major flattening over [*]; elements whose remaining path is missing are skipped *)
RECURSIVE Flatten(_, _)
Flatten(v, idxs) ==
  IF IsNil(v) THEN <<>>
  ELSE IF idxs = <<>> THEN <<v>>
  ELSE IF Head(idxs).k = "each"
       THEN LET es == Elems(v) IN FlatSeq(Strict([i \in 1..Len(es) |-> Flatten(es[i], Tail(idxs))]))
       ELSE Flatten(Step(v, Head(idxs)), Tail(idxs))

----------------------------------------------------------------------------
(* comparison semantics on a present value *)
OrdHolds(op, c) ==      \* c = three-way comparison result of lhs against rhs
  IF op = "Equal" THEN c = 0 ELSE IF op = "NotEqual" THEN c # 0
  ELSE IF op = "GreaterThanEqual" THEN c >= 0 ELSE IF op = "LessThanEqual" THEN c <= 0
  ELSE IF op = "GreaterThan" THEN c > 0 ELSE c < 0

IsOrd(op) == op \in {"Equal", "NotEqual", "GreaterThanEqual", "LessThanEqual",
                     "GreaterThan", "LessThan"}

InItem(v, it) ==
  IF it.k = "int" THEN v.v = it.v
  ELSE IF it.k = "irange" THEN IntCmp(it.lo, v.v) <= 0 /\ IntCmp(v.v, it.hi) <= 0
  ELSE IF it.k = "bytes" THEN v.v = it.v
  ELSE IF it.k = "ip" THEN v.v = it.v
  ELSE IF it.k = "cidr"
       THEN Len(v.v) = Len(it.v) /\ IpCmp(CidrFirst(it.v, it.len), v.v) <= 0
            /\ IpCmp(v.v, CidrLast(it.v, it.len)) <= 0
  ELSE Len(v.v) = Len(it.lo) /\ IpCmp(it.lo, v.v) <= 0 /\ IpCmp(v.v, it.hi) <= 0

ListMatch(m, name, v) ==
  IF m.kind = "always" THEN TRUE
  ELSE IF m.kind = "never" THEN FALSE
  ELSE \E i \in 1..Len(m.sets) :
         m.sets[i].name = name /\ \E j \in 1..Len(m.sets[i].vals) : m.sets[i].vals[j] = v

CmpSem(c, v, ctx, sch) ==
  LET op == c.op r == c.rhs IN
  IF op = "IsTrue" THEN v.v
  ELSE IF IsOrd(op)
       THEN IF v.t = "ip" /\ Len(v.v) # Len(r.v) THEN op = "NotEqual"
            ELSE OrdHolds(op, LexCmp(v.v, r.v))
  ELSE IF op = "BitwiseAnd" THEN IntAndNZ(v.v, r.v)
  ELSE IF op = "Contains" THEN Occurs(r.v, v.v)
  ELSE IF op = "Matches" THEN ReMatches(r.re, v.v)
  ELSE IF op = "Wildcard" THEN WildMatch(r.v, v.v, FALSE)
  ELSE IF op = "Strict Wildcard" THEN WildMatch(r.v, v.v, TRUE)
  ELSE IF op = "OneOf" THEN \E i \in 1..Len(r.items) : InItem(v, r.items[i])
  ELSE ListMatch(ctx.lists[ListIdx(sch, TypeOf(v))], r.name, v)

NilDefault(c, sch) == c.op = "NotEqual" /\ sch.nne

----------------------------------------------------------------------------
(* the harness function family (and the built-in concat) *)
TyCode(T) == IF T.k = "Bool" THEN <<66>> ELSE IF T.k = "Int" THEN <<73>>
             ELSE IF T.k = "Ip" THEN <<80>> ELSE IF T.k = "Bytes" THEN <<89>>
             ELSE IF T.k = "Array" THEN <<65>> ELSE <<77>>
RECURSIVE TyCodeFull(_)
TyCodeFull(T) == IF IsPrim(T) THEN TyCode(T) ELSE TyCode(T) \o TyCodeFull(T.e)
Show(a) == IF IsNil(a) THEN <<126>> \o TyCodeFull(a.ty) ELSE a.v      \* Bytes arguments
LowByte(l) == l[4] % 256
Reverse(s) == Strict([i \in 1..Len(s) |-> s[Len(s) + 1 - i]])

FnSem(sem, a) ==
  IF sem \in {"idb", "idi", "ida", "fld_only", "bb", "idip"} THEN (IF IsNil(a[1]) THEN Nil ELSE a[1])
  ELSE IF sem = "drop_empty" THEN IF IsNil(a[1]) \/ a[1].v = <<>> THEN Nil ELSE a[1]
  ELSE IF sem = "blen" THEN IF IsNil(a[1]) THEN Nil ELSE VInt(IntOfNat(Len(a[1].v)))
  ELSE IF sem = "alen" THEN IF IsNil(a[1]) THEN Nil ELSE VInt(IntOfNat(Len(a[1].v)))
  ELSE IF sem = "pair" THEN VBytes(Show(a[1]) \o <<124>> \o Show(a[2]))
  ELSE IF sem = "join3" THEN VBytes(Show(a[1]) \o <<124>> \o Show(a[2]) \o <<124>> \o Show(a[3]))
  ELSE IF sem = "plen" THEN VInt(IntOfNat(Len(Show(a[1])) + Len(Show(a[2]))))     \* two byte strings -> Int
  ELSE IF sem = "opt2"
       THEN VBytes(Show(a[1]) \o <<124>> \o Show(a[2]) \o <<124>>
                   \o (IF IsNil(a[3]) THEN <<126>> ELSE <<LowByte(a[3].v)>>))
  ELSE IF sem = "lit_only"
       THEN VBytes(Show(a[1]) \o <<124>> \o (IF IsNil(a[2]) THEN <<126>> ELSE <<LowByte(a[2].v)>>))
  ELSE IF sem = "ba" THEN IF IsNil(a[1]) THEN Nil ELSE VArr(TBool, <<a[1]>>)
  ELSE IF sem = "ab" THEN IF IsNil(a[1]) THEN Nil
                          ELSE VBool(Len(a[1].v) > 0 /\ a[1].v[1].v)
  ELSE IF sem = "aa" THEN IF IsNil(a[1]) THEN Nil ELSE VArr(TBool, Reverse(a[1].v))
  ELSE IF sem = "concat"
       THEN LET ps == SelectSeqNN(a) IN
            IF ps = <<>> THEN Nil
            ELSE IF ps[1].t = "bytes"
                 THEN VBytes(FlatSeq(Strict([i \in 1..Len(ps) |-> ps[i].v])))
                 ELSE VArr(ps[1].e, FlatSeq(Strict([i \in 1..Len(ps) |-> ps[i].v])))
  ELSE IF sem = "both" THEN IF IsNil(a[1]) \/ IsNil(a[2]) THEN Nil ELSE VBool(a[1].v /\ a[2].v)
  ELSE IF sem = "ctxfn" THEN VInt(IntOfNat(Len(a)))
  ELSE Nil

----------------------------------------------------------------------------
RECURSIVE EvalB(_, _, _), EvalV(_, _, _), EvalIndexValue(_, _, _), EvalBase(_, _, _),
          EvalCall(_, _, _), EvalArgValue(_, _, _)

FieldVal(name, ctx, sch) == ctx.vals[FieldIdx(sch, name)]

EvalBase(id, ctx, sch) ==
  IF id.k = "field" THEN FieldVal(id.name, ctx, sch) ELSE EvalCall(id, ctx, sch)

(* the value of an index expression used as a value (CompiledValueExpr) *)
EvalIndexValue(ie, ctx, sch) ==
  LET base == EvalBase(ie.id, ctx, sch)
      mec == MapEachCount(ie)
      n == Len(ie.idx)
      T == TyIndex(ie, sch)
  IN IF mec = 0
     THEN LET v == GetPath(base, ie.idx) IN IF IsNil(v) THEN NilT(T) ELSE v
     ELSE IF mec = 1 /\ ie.idx[n].k = "each"
          THEN LET v == GetPath(base, SubSeq(ie.idx, 1, n - 1))
               IN IF IsNil(v) THEN NilT(TArr(T)) ELSE v
          ELSE IF IsNil(base) THEN NilT(TArr(T)) ELSE VArr(T, Flatten(base, ie.idx))

EvalArgValue(a, ctx, sch) ==
  IF a.k = "aidx" THEN EvalIndexValue(a.e, ctx, sch)
  ELSE IF a.k = "alit" THEN LitValue(a.v)
  ELSE IF TyLogical(a.e, sch) = TBool THEN VBool(EvalB(a.e, ctx, sch))
  ELSE LET bs == EvalV(a.e, ctx, sch) IN VArr(TBool, Strict([i \in 1..Len(bs) |-> VBool(bs[i])]))

EvalCall(c, ctx, sch) ==
  LET f == FuncOf(sch, c.name)
      n == Len(c.args)
      defs == IF IsVariadic(f) \/ Len(f.params) + Len(f.opts) <= n THEN <<>>
              ELSE Strict([i \in 1..(Len(f.params) + Len(f.opts) - n) |->
                      f.opts[n - Len(f.params) + i].def])
  IN IF n > 0 /\ ArgMapEach(c.args[1]) > 0
     THEN LET first == EvalIndexValue(c.args[1].e, ctx, sch)
              rest == Strict([i \in 1..(n - 1) |-> EvalArgValue(c.args[i + 1], ctx, sch)])
          IN IF IsNil(first) THEN Nil
             ELSE LET es == Elems(first)
                      rs == Strict([i \in 1..Len(es) |-> FnSem(f.sem, <<es[i]>> \o rest \o defs)])
                  IN VArr(RetType(c, sch), SelectSeqNN(rs))
     ELSE FnSem(f.sem, Strict([i \in 1..n |-> EvalArgValue(c.args[i], ctx, sch)]) \o defs)

(* The invocations of the called function itself while a call is evaluated (property C03): one argument tuple  *)
(* per invocation, in order.  Source order of the arguments, literals as written, omitted optional parameters   *)
(* replaced by their defaults, an argument without a value passed as an absence; with [*] on the first argument *)
(* one invocation per element, in element order, all with the same remaining arguments; an absent container     *)
(* means no invocation at all.                                                                                  *)
CallLog(c, ctx, sch) ==
  LET f == FuncOf(sch, c.name)
      n == Len(c.args)
      defs == IF IsVariadic(f) \/ Len(f.params) + Len(f.opts) <= n THEN <<>>
              ELSE Strict([i \in 1..(Len(f.params) + Len(f.opts) - n) |-> f.opts[n - Len(f.params) + i].def])
  IN IF n > 0 /\ ArgMapEach(c.args[1]) > 0
     THEN LET first == EvalIndexValue(c.args[1].e, ctx, sch)
              rest == Strict([i \in 1..(n - 1) |-> EvalArgValue(c.args[i + 1], ctx, sch)])
          IN IF IsNil(first) THEN <<>>
             ELSE LET es == Elems(first) IN Strict([i \in 1..Len(es) |-> <<es[i]>> \o rest \o defs])
     ELSE <<Strict([i \in 1..n |-> EvalArgValue(c.args[i], ctx, sch)]) \o defs>>

(* element sequence a comparison is applied to when its lhs is vector-valued *)
CmpElems(c, ctx, sch) ==
  LET base == EvalBase(c.lhs.id, ctx, sch)
  IN IF MapEachCount(c.lhs) > 0 THEN Flatten(base, c.lhs.idx)
     ELSE LET v == GetPath(base, c.lhs.idx) IN IF IsNil(v) THEN <<>> ELSE Elems(v)

XorAll(bs) == (Cardinality({i \in 1..Len(bs) : bs[i]}) % 2) = 1

EvalB(n, ctx, sch) ==
  IF n.k = "comb"
  THEN IF n.op = "And" THEN \A i \in 1..Len(n.items) : EvalB(n.items[i], ctx, sch)
       ELSE IF n.op = "Or" THEN \E i \in 1..Len(n.items) : EvalB(n.items[i], ctx, sch)
       ELSE XorAll(Strict([i \in 1..Len(n.items) |-> EvalB(n.items[i], ctx, sch)]))
  ELSE IF n.k = "cmp"
       THEN LET v == GetPath(EvalBase(n.lhs.id, ctx, sch), n.lhs.idx)
            IN IF IsNil(v) THEN NilDefault(n, sch) ELSE CmpSem(n, v, ctx, sch)
  ELSE IF n.k = "paren" THEN EvalB(n.e, ctx, sch)
  ELSE IF n.k = "not" THEN ~EvalB(n.e, ctx, sch)
  ELSE IF n.arg.k = "aidx"                                  \* quantifier, direct array argument
       THEN LET v == EvalIndexValue(n.arg.e, ctx, sch)
            IN IF IsNil(v) THEN FALSE
               ELSE IF n.op = "any" THEN \E i \in 1..Len(v.v) : v.v[i].v
               ELSE \A i \in 1..Len(v.v) : v.v[i].v
  ELSE LET bs == EvalV(n.arg.e, ctx, sch)                   \* quantifier over a logical argument
       IN IF n.op = "any" THEN \E i \in 1..Len(bs) : bs[i] ELSE \A i \in 1..Len(bs) : bs[i]

EvalV(n, ctx, sch) ==
  IF n.k = "comb"
  THEN LET vs == Strict([i \in 1..Len(n.items) |-> EvalV(n.items[i], ctx, sch)])
           m == LET S == {Len(vs[i]) : i \in 1..Len(vs)} IN SetMin(S)
           At(j) == Strict([i \in 1..Len(vs) |-> vs[i][j]])
       IN Strict([j \in 1..m |->
             IF n.op = "And" THEN \A i \in 1..Len(vs) : vs[i][j]
             ELSE IF n.op = "Or" THEN \E i \in 1..Len(vs) : vs[i][j]
             ELSE XorAll(At(j))])
  ELSE IF n.k = "cmp"
       THEN LET es == CmpElems(n, ctx, sch) IN Strict([i \in 1..Len(es) |-> CmpSem(n, es[i], ctx, sch)])
  ELSE IF n.k = "paren" THEN EvalV(n.e, ctx, sch)
  ELSE LET bs == EvalV(n.e, ctx, sch) IN Strict([i \in 1..Len(bs) |-> ~bs[i]])     \* not

(* Filter::execute on a context whose mandatory fields are set *)
EvalFilter(node, ctx, sch) == EvalB(node, ctx, sch)
(* FilterValue::execute : value of the static type, or absence tagged with that type *)
EvalValue(ie, ctx, sch) == EvalIndexValue(ie, ctx, sch)
=============================================================================
