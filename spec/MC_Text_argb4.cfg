CONSTANTS
  MaxAtoms = 4
  Set = "argb"
SPECIFICATION Spec
INVARIANTS Emit
CHECK_DEADLOCK FALSE
