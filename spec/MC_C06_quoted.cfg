CONSTANTS
  MaxLen = 5
  Kind = "quoted"
SPECIFICATION Spec
INVARIANTS ConsumedInRange Emit
CHECK_DEADLOCK FALSE
