------------------------------ MODULE WfPanic -------------------------------
(***************************************************************************)
(* State machine of the panic catcher (property C19), N threads.           *)
(*                                                                         *)
(* Each thread runs a script: a sequence over                              *)
(*   enable  disable  enter  genter  ret  panic  swallow  sethook  cont  bt *)
(* where enter/ret bracket a catch_panic(|| ...) body (genter: a body that *)
(* owns a clean-up guard which itself calls catch_panic when the frame is  *)
(* left, also in the middle of unwinding - see WfPanicSeq).  One script step is *)
(* one atomic step of that thread (all catcher state except the "hook      *)
(* installed" flag is thread-local).                                       *)
(*                                                                         *)
(* Per thread: enabled flag, level (number of *catching* frames), last     *)
(* recorded message bt, fallback mode, the frame stack (each frame         *)
(* remembers whether it was catching - decided when it was entered - and   *)
(* where its body ends), the observations made so far and the number of    *)
(* panics that fell through to the previously installed hook.              *)
(*                                                                         *)
(* The precondition of C19 is that the hook is installed (hookSet).        *)
(* The racy first installation is modelled in WfPanicInstall.              *)
(***************************************************************************)
EXTENDS WfPanicSeq

CONSTANTS NThreads,      \* number of threads
          MaxLen,        \* maximal script length
          Ops            \* operation alphabet

Threads == 1..NThreads

VARIABLES Scripts,       \* Scripts[t] = script of thread t (chosen in Init, then constant)
          pc, frames, enabled, level, bt, obs, sent, status, sched, lvlog
vars == <<Scripts, pc, frames, enabled, level, bt, obs, sent, status, sched, lvlog>>

Op(t) == Scripts[t][pc[t]]
MsgOf(t, i) == 100 * t + i                       \* unique message of the panic at position i

MatchRet(t, i) == MatchFrom(Scripts[t], i + 1, 0)

(* scripts: every sequence of at most MaxLen steps that never returns from a frame it has not entered; frames  *)
(* still open at the end are closed by appended returns (so a script of MaxLen written steps may nest MaxLen   *)
(* frames deep, e.g. enable, enter, disable, enter, panic)                                                     *)
PrefixOK(s) == \A j \in 1..Len(s) :
                 Cardinality({x \in 1..j : s[x] = "ret"}) <= Cardinality({x \in 1..j : IsEnter(s[x])})
Opens(s) == Cardinality({x \in 1..Len(s) : IsEnter(s[x])}) - Cardinality({x \in 1..Len(s) : s[x] = "ret"})
Close(s) == s \o [i \in 1..Opens(s) |-> "ret"]
(* (with several threads, where every interleaving is explored, only the scripts that are balanced as written) *)
ScriptSet == IF Cardinality(Threads) = 1
             THEN {Close(s) : s \in {q \in UNION {[1..n -> Ops] : n \in 0..MaxLen} : PrefixOK(q)}}
             ELSE {s \in UNION {[1..n -> Ops] : n \in 0..MaxLen} : WellBracketed(s)}

Init == /\ Scripts \in [Threads -> ScriptSet]
        /\ lvlog = [t \in Threads |-> <<>>]
        /\ pc = [t \in Threads |-> 1]
        /\ frames = [t \in Threads |-> <<>>]
        /\ enabled = [t \in Threads |-> FALSE]
        /\ level = [t \in Threads |-> 0]
        /\ bt = [t \in Threads |-> 0]              \* 0 = no message recorded yet
        /\ obs = [t \in Threads |-> <<>>]
        /\ sent = [t \in Threads |-> 0]
        /\ status = [t \in Threads |-> "run"]
        /\ sched = <<>>

Running(t) == status[t] = "run" /\ pc[t] <= Len(Scripts[t])

(* unwinding: pop frames down to and including the innermost catching one *)
PanicStep(t) ==
  LET m == MsgOf(t, pc[t])
      caught == level[t] > 0                      \* what the hook decides
      fs == frames[t]
      C == CatchingIdx(fs)
  IN /\ bt' = IF caught THEN [bt EXCEPT ![t] = m] ELSE bt
     /\ sent' = IF caught THEN sent ELSE [sent EXCEPT ![t] = @ + 1]   \* forwarded to the previous hook
     /\ IF C = {}
        THEN \* nothing catches: the panic escapes the thread
             /\ status' = [status EXCEPT ![t] = "escaped"]
             /\ obs' = [obs EXCEPT ![t] = (@ \o GuardObs(fs, 1, Len(fs))) \o <<[k |-> "escaped", m |-> m]>>]
             /\ frames' = [frames EXCEPT ![t] = <<>>]
             /\ UNCHANGED <<pc, level>>
        ELSE LET i == CHOOSE x \in C : \A y \in C : y <= x IN      \* innermost catching frame
             /\ frames' = [frames EXCEPT ![t] = SubSeq(fs, 1, i - 1)]
             /\ level' = [level EXCEPT ![t] = @ - 1]
             \* catch_panic returns Err(text of the last recorded message)
             \* (the guards of the frames unwound run first, innermost first: nested catch_panic calls that return normally)
             /\ obs' = [obs EXCEPT ![t] = (@ \o GuardObs(fs, i, Len(fs))) \o <<[k |-> "err", m |-> (IF caught THEN m ELSE bt[t])]>>]
             /\ pc' = [pc EXCEPT ![t] = fs[i].retpc + 1]
             /\ UNCHANGED status
     /\ UNCHANGED enabled

(* a panic recovered from on the spot by a plain catch_unwind (no catcher frame): only the hook sees it *)
SwallowStep(t) ==
  LET m == MsgOf(t, pc[t])
      caught == level[t] > 0
  IN /\ bt' = IF caught THEN [bt EXCEPT ![t] = m] ELSE bt
     /\ sent' = IF caught THEN sent ELSE [sent EXCEPT ![t] = @ + 1]
     /\ pc' = [pc EXCEPT ![t] = @ + 1]
     /\ UNCHANGED <<frames, enabled, level, obs, status>>

Step(t) ==
  /\ Running(t)
  /\ sched' = Append(sched, t)
  /\ UNCHANGED Scripts
  /\ LET o == Op(t) IN
     IF o = "panic" THEN PanicStep(t)
     ELSE IF o = "swallow" THEN SwallowStep(t)
     ELSE /\ pc' = [pc EXCEPT ![t] = @ + 1]
          /\ UNCHANGED <<sent, status>>
          /\ IF o = "enable" THEN enabled' = [enabled EXCEPT ![t] = TRUE] /\ UNCHANGED <<frames, level, bt, obs>>
             ELSE IF o = "disable" THEN enabled' = [enabled EXCEPT ![t] = FALSE] /\ UNCHANGED <<frames, level, bt, obs>>
             ELSE IF IsEnter(o)
                  THEN /\ frames' = [frames EXCEPT ![t] = Append(@, [catching |-> enabled[t], retpc |-> MatchRet(t, pc[t]), guard |-> (o = "genter")])]
                       /\ level' = IF enabled[t] THEN [level EXCEPT ![t] = @ + 1] ELSE level
                       /\ UNCHANGED <<enabled, bt, obs>>
             ELSE IF o = "ret"
                  THEN LET f == frames[t][Len(frames[t])] IN
                       /\ frames' = [frames EXCEPT ![t] = SubSeq(@, 1, Len(@) - 1)]
                       /\ level' = IF f.catching THEN [level EXCEPT ![t] = @ - 1] ELSE level
                       /\ obs' = [obs EXCEPT ![t] = (@ \o (IF f.guard THEN <<GOk>> ELSE <<>>)) \o <<[k |-> "ok", m |-> 0]>>]
                       /\ UNCHANGED <<enabled, bt>>
             ELSE IF o = "bt"
                  THEN /\ obs' = [obs EXCEPT ![t] = Append(@, [k |-> "bt", m |-> bt[t]])]
                       /\ UNCHANGED <<frames, enabled, level, bt>>
             ELSE \* sethook (already installed: no-op), cont (fallback mode Continue: already so)
                  UNCHANGED <<frames, enabled, level, bt, obs>>
  /\ lvlog' = [lvlog EXCEPT ![t] = Append(@, level'[t])]

Next == \E t \in Threads : Step(t)
Spec == Init /\ [][Next]_vars

AllDone == \A t \in Threads : ~Running(t)

(* ---- properties ------------------------------------------------------- *)
(* the level always equals the number of catching frames on the stack *)
Balance == \A t \in Threads : level[t] = Cardinality(CatchingIdx(frames[t]))

(* a caught panic is reported with the message of that very panic *)
OwnMessage == \A t \in Threads : \A i \in 1..Len(obs[t]) :
                obs[t][i].k = "err" => (obs[t][i].m \div 100 = t /\ obs[t][i].m # 0)

(* a panic falls through to the previous hook iff no catching frame is open *)
(* (counted in sent), and then it escapes the thread                        *)
EscapeIffForwarded == \A t \in Threads : (status[t] = "escaped") => sent[t] >= 1

(* sequential reference: the observations of thread t running alone *)
Alone(t) == RunAlone(Scripts[t], t)

(* thread isolation: whatever the interleaving, every thread observes what it observes alone *)
Isolation == AllDone => \A t \in Threads :
               /\ obs[t] = Alone(t).obs /\ sent[t] = Alone(t).sent /\ lvlog[t] = Alone(t).levels
               /\ (status[t] = "escaped") = (Alone(t).status = "escaped")
=============================================================================
