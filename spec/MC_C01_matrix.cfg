CONSTANTS
  MaxLen = 0
  Mode = "matrix"
SPECIFICATION Spec
INVARIANTS Emit
CHECK_DEADLOCK FALSE
