------------------------------- MODULE WfBase -------------------------------
(***************************************************************************)
(* Base vocabulary of the wirefilter specification.                        *)
(*                                                                         *)
(*  - 64-bit signed integers are sequences of four 16-bit limbs            *)
(*    <<l3,l2,l1,l0>>, l3 signed (-32768..32767), l2..l0 in 0..65535       *)
(*    (TLC's integers are 32-bit).                                         *)
(*  - byte strings are sequences of 0..255.                                *)
(*  - IP addresses are sequences of 4 (v4) or 16 (v6) octets.              *)
(*  - types are records  [k |-> "Bool"|"Int"|"Ip"|"Bytes"]  or             *)
(*    [k |-> "Array"|"Map", e |-> T].                                      *)
(*  - values are tagged records; Nil == [t |-> "nil"].                     *)
(***************************************************************************)
EXTENDS Integers, Sequences, FiniteSets, Bitwise, TLC

(* TLC evaluates [i \in S |-> e] lazily and re-evaluates e on every application; Strict   *)
(* forces it into an explicit sequence once (semantically the identity on sequences).      *)
Strict(f) == f \o <<>>

Min2(a, b) == IF a < b THEN a ELSE b
Max2(a, b) == IF a > b THEN a ELSE b

SetMin(S) == CHOOSE x \in S : \A y \in S : x <= y

(* Lexicographic three-way comparison of integer sequences: -1, 0, 1.      *)
(* A proper prefix is smaller.  Used for limbs, bytes and octets.          *)
LexCmp(a, b) ==
  LET n == Min2(Len(a), Len(b))
      d == {i \in 1..n : a[i] # b[i]}
  IN IF d = {}
     THEN IF Len(a) < Len(b) THEN -1 ELSE IF Len(a) > Len(b) THEN 1 ELSE 0
     ELSE LET i == SetMin(d) IN IF a[i] < b[i] THEN -1 ELSE 1

----------------------------------------------------------------------------
(* i64 as limbs *)
U16(x) == IF x < 0 THEN x + 65536 ELSE x
IsLimbs(a) == /\ Len(a) = 4
              /\ a[1] \in -32768..32767
              /\ \A i \in 2..4 : a[i] \in 0..65535
IntCmp(a, b)   == LexCmp(a, b)
IntAndNZ(a, b) == \E i \in 1..4 : (U16(a[i]) & U16(b[i])) # 0
IntOfNat(n)    == <<0, 0, n \div 65536, n % 65536>>     \* 0 <= n < 2^31
IntMin == <<-32768, 0, 0, 0>>
IntMax == <<32767, 65535, 65535, 65535>>
IntZero == <<0, 0, 0, 0>>
IntIsU32(a) == a[1] = 0 /\ a[2] = 0                    \* 0 .. 2^32-1
(* successor / predecessor on limbs (no overflow check; callers guard) *)
RECURSIVE IntIncAt(_, _)
IntIncAt(a, i) == IF i = 1 THEN [a EXCEPT ![1] = a[1] + 1]
                  ELSE IF a[i] = 65535 THEN IntIncAt([a EXCEPT ![i] = 0], i - 1)
                  ELSE [a EXCEPT ![i] = a[i] + 1]
IntSucc(a) == IntIncAt(a, 4)
RECURSIVE IntDecAt(_, _)
IntDecAt(a, i) == IF i = 1 THEN [a EXCEPT ![1] = a[1] - 1]
                  ELSE IF a[i] = 0 THEN IntDecAt([a EXCEPT ![i] = 65535], i - 1)
                  ELSE [a EXCEPT ![i] = a[i] - 1]
IntPred(a) == IntDecAt(a, 4)

----------------------------------------------------------------------------
(* byte strings *)
BytesCmp(a, b) == LexCmp(a, b)
IsPrefixAt(p, h, i) == /\ i + Len(p) <= Len(h)        \* p occurs in h at offset i (0-based)
                       /\ \A j \in 1..Len(p) : h[i + j] = p[j]
Occurs(p, h) == \E i \in 0..(Len(h) - Len(p)) : IsPrefixAt(p, h, i)

(* UTF-8 validity exactly as Rust's str::from_utf8 (no overlongs, no       *)
(* surrogates, max U+10FFFF).                                              *)
Cont(b) == b \in 128..191
RECURSIVE Utf8From(_, _)
Utf8From(s, i) ==
  IF i > Len(s) THEN TRUE
  ELSE LET b == s[i]
           n == Len(s)
       IN IF b <= 127 THEN Utf8From(s, i + 1)
          ELSE IF b \in 194..223
               THEN i + 1 <= n /\ Cont(s[i+1]) /\ Utf8From(s, i + 2)
          ELSE IF b = 224
               THEN i + 2 <= n /\ s[i+1] \in 160..191 /\ Cont(s[i+2]) /\ Utf8From(s, i + 3)
          ELSE IF b \in 225..236 \/ b \in 238..239
               THEN i + 2 <= n /\ Cont(s[i+1]) /\ Cont(s[i+2]) /\ Utf8From(s, i + 3)
          ELSE IF b = 237
               THEN i + 2 <= n /\ s[i+1] \in 128..159 /\ Cont(s[i+2]) /\ Utf8From(s, i + 3)
          ELSE IF b = 240
               THEN i + 3 <= n /\ s[i+1] \in 144..191 /\ Cont(s[i+2]) /\ Cont(s[i+3])
                    /\ Utf8From(s, i + 4)
          ELSE IF b \in 241..243
               THEN i + 3 <= n /\ Cont(s[i+1]) /\ Cont(s[i+2]) /\ Cont(s[i+3])
                    /\ Utf8From(s, i + 4)
          ELSE IF b = 244
               THEN i + 3 <= n /\ s[i+1] \in 128..143 /\ Cont(s[i+2]) /\ Cont(s[i+3])
                    /\ Utf8From(s, i + 4)
          ELSE FALSE
IsUtf8(s) == Utf8From(s, 1)

AsciiLower(b) == IF b \in 65..90 THEN b + 32 ELSE b

----------------------------------------------------------------------------
(* IP addresses: octet sequences; family = length *)
IpFam(a) == IF Len(a) = 4 THEN 4 ELSE 6
IpSameFam(a, b) == Len(a) = Len(b)
IpCmp(a, b) == LexCmp(a, b)                              \* only meaningful within a family
Pow2(n) == 2 ^ n
(* first / last address of the CIDR block a/len *)
CidrFirst(a, len) ==
  Strict([i \in 1..Len(a) |->
     LET hi == 8 * i IN                      \* bits covered up to and including octet i
     IF hi <= len THEN a[i]
     ELSE IF hi - 8 >= len THEN 0
     ELSE LET keep == len - (hi - 8) IN (a[i] \div Pow2(8 - keep)) * Pow2(8 - keep)])
CidrLast(a, len) ==
  Strict([i \in 1..Len(a) |->
     LET hi == 8 * i IN
     IF hi <= len THEN a[i]
     ELSE IF hi - 8 >= len THEN 255
     ELSE LET keep == len - (hi - 8) IN
          (a[i] \div Pow2(8 - keep)) * Pow2(8 - keep) + (Pow2(8 - keep) - 1)])
CidrHasHostBits(a, len) == CidrFirst(a, len) # a

----------------------------------------------------------------------------
(* types *)
TBool  == [k |-> "Bool"]
TInt   == [k |-> "Int"]
TIp    == [k |-> "Ip"]
TBytes == [k |-> "Bytes"]
TArr(e) == [k |-> "Array", e |-> e]
TMap(e) == [k |-> "Map", e |-> e]
IsPrim(T) == T.k \in {"Bool", "Int", "Ip", "Bytes"}
IsCont(T) == T.k \in {"Array", "Map"}
RECURSIVE TypeDepth(_)
TypeDepth(T) == IF IsPrim(T) THEN 0 ELSE 1 + TypeDepth(T.e)

(* values *)
Nil == [t |-> "nil"]
VBool(b)  == [t |-> "bool", v |-> b]
VInt(l)   == [t |-> "int", v |-> l]
VBytes(s) == [t |-> "bytes", v |-> s]
VIp(o)    == [t |-> "ip", v |-> o]
VArr(e, s) == [t |-> "arr", e |-> e, v |-> s]           \* e: element type, s: Seq(value)
VMap(e, s) == [t |-> "map", e |-> e, v |-> s]           \* s: Seq([k |-> bytes, v |-> value]) key-sorted
IsNil(v) == v.t = "nil"

TypeOf(v) == IF v.t = "bool" THEN TBool
             ELSE IF v.t = "int" THEN TInt
             ELSE IF v.t = "bytes" THEN TBytes
             ELSE IF v.t = "ip" THEN TIp
             ELSE IF v.t = "arr" THEN TArr(v.e)
             ELSE TMap(v.e)                              \* never applied to Nil

(* deep well-typedness of a value: every element has exactly the declared element type *)
RECURSIVE WellTyped(_)
WellTyped(v) ==
  IF v.t = "arr" THEN \A i \in 1..Len(v.v) : TypeOf(v.v[i]) = v.e /\ WellTyped(v.v[i])
  ELSE IF v.t = "map"
       THEN /\ \A i \in 1..Len(v.v) : TypeOf(v.v[i].v) = v.e /\ WellTyped(v.v[i].v)
            /\ \A i \in 1..(Len(v.v) - 1) : BytesCmp(v.v[i].k, v.v[i+1].k) < 0
  ELSE TRUE

(* the elements of a container in iteration order (arrays: index order; maps: ascending key) *)
Elems(v) == IF v.t = "arr" THEN v.v ELSE Strict([i \in 1..Len(v.v) |-> v.v[i].v])

RECURSIVE FlatSeq(_)
FlatSeq(ss) == IF ss = <<>> THEN <<>> ELSE Head(ss) \o FlatSeq(Tail(ss))

SelectSeqNN(s) == SelectSeq(s, LAMBDA x : ~IsNil(x))
=============================================================================
