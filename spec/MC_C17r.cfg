CONSTANTS
  MaxLen = 4
SPECIFICATION Spec
INVARIANTS WorldTypeOK BuiltIns Emit
CHECK_DEADLOCK FALSE
