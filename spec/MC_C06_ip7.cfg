CONSTANTS
  MaxLen = 7
  Kind = "ipitem"
SPECIFICATION Spec
INVARIANTS ConsumedInRange BlockTheorem Emit
CHECK_DEADLOCK FALSE
