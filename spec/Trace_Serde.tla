---------------------------- MODULE Trace_Serde -----------------------------
(* Trace specification for recorded context (de)serialization observations (C14).            *)
(*  "ser":   a context and the document its serialization denotes                            *)
(*  "rt":    the serialized text fed back through from_str / from_slice / from_reader /      *)
(*           a Value tree / the C API into fresh contexts                                    *)
(*  "de":    a mutated document fed through the same ways                                    *)
(*  "trunc": a strict prefix of a serialized document                                        *)
EXTENDS WfSerde, WfContext, Json, IOUtils
Schs == ndJsonDeserialize(IOEnv.SCHEMES)
Rec  == ndJsonDeserialize(IOEnv.TRACE)
VARIABLES l, nbad
vars == <<l, nbad>>
Chk(cond, msg) == IF cond THEN TRUE
                  ELSE (PrintT(<<"REJECT", l, Rec[l].id>>) /\ PrintT(<<"DETAIL", l, msg>>) /\ FALSE)
Ways == <<"str", "slice", "reader", "ffi", "value">>

SameSet(a, b) == Len(a) = Len(b) /\ \A i \in 1..Len(a) : \E j \in 1..Len(b) : a[i] = b[j]
AbsCtx(e) == [vals |-> e.vals, lists |-> e.lists]
CtxTypeOK(sch, c) == \A i \in 1..Len(c.vals) :
                        IsNil(c.vals[i]) \/ (TypeOf(c.vals[i]) = sch.fields[i].ty /\ WellTyped(c.vals[i]))
Fresh(sid) == LET c == NewCtx(Schs, sid) IN [vals |-> c.vals, lists |-> c.lists]

CheckSer(e) ==
  LET sch == Schs[e.sch] IN
  /\ Chk(e.well_formed, "serialized context is not a JSON document")
  /\ e.well_formed =>
       /\ Chk(e.same_value, "to_string and to_value disagree")
       /\ Chk(SameSet(e.fields, EncFields(sch, e.ctx)), <<"field entries, expected", EncFields(sch, e.ctx)>>)
       /\ Chk(e.haslists = (Len(sch.lists) > 0), "$lists present iff the scheme has lists")
       /\ e.haslists => Chk(e.lists = EncLists(sch, e.ctx), <<"$lists, expected", EncLists(sch, e.ctx)>>)

CheckRt(e) ==
  \A i \in 1..5 :
    LET g == e.ways[Ways[i]] IN
    g.out = "skipped" \/
    ( /\ Chk(g.out = "ok", <<"round trip via", Ways[i], "outcome", g.out>>)
      /\ g.out = "ok" => Chk(g.ctx.vals = e.ctx.vals /\ g.ctx.lists = e.ctx.lists,
                             <<"round trip via", Ways[i], "changed the context; observed", g.ctx>>) )

CheckDe(e) ==
  LET sch == Schs[e.sch]
      r  == DecEntries(sch, e.entries, Fresh(e.sch))
      rv == DecEntries(sch, e.ventries, Fresh(e.sch))
  IN \A i \in 1..5 :
       LET g == e.ways[Ways[i]]
           x == IF Ways[i] = "value" THEN rv ELSE r IN
       g.out = "skipped" \/
       ( /\ Chk(g.out # "panic", <<"deserializer panicked via", Ways[i]>>)
         /\ g.out # "panic" =>
              /\ Chk((g.out = "ok") = (e.top = "obj" /\ x.ok),
                     <<"verdict via", Ways[i], "spec says ok =", e.top = "obj" /\ x.ok, "observed", g.out>>)
              /\ Chk(CtxTypeOK(sch, g.ctx), <<"a value of the wrong type was stored via", Ways[i]>>)
              /\ (g.out = "ok" /\ e.top = "obj" /\ x.ok) =>
                   Chk(g.ctx.vals = x.ctx.vals /\ g.ctx.lists = x.ctx.lists,
                       <<"decoded context via", Ways[i], "expected", x.ctx, "observed", g.ctx>>) )

CheckTrunc(e) ==
  \A i \in 1..5 :
    LET g == e.ways[Ways[i]] IN
    g.out = "skipped" \/
    ( /\ Chk(g.out = "err", <<"truncated document via", Ways[i], "outcome", g.out>>)
      /\ g.out # "panic" => Chk(CtxTypeOK(Schs[e.sch], g.ctx), "wrong-typed value stored from a truncated document") )

Init == l = 1 /\ nbad = 0
Next == /\ l <= Len(Rec)
        /\ LET e == Rec[l]
               good == IF e.ev = "ser" THEN CheckSer(e) ELSE IF e.ev = "rt" THEN CheckRt(e)
                       ELSE IF e.ev = "de" THEN CheckDe(e) ELSE CheckTrunc(e)
           IN nbad' = IF good THEN nbad ELSE nbad + 1
        /\ l' = l + 1
Spec == Init /\ [][Next]_vars
Accepted == IF TLCGet("stats").diameter = Len(Rec) + 1 THEN PrintT(<<"TRACE-CONSUMED", Len(Rec)>>)
            ELSE (PrintT(<<"TRACE-STUCK-AT", TLCGet("stats").diameter, "of", Len(Rec)>>) /\ FALSE)
=============================================================================
