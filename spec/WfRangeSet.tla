----------------------------- MODULE WfRangeSet ------------------------------
(***************************************************************************)
(* L2: transcription of engine/src/range_set.rs over naturals.             *)
(*   RangeSet::from : sort by start; dedup_by merge (a = last kept range,  *)
(*                    b = next: if b.lo <= a.hi then { if b.hi > a.hi then *)
(*                    a.hi := b.hi; drop b } else keep b)                  *)
(*   contains       : binary search with the three-way comparison          *)
(*                    start > x -> Greater | end >= x -> Equal | Less      *)
(* L1: Member(x, ranges) == \E r : r.lo <= x /\ x <= r.hi                  *)
(* Theorem (checked by TLC for every list in the bound):                   *)
(*   RsContains(Normalise(rs), x) = Member(x, rs), and the normal form is    *)
(*   sorted, pairwise disjoint and non-touching-overlap free.              *)
(***************************************************************************)
EXTENDS Naturals, Sequences, SequencesExt, FiniteSets

Member(x, rs) == \E i \in 1..Len(rs) : rs[i].lo <= x /\ x <= rs[i].hi

SortByStart(rs) == SortSeq(rs, LAMBDA a, b : a.lo < b.lo)

RECURSIVE Merge(_, _)
Merge(kept, rest) ==          \* kept: non-empty result so far; rest: ranges still to visit
  IF rest = <<>> THEN kept
  ELSE LET a == kept[Len(kept)] b == Head(rest) IN
       IF b.lo <= a.hi
       THEN Merge(IF b.hi > a.hi THEN [kept EXCEPT ![Len(kept)] = [lo |-> a.lo, hi |-> b.hi]] ELSE kept, Tail(rest))
       ELSE Merge(Append(kept, b), Tail(rest))
Normalise(rs) == LET s == SortByStart(rs) IN IF s = <<>> THEN <<>> ELSE Merge(<<Head(s)>>, Tail(s))

RECURSIVE BSearch(_, _, _, _)
BSearch(ns, x, left, right) ==          \* search in ns[left+1 .. right]
  IF left >= right THEN FALSE
  ELSE LET mid == (left + right) \div 2
           r == ns[mid + 1] IN
       IF r.lo > x THEN BSearch(ns, x, left, mid)
       ELSE IF r.hi >= x THEN TRUE
       ELSE BSearch(ns, x, mid + 1, right)
RsContains(ns, x) == BSearch(ns, x, 0, Len(ns))

NormalForm(ns) == \A i \in 1..(Len(ns) - 1) : ns[i].lo <= ns[i].hi /\ ns[i].hi < ns[i + 1].lo
=============================================================================
