CONSTANTS
  MaxLen = 5
  Mode = "chain"
SPECIFICATION Spec
INVARIANTS ParserSound PrecOk Emit
CHECK_DEADLOCK FALSE
