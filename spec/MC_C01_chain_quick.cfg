CONSTANTS
  MaxLen = 5
  Mode = "chain"
SPECIFICATION Spec
INVARIANTS ParserSound PrecOk TextAgrees Emit
CHECK_DEADLOCK FALSE
