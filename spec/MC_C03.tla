------------------------------- MODULE MC_C03 -------------------------------
(* Bounded model of function calls (property C03): every call of every function of the family    *)
(* with each argument drawn from a set of argument shapes of the right and of wrong kinds/types   *)
(* (field, index path, out-of-range path, literal, nested call, parenthesised logical, map-each   *)
(* path), nested to depth 2.  Each call is emitted as a value expression (parse_value) and        *)
(* inside a comparison; expected verdicts from the L2 parser (arity, kind, type, [*] only in the  *)
(* first argument), expected values from EvalCall / FnSem (defaults appended, typed absence,      *)
(* per-element application with absent results dropped, concat).                                  *)
EXTENDS WfParser, WfEval, WfJson, Json
CONSTANT Part
VARIABLES cas
AB == TArr(TBool)
AI == TArr(TInt)
ABY == TArr(TBytes)
Fld(n, t) == [name |-> n, ty |-> t, opt |-> TRUE]
P(k, t) == [kind |-> k, ty |-> t]
Fn(n, ps, os, rt) == [name |-> n, sem |-> n, params |-> ps, opts |-> os, ret |-> rt]
Funcs == << Fn("idb", <<P("Both", TBytes)>>, <<>>, TBytes), Fn("idi", <<P("Both", TInt)>>, <<>>, TInt),
            Fn("drop_empty", <<P("Field", TBytes)>>, <<>>, TBytes), Fn("blen", <<P("Both", TBytes)>>, <<>>, TInt),
            Fn("alen", <<P("Field", AI)>>, <<>>, TInt), Fn("pair", <<P("Both", TBytes), P("Both", TBytes)>>, <<>>, TBytes),
            Fn("opt2", <<P("Both", TBytes)>>, <<[kind |-> "Both", def |-> VBytes(<<100, 49>>)], [kind |-> "Literal", def |-> VInt(IntOfNat(7))]>>, TBytes),
            Fn("lit_only", <<P("Field", TBytes), P("Literal", TInt)>>, <<>>, TBytes), Fn("fld_only", <<P("Field", TInt)>>, <<>>, TInt),
            Fn("bb", <<P("Field", TBool)>>, <<>>, TBool), Fn("ba", <<P("Field", TBool)>>, <<>>, AB),
            Fn("ab", <<P("Field", AB)>>, <<>>, TBool), Fn("aa", <<P("Field", AB)>>, <<>>, AB),
            Fn("both", <<P("Field", TBool), P("Field", TBool)>>, <<>>, TBool),
            Fn("concat", <<>>, <<>>, TBytes), Fn("ctxfn", <<>>, <<>>, TInt),
            Fn("plen", <<P("Both", TBytes), P("Both", TBytes)>>, <<>>, TInt),         \* two arguments, result type differs from both
            Fn("join3", <<P("Both", TBytes), P("Both", TBytes), P("Both", TBytes)>>, <<>>, TBytes) >>   \* three arguments: a cheap and an expensive one after a mapped one
Sch == [fields |-> <<Fld("i", TInt), Fld("s", TBytes), Fld("b1", TBool), Fld("ai", AI), Fld("abytes", ABY), Fld("mbytes", TMap(TBytes)), Fld("vb", AB), Fld("ai2", AI)>>,
        funcs |-> Funcs, lists |-> <<TInt>>, listkinds |-> <<"set">>, nne |-> TRUE]
I(n) == VInt(IntOfNat(n))
B(s) == VBytes(s)
L1 == <<[kind |-> "set", sets |-> <<[name |-> <<108, 49>>, vals |-> <<I(1)>>]>>]>>
Ctxs == << [sch |-> 1, vals |-> <<I(1), B(<<97>>), VBool(TRUE), VArr(TInt, <<I(1), I(2)>>), VArr(TBytes, <<B(<<97>>), B(<<>>), B(<<98, 99>>), B(<<100>>)>>),
                                   VMap(TBytes, <<[k |-> <<107>>, v |-> B(<<120>>)], [k |-> <<122>>, v |-> B(<<>>)]>>), VArr(TBool, <<VBool(FALSE), VBool(TRUE)>>),
                                   VArr(TInt, <<I(9)>>)>>, lists |-> L1],
            [sch |-> 1, vals |-> <<I(7), B(<<>>), VBool(FALSE), VArr(TInt, <<>>), VArr(TBytes, <<>>), VMap(TBytes, <<>>), VArr(TBool, <<>>), VArr(TInt, <<>>)>>, lists |-> L1],
            [sch |-> 1, vals |-> <<Nil, Nil, Nil, Nil, Nil, Nil, Nil, Nil>>, lists |-> L1],
            \* mixed presence: s, ai, mbytes absent; abytes, ai2 present
            [sch |-> 1, vals |-> <<I(1), Nil, VBool(TRUE), Nil, VArr(TBytes, <<B(<<97>>)>>), Nil, Nil, VArr(TInt, <<I(5), I(6)>>)>>, lists |-> L1],
            \* an empty array first, a non-empty one later (concat must not stop at the empty one)
            [sch |-> 1, vals |-> <<I(2), B(<<120>>), VBool(TRUE), VArr(TInt, <<>>), VArr(TBytes, <<>>), VMap(TBytes, <<>>), VArr(TBool, <<>>), VArr(TInt, <<I(5)>>)>>, lists |-> L1],
            \* the other way round
            [sch |-> 1, vals |-> <<Nil, B(<<115>>), Nil, VArr(TInt, <<I(3)>>), Nil, VMap(TBytes, <<[k |-> <<107>>, v |-> B(<<121>>)]>>), Nil, Nil>>, lists |-> L1] >>
Id(n) == [k |-> "id", name |-> n]
LP == [k |-> "lp"]
RP == [k |-> "rp"]
CM == [k |-> "comma"]
Ix(n) == <<[k |-> "lb"], [k |-> "int", v |-> IntOfNat(n), txt |-> ToString(n)], [k |-> "rb"]>>
Each == <<[k |-> "lb"], [k |-> "star"], [k |-> "rb"]>>
Key == <<[k |-> "lb"], [k |-> "bytes", v |-> <<107>>, form |-> "q", txt |-> "\"k\""], [k |-> "rb"]>>
LitB == [k |-> "bytes", v |-> <<120, 121>>, form |-> "q", txt |-> "\"xy\""]
LitI == [k |-> "int", v |-> IntOfNat(5), txt |-> "5"]
LitIp == [k |-> "ip", v |-> <<1, 2, 3, 4>>, txt |-> "1.2.3.4"]
Eq1 == <<[k |-> "ord", v |-> "eq", a |-> 1], [k |-> "int", v |-> IntOfNat(1), txt |-> "1"]>>
(* argument shapes (token sequences); the type in the comment is what the shape evaluates to *)
ArgShapes == << <<Id("s")>>,                                  \* 1  Bytes field
                <<Id("abytes")>> \o Ix(0),                   \* 2  Bytes via index
                <<Id("abytes")>> \o Ix(9),                   \* 3  Bytes, out of range (typed absence)
                <<Id("mbytes")>> \o Key,                     \* 4  Bytes via key
                <<LitB>>,                                    \* 5  Bytes literal
                <<Id("idb"), LP, Id("s"), RP>>,              \* 6  nested call -> Bytes
                <<Id("drop_empty"), LP, Id("s"), RP>>,       \* 7  nested call -> Bytes or absent
                <<Id("abytes")>> \o Each,                    \* 8  map-each over an array of Bytes
                <<Id("mbytes")>> \o Each,                    \* 9  map-each over a map of Bytes
                <<Id("i")>>,                                 \* 10 Int field
                <<LitI>>,                                    \* 11 Int literal
                <<Id("blen"), LP, Id("s"), RP>>,             \* 12 nested call -> Int
                <<Id("ai")>> \o Each,                        \* 13 map-each over Int
                <<Id("ai")>>,                                \* 14 Array(Int)
                <<Id("b1")>>,                                \* 15 Bool field
                <<LP, Id("b1"), [k |-> "lop", v |-> "or", a |-> 0], Id("i")>> \o Eq1 \o <<RP>>,    \* 16 logical -> Bool
                <<[k |-> "not", a |-> 0], Id("b1")>>,        \* 17 logical -> Bool
                <<Id("i")>> \o Eq1,                          \* 18 bare comparison -> Bool
                <<Id("vb")>>,                                \* 19 Array(Bool) field
                <<LP, Id("ai")>> \o Each \o Eq1 \o <<RP>>,  \* 20 logical -> Array(Bool)
                <<LitIp>>,                                   \* 21 Ip literal
                <<Id("ai2")>>,                               \* 22 another Array(Int) field
                <<LP, Id("i"), [k |-> "in"], [k |-> "list", name |-> <<108, 49>>, valid |-> TRUE, txt |-> "$l1"], RP>>,  \* 23 list comparison -> Bool
                <<Id("idb"), LP, Id("abytes")>> \o Each \o <<RP>> \o Each >>   \* 24 map-each over the array produced by a mapped call
NS == Len(ArgShapes)
RECURSIVE Join(_)
Join(args) == IF args = <<>> THEN <<>> ELSE IF Len(args) = 1 THEN ArgShapes[args[1]]
              ELSE ArgShapes[args[1]] \o <<CM>> \o Join(Tail(args))
CallToks(f, args) == <<Id(Funcs[f].name), LP>> \o Join(args) \o <<RP>>
Arities(f) == IF Funcs[f].name = "concat" THEN {2, 3} ELSE IF Funcs[f].name = "ctxfn" THEN {0, 1, 2}
              ELSE (Len(Funcs[f].params) - 1)..(Len(Funcs[f].params) + Len(Funcs[f].opts) + 1) \cap 0..3
(* shapes used per position keep the product small but cover right / wrong kind, type, absence, map-each *)
First == {1, 2, 3, 5, 6, 7, 8, 9, 10, 11, 13, 14, 15, 16, 18, 19, 20, 23, 24}
Later == {1, 3, 5, 7, 8, 10, 11, 12, 15, 17, 21, 23}
(* concat additionally takes whole arrays in every position *)
FirstFor(f) == IF Funcs[f].name = "concat" THEN First \cup {22} ELSE First
LaterFor(f) == IF Funcs[f].name = "concat" THEN Later \cup {14, 22} ELSE Later
Calls == UNION {UNION {{<<f, args>> : args \in {a \in [1..n -> 1..NS] : (n >= 1 => a[1] \in FirstFor(f)) /\ \A j \in 2..n : a[j] \in LaterFor(f)}} : n \in Arities(f)} : f \in 1..Len(Funcs)}
(* Part 0..3: functions by index modulo 4; Part 10 + f: the calls of function f only *)
PartOf(c) == IF Part >= 10 THEN c[1] = Part - 10 ELSE (c[1] % 4) = Part
Init == cas \in {c \in Calls : PartOf(c)}
Next == FALSE /\ UNCHANGED cas
Spec == Init /\ [][Next]_cas
CT == CallToks(cas[1], cas[2])
(* uses / uses_list of every field and of an unknown name (property C12) *)
UsesOf(IsUsed(_), IsUsedList(_)) ==
  Strict([j \in 1..Len(Sch.fields) |-> [f |-> Sch.fields[j].name, out |-> "ok", uses |-> IsUsed(Sch.fields[j].name),
                                         list |-> IsUsedList(Sch.fields[j].name)]])
  \o <<[f |-> "nosuch", out |-> "err", uses |-> FALSE, list |-> FALSE], [f |-> "idb", out |-> "err", uses |-> FALSE, list |-> FALSE]>>
(* the invocation log of the called function is compared when its name does not occur again among its arguments *)
IdFamily == {"idb", "idi", "fld_only", "bb"}          \* one implementation (identity) in the harness, logged under one name
NestedSame == \E j \in 1..Len(cas[2]) : (cas[2][j] \in {6, 24} /\ Funcs[cas[1]].name \in IdFamily)
                                        \/ (cas[2][j] = 7 /\ Funcs[cas[1]].name = "drop_empty")
                                        \/ (cas[2][j] = 12 /\ Funcs[cas[1]].name = "blen")
LogOf(r) == IF NestedSame \/ Funcs[cas[1]].name \in {"concat", "ctxfn"} THEN <<>>
            ELSE Strict([n \in 1..Len(Ctxs) |-> CallLog(r.node.id, Ctxs[n], Sch)])
ValueVector == LET r == ParseValue(CT, Sch, 128) IN
  IF r.ok THEN [ev |-> "value", sch |-> 1, max |-> 128, ts |-> CT, ok |-> TRUE, ast |-> ValueAstJson(r.node),
                callfn |-> Funcs[cas[1]].sem, calls |-> LogOf(r),
                runs |-> Strict([n \in 1..Len(Ctxs) |-> [ctx |-> n, out |-> "ok", res |-> EvalValue(r.node, Ctxs[n], Sch)]]),
                uses |-> UsesOf(LAMBDA f : UsesIndex(r.node, f), LAMBDA f : UsesListIndex(r.node, f))]
  ELSE [ev |-> "value", sch |-> 1, max |-> 128, ts |-> CT, ok |-> FALSE]
(* the call inside a filter: compared, or used as a boolean / reduced when it yields booleans *)
FilterToks ==
  LET r == ParseValue(CT, Sch, 128) IN
  IF ~r.ok THEN CT \o <<[k |-> "ord", v |-> "ne", a |-> 0], LitB>>
  ELSE IF r.ty = TBytes THEN CT \o <<[k |-> "ord", v |-> "ne", a |-> 0], LitB>>
  ELSE IF r.ty = TInt THEN CT \o <<[k |-> "ord", v |-> "ge", a |-> 1], LitI>>
  ELSE IF r.ty = TBool THEN CT
  ELSE IF r.ty = AB THEN <<[k |-> "quant", v |-> "any"], LP>> \o CT \o <<RP>>
  ELSE IF r.ty = TArr(TBytes) THEN <<[k |-> "quant", v |-> "all"], LP>> \o CT \o Each \o <<[k |-> "ord", v |-> "ne", a |-> 0], LitB, RP>>
  ELSE IF r.ty = TArr(TInt) THEN <<[k |-> "quant", v |-> "any"], LP>> \o CT \o Each \o <<[k |-> "ord", v |-> "ge", a |-> 1], LitI, RP>>
  ELSE CT \o Ix(0) \o Ix(0) \o Eq1
FilterVector == LET r == ParseFilter(FilterToks, Sch, 128) IN
  IF r.ok THEN [ev |-> "filter", sch |-> 1, max |-> 128, ts |-> FilterToks, ok |-> TRUE, ast |-> AstJson(r.node),
                runs |-> Strict([n \in 1..Len(Ctxs) |-> [ctx |-> n, out |-> "ok", res |-> EvalFilter(r.node, Ctxs[n], Sch)]]),
                uses |-> UsesOf(LAMBDA f : UsesLogical(r.node, f), LAMBDA f : UsesListLogical(r.node, f))]
  ELSE [ev |-> "filter", sch |-> 1, max |-> 128, ts |-> FilterToks, ok |-> FALSE]
IndexedToks ==
  LET r == ParseValue(CT, Sch, 128) IN
  IF r.ok /\ r.ty = TArr(TBytes) THEN CT \o Ix(0) \o <<[k |-> "ord", v |-> "ne", a |-> 1], LitB>>
  ELSE IF r.ok /\ r.ty = TArr(TInt) THEN CT \o Ix(1) \o <<[k |-> "ord", v |-> "ne", a |-> 0], LitI>>
  ELSE <<>>
IndexedVector == LET r == ParseFilter(IndexedToks, Sch, 128) IN
  [ev |-> "filter", sch |-> 1, max |-> 128, ts |-> IndexedToks, ok |-> r.ok, ast |-> AstJson(r.node),
   runs |-> Strict([n \in 1..Len(Ctxs) |-> [ctx |-> n, out |-> "ok", res |-> EvalFilter(r.node, Ctxs[n], Sch)]]), uses |-> <<>>]
Emit == /\ PrintT(<<"REPLAY", ToJson(ValueVector)>>) /\ PrintT(<<"REPLAY", ToJson(FilterVector)>>)
        /\ IndexedToks # <<>> => PrintT(<<"REPLAY", ToJson(IndexedVector)>>)
(* L1 side conditions of a call, stated independently of the parser: arity within bounds *)
ArityRule == LET f == Funcs[cas[1]] n == Len(cas[2]) r == ParseValue(CT, Sch, 128) IN
  r.ok => IF f.name = "concat" THEN n >= 2 ELSE IF f.name = "ctxfn" THEN n <= 3
          ELSE n >= Len(f.params) /\ n <= Len(f.params) + Len(f.opts)
MapEachOnlyFirst == LET r == ParseValue(CT, Sch, 128) IN
  r.ok => \A j \in 2..Len(cas[2]) : cas[2][j] \notin {8, 9, 13, 24}
ASSUME /\ PrintT(<<"REPLAY", ToJson([hdr |-> "scheme", sch |-> Sch])>>)
       /\ \A n \in 1..Len(Ctxs) : PrintT(<<"REPLAY", ToJson([hdr |-> "ctx", ctx |-> Ctxs[n]])>>)
=============================================================================
