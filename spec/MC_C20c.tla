------------------------------- MODULE MC_C20c ------------------------------
(* every history of NThreads threads x MaxCalls calls of WfFfiCatch; each finished history that contains a  *)
(* panic is emitted and executed on real threads in lock-step through the C API, in a child process         *)
EXTENDS WfFfiCatch, Json
HasBoom == \E i \in 1..Len(hist) : hist[i].call = "boom"
Emit == (calls = MaxCalls /\ HasBoom) => PrintT(<<"REPLAY", ToJson([ev |-> "fficatch", hist |-> hist])>>)
=============================================================================
