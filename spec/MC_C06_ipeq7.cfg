CONSTANTS
  MaxLen = 7
  Kind = "ipeq"
SPECIFICATION Spec
INVARIANTS ConsumedInRange BlockTheorem Emit
CHECK_DEADLOCK FALSE
