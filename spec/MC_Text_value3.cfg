CONSTANTS
  MaxAtoms = 3
  Set = "value"
SPECIFICATION Spec
INVARIANTS Emit
CHECK_DEADLOCK FALSE
