CONSTANTS
  Part = "val1"
SPECIFICATION Spec
INVARIANTS RoundTrip DocTheorem Emit
CHECK_DEADLOCK FALSE
