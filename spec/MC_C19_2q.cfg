CONSTANTS
  NThreads = 2
  MaxLen = 2
  Ops = {"enable", "disable", "enter", "ret", "panic", "swallow", "sethook", "cont", "bt"}
SPECIFICATION Spec
INVARIANTS Balance OwnMessage EscapeIffForwarded Isolation Emit
CHECK_DEADLOCK FALSE
