------------------------------- MODULE MC_C01 -------------------------------
(***************************************************************************)
(* Bounded model of property C01 (scalar comparisons and boolean logic).   *)
(*                                                                         *)
(* Mode "chain": every sequence of at most MaxLen words over               *)
(*   ( ) not and or xor b1 b2 <i == 1>                                     *)
(* is built token by token (Append) and then finished (Finish).  On every  *)
(* finished sequence TLC checks the in-model theorems                      *)
(*   ParserSound : the L2 parser accepts exactly the sequences of the      *)
(*                 stratified grammar (independent recogniser InG),        *)
(*   PrecOk      : Eval(Parse(t)) equals the denotation Den(t) obtained by *)
(*                 splitting at the loosest top-level operator             *)
(*                 (or < xor < and < not), on every context,               *)
(* and emits one REPLAY vector (tokens, expected verdict, expected AST      *)
(* JSON, expected result per context) that the harness executes against    *)
(* the real engine.                                                        *)
(*                                                                         *)
(* Mode "matrix": the complete matrix  field x operator x literal  over    *)
(* the value pools, x nil-not-equal x optional/mandatory; one vector each. *)
(***************************************************************************)
EXTENDS WfParser, WfEval, WfJson, WfText, Json, SequencesExt

CONSTANTS MaxLen, Mode

VARIABLES ws, done
vars == <<ws, done>>

----------------------------------------------------------------------------
(* schemes: index = 1 + (IF opt THEN 0 ELSE 2) + (IF nne THEN 0 ELSE 1) *)
Fields(opt) == << [name |-> "i",  ty |-> TInt,   opt |-> opt],
                  [name |-> "s",  ty |-> TBytes, opt |-> opt],
                  [name |-> "ip", ty |-> TIp,    opt |-> opt],
                  [name |-> "b1", ty |-> TBool,  opt |-> opt],
                  [name |-> "b2", ty |-> TBool,  opt |-> opt] >>
Sch(opt, nne) == [fields |-> Fields(opt), funcs |-> <<>>, lists |-> <<>>, nne |-> nne]
Schemes == << Sch(TRUE, TRUE), Sch(TRUE, FALSE), Sch(FALSE, TRUE), Sch(FALSE, FALSE) >>

I(l, t) == [k |-> "int", v |-> l, txt |-> t]
IntPool == << I(<<-32768, 0, 0, 0>>, "-9223372036854775808"),
              I(<<-32768, 0, 0, 1>>, "-9223372036854775807"),
              I(<<-1, 65535, 65535, 65535>>, "-1"),
              I(<<0, 0, 0, 0>>, "0"),
              I(<<0, 0, 0, 1>>, "1"),
              I(<<0, 0, 0, 1>>, "0x1"),
              I(<<0, 0, 0, 7>>, "07"),
              I(<<0, 0, 0, 65535>>, "0xFFFF"),
              I(<<0, 0, 1, 0>>, "65536"),
              I(<<0, 1, 0, 0>>, "4294967296"),
              I(<<1, 0, 0, 0>>, "0x1000000000000"),
              I(<<32767, 65535, 65535, 65534>>, "9223372036854775806"),
              I(<<32767, 65535, 65535, 65535>>, "0x7fffffffffffffff"),
              I(<<32767, 65535, 65535, 65535>>, "0777777777777777777777") >>
B(v, f, t) == [k |-> "bytes", v |-> v, form |-> f, txt |-> t]
BytesPool == << B(<<>>, "q", "\"\""),
                B(<<97>>, "q", "\"a\""),
                B(<<65>>, "q", "\"\\x41\""),
                B(<<97, 98>>, "r", "r\"ab\""),
                B(<<97, 98>>, "h", "61:62"),
                B(<<98>>, "q", "\"\\142\""),
                B(<<0>>, "q", "\"\\x00\""),
                B(<<255>>, "q", "\"\\xff\""),
                B(<<255, 254>>, "h", "FF-fe"),
                B(<<97, 0>>, "h", "61.00"),
                B(<<97, 34, 98>>, "r", "r#\"a\"b\"#") >>
P(v, t) == [k |-> "ip", v |-> v, txt |-> t]
Z(n) == [i \in 1..n |-> 0]
IpPool == << P(<<0, 0, 0, 0>>, "0.0.0.0"),
             P(<<1, 2, 3, 4>>, "1.2.3.4"),
             P(<<255, 255, 255, 255>>, "255.255.255.255"),
             P(Z(16), "::"),
             P(Z(15) \o <<1>>, "::1"),
             P(Z(10) \o <<255, 255, 1, 2, 3, 4>>, "::ffff:1.2.3.4"),
             P([i \in 1..16 |-> 255], "FFFF:ffff:ffff:ffff:ffff:ffff:ffff:ffff") >>

Id(n) == [k |-> "id", name |-> n]
Ords == <<"eq", "ne", "ge", "le", "gt", "lt">>

(* contexts: vals aligned with Fields: i, s, ip, b1, b2 *)
CtxOf(sch, i, s, ip, b1, b2) == [sch |-> sch, vals |-> <<i, s, ip, b1, b2>>, lists |-> <<>>]

----------------------------------------------------------------------------
(* chain mode *)
Words == << <<[k |-> "lp"]>>, <<[k |-> "rp"]>>, <<[k |-> "not", a |-> 0]>>,
            <<[k |-> "lop", v |-> "and", a |-> 0]>>, <<[k |-> "lop", v |-> "or", a |-> 0]>>,
            <<[k |-> "lop", v |-> "xor", a |-> 0]>>,
            <<Id("b1")>>, <<Id("b2")>>,
            <<Id("i"), [k |-> "ord", v |-> "eq", a |-> 1], I(<<0, 0, 0, 1>>, "1")>> >>
WAtom(w) == w \in 7..9
Toks(seq) == FlatSeq([j \in 1..Len(seq) |-> Words[seq[j]]])
(* alias choice by position, so that every spelling occurs *)
WithAliases(ts) == [j \in 1..Len(ts) |->
                      IF ts[j].k \in {"not", "lop"} THEN [ts[j] EXCEPT !.a = j % 2] ELSE ts[j]]

(* chain contexts: b1 in {T,F,absent}, b2 in {T,F}, i in {1, 2, absent}; scheme 1 *)
BVals == <<VBool(TRUE), VBool(FALSE), Nil>>
IVals == <<VInt(<<0, 0, 0, 1>>), VInt(<<0, 0, 0, 2>>), Nil>>
ChainCtxs == [n \in 1..18 |->
                CtxOf(1, IVals[((n - 1) \div 6) + 1], Nil, Nil,
                      BVals[(((n - 1) \div 2) % 3) + 1], BVals[((n - 1) % 2) + 1])]

(* --- independent L1 definition of the stratified grammar and its meaning --- *)
Depth(seq, j) == Cardinality({x \in 1..(j - 1) : seq[x] = 1}) - Cardinality({x \in 1..(j - 1) : seq[x] = 2})
TopAt(seq, w) == {j \in 1..Len(seq) : seq[j] = w /\ Depth(seq, j) = 0}
(* split seq at the positions in S (non-empty, sorted ascending by construction) *)
Segs(seq, S) ==
  LET ps == SetToSortSeq(S, LAMBDA x, y : x < y) IN
  [n \in 1..(Len(ps) + 1) |->
     SubSeq(seq, IF n = 1 THEN 1 ELSE ps[n - 1] + 1, IF n = Len(ps) + 1 THEN Len(seq) ELSE ps[n] - 1)]
RECURSIVE InG(_), Den(_, _)
Balanced(seq) == /\ \A j \in 1..(Len(seq) + 1) : Depth(seq, j) >= 0
                 /\ Depth(seq, Len(seq) + 1) = 0
Loosest(seq) == IF TopAt(seq, 5) # {} THEN 5 ELSE IF TopAt(seq, 6) # {} THEN 6
                ELSE IF TopAt(seq, 4) # {} THEN 4 ELSE 0
InG(seq) ==
  IF seq = <<>> \/ ~Balanced(seq) THEN FALSE
  ELSE LET w == Loosest(seq) IN
       IF w # 0 THEN LET sg == Segs(seq, TopAt(seq, w)) IN \A n \in 1..Len(sg) : InG(sg[n])
       ELSE IF seq[1] = 3 THEN InG(Tail(seq))
       ELSE IF seq[1] = 1 THEN seq[Len(seq)] = 2 /\ Len(seq) > 2 /\ InG(SubSeq(seq, 2, Len(seq) - 1))
                               /\ \A j \in 2..Len(seq) : Depth(seq, j) >= 1
       ELSE Len(seq) = 1 /\ WAtom(seq[1])
AtomVal(w, ctx) ==
  IF w = 7 THEN (~IsNil(ctx.vals[4]) /\ ctx.vals[4].v)
  ELSE IF w = 8 THEN (~IsNil(ctx.vals[5]) /\ ctx.vals[5].v)
  ELSE (~IsNil(ctx.vals[1]) /\ ctx.vals[1].v = <<0, 0, 0, 1>>)
Den(seq, ctx) ==
  LET w == Loosest(seq) IN
  IF w # 0
  THEN LET sg == Segs(seq, TopAt(seq, w))
           bs == [n \in 1..Len(sg) |-> Den(sg[n], ctx)]
       IN IF w = 5 THEN \E n \in 1..Len(bs) : bs[n]
          ELSE IF w = 4 THEN \A n \in 1..Len(bs) : bs[n]
          ELSE XorAll(bs)
  ELSE IF seq[1] = 3 THEN ~Den(Tail(seq), ctx)
  ELSE IF seq[1] = 1 THEN Den(SubSeq(seq, 2, Len(seq) - 1), ctx)
  ELSE AtomVal(seq[1], ctx)

Parsed(seq) == ParseFilter(Toks(seq), Schemes[1], 128)

(* The two L2 layers agree: the character-level parser (WfText), run on the words written out and   *)
(* separated by single spaces, yields the verdict and the AST of the token-level parser.            *)
WordCp == <<<<40>>, <<41>>, <<110, 111, 116>>, <<97, 110, 100>>, <<111, 114>>, <<120, 111, 114>>, <<98, 49>>, <<98, 50>>, <<105, 32, 61, 61, 32, 49>>>>
ChainIdents == <<[name |-> "i", cp |-> <<105>>], [name |-> "s", cp |-> <<115>>], [name |-> "ip", cp |-> <<105, 112>>], [name |-> "b1", cp |-> <<98, 49>>], [name |-> "b2", cp |-> <<98, 50>>]>>
RECURSIVE JoinSp(_)
JoinSp(seq) == IF seq = <<>> THEN <<>> ELSE IF Len(seq) = 1 THEN WordCp[seq[1]] ELSE WordCp[seq[1]] \o <<32>> \o JoinSp(Tail(seq))
TextAgrees == (Mode \in {"chain", "gram"} /\ done) =>
   LET t == ParseText(JoinSp(ws), Schemes[1], 128, -1, ChainIdents) p == Parsed(ws) IN
   /\ (t.v = "yes") = p.ok
   /\ p.ok => t.node = p.node

ParserSound == (Mode \in {"chain", "gram"} /\ done) => (Parsed(ws).ok = InG(ws))
PrecOk == (Mode \in {"chain", "gram"} /\ done /\ Parsed(ws).ok) =>
            \A n \in 1..Len(ChainCtxs) :
               EvalFilter(Parsed(ws).node, ChainCtxs[n], Schemes[1]) = Den(ws, ChainCtxs[n])

UsesVec(node, sch) == [j \in 1..Len(sch.fields) |->
                         [f |-> sch.fields[j].name, out |-> "ok",
                          uses |-> UsesLogical(node, sch.fields[j].name),
                          list |-> UsesListLogical(node, sch.fields[j].name)]]

Vector(ts, schi, ctxbase, ctxs) ==
  LET sch == Schemes[schi]
      r == ParseFilter(ts, sch, 128)
  IN IF r.ok
     THEN [ev |-> "filter", sch |-> schi, max |-> 128, ts |-> ts, ok |-> TRUE,
           ast |-> AstJson(r.node),
           runs |-> [n \in 1..Len(ctxs) |->
                       [ctx |-> ctxbase + n, out |-> "ok",
                        res |-> EvalFilter(r.node, ctxs[n], sch)]],
           uses |-> UsesVec(r.node, sch)]
     ELSE [ev |-> "filter", sch |-> schi, max |-> 128, ts |-> ts, ok |-> FALSE]

----------------------------------------------------------------------------
(* matrix mode: contexts per scheme = one per pool value of each field, plus all-absent *)
MatrixVals ==
  [n \in 1..(Len(IntPool) + Len(BytesPool) + Len(IpPool) + 3) |->
     IF n <= Len(IntPool) THEN <<VInt(IntPool[n].v), Nil, Nil>>
     ELSE IF n <= Len(IntPool) + Len(BytesPool)
          THEN <<Nil, VBytes(BytesPool[n - Len(IntPool)].v), Nil>>
     ELSE IF n <= Len(IntPool) + Len(BytesPool) + Len(IpPool)
          THEN <<Nil, Nil, VIp(IpPool[n - Len(IntPool) - Len(BytesPool)].v)>>
     ELSE <<Nil, Nil, Nil>>]
NM == Len(MatrixVals)
(* optional schemes (1,2) get every context; mandatory schemes (3,4) need all fields set, so  *)
(* the other fields are filled with fixed values                                             *)
MatrixCtx(schi, n) ==
  LET m == MatrixVals[n]
      opt == schi <= 2
      Fill(v, d) == IF IsNil(v) /\ ~opt THEN d ELSE v
  IN CtxOf(schi, Fill(m[1], VInt(<<0, 0, 0, 5>>)), Fill(m[2], VBytes(<<120>>)),
           Fill(m[3], VIp(<<9, 9, 9, 9>>)),
           IF n % 3 = 0 THEN Fill(Nil, VBool(FALSE)) ELSE VBool(n % 3 = 1),
           IF n % 2 = 0 THEN VBool(TRUE) ELSE VBool(FALSE))
MatrixCtxs(schi) == [n \in 1..NM |-> MatrixCtx(schi, n)]
AllMatrixCtxs == FlatSeq([schi \in 1..4 |-> MatrixCtxs(schi)])

(* one field compared twice in one chain, with two literals of the pool that denote the SAME value in different   *)
(* spellings (decimal / hex / octal; quoted / raw / hex pairs) or different values: f == L1 o f == L2 and            *)
(* f == L1 o f != L2 for o in and / or / xor.  What a literal denotes, not how it is written, decides the answer.    *)
Lop(v) == [k |-> "lop", v |-> v, a |-> 0]
PoolPairs(pool) == {<<p, q>> \in (1..Len(pool)) \X (1..Len(pool)) : p # q /\ (pool[p].v = pool[q].v \/ q = p + 1)}
TwiceOver(name, pool) ==
  {<<Id(name), [k |-> "ord", v |-> "eq", a |-> 0], pool[pq[1]], Lop(o), Id(name), [k |-> "ord", v |-> r, a |-> 1], pool[pq[2]]>> :
      pq \in PoolPairs(pool), o \in {"and", "or", "xor"}, r \in {"eq", "ne"}}
SameFieldTwice == TwiceOver("i", IntPool) \cup TwiceOver("s", BytesPool)

MatrixCases ==
  {<<Id("i"), [k |-> "ord", v |-> Ords[o], a |-> a], IntPool[p]>> :
      o \in 1..6, a \in 0..1, p \in 1..Len(IntPool)}
  \cup {<<Id("i"), [k |-> "band", a |-> a], IntPool[p]>> : a \in 0..1, p \in 1..Len(IntPool)}
  \cup {<<Id("s"), [k |-> "ord", v |-> Ords[o], a |-> a], BytesPool[p]>> :
      o \in 1..6, a \in 0..1, p \in 1..Len(BytesPool)}
  \cup {<<Id("ip"), [k |-> "ord", v |-> Ords[o], a |-> a], IpPool[p]>> :
      o \in 1..6, a \in 0..1, p \in 1..Len(IpPool)}
  \cup {<<Id("b1")>>, <<[k |-> "not", a |-> 0], Id("b1")>>, <<[k |-> "not", a |-> 1], Id("b2")>>}
  \cup SameFieldTwice


----------------------------------------------------------------------------
Init == ws = <<>> /\ done = FALSE

(* Mode "gram": only grammatical continuations (every finished sequence is a filter) *)
ExpectOperand(seq) == seq = <<>> \/ seq[Len(seq)] \in {1, 3, 4, 5, 6}
Viable(seq, w) == IF ExpectOperand(seq) THEN w \in {1, 3, 7, 8, 9}
                  ELSE w \in {4, 5, 6} \/ (w = 2 /\ Depth(seq, Len(seq) + 1) > 0)
Complete(seq) == ~ExpectOperand(seq) /\ Depth(seq, Len(seq) + 1) = 0

AppendWord == /\ Mode \in {"chain", "gram"} /\ ~done /\ Len(ws) < MaxLen
              /\ \E w \in 1..Len(Words) : (Mode = "gram" => Viable(ws, w)) /\ ws' = Append(ws, w)
              /\ UNCHANGED done
Finish == /\ Mode \in {"chain", "gram"} /\ ~done /\ (Mode = "gram" => Complete(ws))
          /\ done' = TRUE /\ UNCHANGED ws
Pick == /\ Mode = "matrix" /\ ~done
        /\ \E c \in MatrixCases, schi \in 1..4 : ws' = <<c, schi>>
        /\ done' = TRUE
Next == AppendWord \/ Finish \/ Pick
Spec == Init /\ [][Next]_vars

Emit ==
  done =>
    IF Mode \in {"chain", "gram"}
    THEN PrintT(<<"REPLAY", ToJson(Vector(WithAliases(Toks(ws)), 1, 0, ChainCtxs))>>)
    ELSE PrintT(<<"REPLAY", ToJson(Vector(ws[1], ws[2], Len(ChainCtxs) + (ws[2] - 1) * NM,
                                          MatrixCtxs(ws[2])))>>)

(* header: scheme and context tables, printed once *)
Header ==
  /\ \A n \in 1..4 : PrintT(<<"REPLAY", ToJson([hdr |-> "scheme", sch |-> Schemes[n]])>>)
  /\ \A n \in 1..Len(ChainCtxs) : PrintT(<<"REPLAY", ToJson([hdr |-> "ctx", ctx |-> ChainCtxs[n]])>>)
  /\ \A n \in 1..Len(AllMatrixCtxs) :
        PrintT(<<"REPLAY", ToJson([hdr |-> "ctx", ctx |-> AllMatrixCtxs[n]])>>)
ASSUME Header
=============================================================================
