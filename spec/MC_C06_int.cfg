CONSTANTS
  MaxLen = 5
  Kind = "int"
SPECIFICATION Spec
INVARIANTS ConsumedInRange Emit
CHECK_DEADLOCK FALSE
