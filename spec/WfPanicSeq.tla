----------------------------- MODULE WfPanicSeq ------------------------------
(* Sequential (single-thread) reference semantics of a panic-catcher script: what a thread   *)
(* observes when it runs script s alone.  Pure functions of the script, shared by the        *)
(* interleaved machine (WfPanic, theorem Isolation) and the trace specification.             *)
EXTENDS WfBase

MsgId(t, i) == 100 * t + i
(* "genter" opens a catch_panic frame like "enter", but its body owns a clean-up guard: whenever the frame is    *)
(* left - by its return or by a panic unwinding through it - the guard runs catch_panic(|| 7) (a nested catcher  *)
(* frame entered and left during the same step, possibly in the middle of unwinding) and the thread observes its *)
(* result, "gok".  The nested frame leaves no trace: not in the level, not in the recorded message.               *)
IsEnter(o) == o \in {"enter", "genter"}
GOk == [k |-> "gok", m |-> 0]
(* observations of the guards of the frames fs[lo..Len(fs)], innermost first *)
RECURSIVE GuardObs(_, _, _)
GuardObs(fs, lo, j) == IF j < lo THEN <<>> ELSE (IF fs[j].guard THEN <<GOk>> ELSE <<>>) \o GuardObs(fs, lo, j - 1)

RECURSIVE MatchFrom(_, _, _)
MatchFrom(s, j, depth) ==
  IF IsEnter(s[j]) THEN MatchFrom(s, j + 1, depth + 1)
  ELSE IF s[j] = "ret" THEN IF depth = 0 THEN j ELSE MatchFrom(s, j + 1, depth - 1)
  ELSE MatchFrom(s, j + 1, depth)

WellBracketed(s) ==
  /\ \A j \in 1..Len(s) :
       Cardinality({x \in 1..j : s[x] = "ret"}) <= Cardinality({x \in 1..j : IsEnter(s[x])})
  /\ Cardinality({x \in 1..Len(s) : s[x] = "ret"}) = Cardinality({x \in 1..Len(s) : IsEnter(s[x])})

CatchingIdx(fs) == {i \in 1..Len(fs) : fs[i].catching}

RECURSIVE SeqRun(_, _, _, _, _, _, _, _, _)
SeqRun(s, t, p, fs, en, b, ob, sn, lv) ==
  IF p > Len(s) THEN [obs |-> ob, sent |-> sn, status |-> "run", levels |-> lv]
  ELSE LET o == s[p]
           L == Cardinality(CatchingIdx(fs)) IN
       IF o = "enable" THEN SeqRun(s, t, p + 1, fs, TRUE, b, ob, sn, Append(lv, L))
       ELSE IF o = "disable" THEN SeqRun(s, t, p + 1, fs, FALSE, b, ob, sn, Append(lv, L))
       ELSE IF IsEnter(o)
            THEN SeqRun(s, t, p + 1, Append(fs, [catching |-> en, retpc |-> MatchFrom(s, p + 1, 0), guard |-> (o = "genter")]), en, b, ob, sn,
                        Append(lv, L + (IF en THEN 1 ELSE 0)))
       ELSE IF o = "ret"
            THEN SeqRun(s, t, p + 1, SubSeq(fs, 1, Len(fs) - 1), en, b, (ob \o GuardObs(fs, Len(fs), Len(fs))) \o <<[k |-> "ok", m |-> 0]>>, sn,
                        Append(lv, L - (IF fs[Len(fs)].catching THEN 1 ELSE 0)))
       ELSE IF o = "bt" THEN SeqRun(s, t, p + 1, fs, en, b, Append(ob, [k |-> "bt", m |-> b]), sn, Append(lv, L))
       \* "swallow": a panic raised and recovered from on the spot by a plain std::panic::catch_unwind that is no catcher
       \* frame.  The hook sees it like any panic (recorded when a catching frame is open, handed to the previous hook
       \* otherwise); nothing unwinds past the step, and a later panic of the frame is reported with its own message.
       ELSE IF o = "swallow"
            THEN IF CatchingIdx(fs) = {} THEN SeqRun(s, t, p + 1, fs, en, b, ob, sn + 1, Append(lv, L))
                 ELSE SeqRun(s, t, p + 1, fs, en, MsgId(t, p), ob, sn, Append(lv, L))
       ELSE IF o = "panic"
            THEN LET m == MsgId(t, p)
                     C == CatchingIdx(fs)
                 IN IF C = {}
                    THEN [obs |-> (ob \o GuardObs(fs, 1, Len(fs))) \o <<[k |-> "escaped", m |-> m]>>, sent |-> sn + 1, status |-> "escaped",
                          levels |-> Append(lv, 0)]
                    ELSE LET i == CHOOSE x \in C : \A y \in C : y <= x IN
                         SeqRun(s, t, fs[i].retpc + 1, SubSeq(fs, 1, i - 1), en, m, (ob \o GuardObs(fs, i, Len(fs))) \o <<[k |-> "err", m |-> m]>>, sn,
                                Append(lv, L - 1))
       ELSE SeqRun(s, t, p + 1, fs, en, b, ob, sn, Append(lv, L))
RunAlone(s, t) == SeqRun(s, t, 1, <<>>, FALSE, 0, <<>>, 0, <<>>)
=============================================================================
