------------------------------- MODULE MC_C04 -------------------------------
(* The complete typing matrices of property C04, enumerated:                                    *)
(*  "cmp":   left type (9 field types) x operator (none, 6 ordering, bit-and, in {..}, in $list,  *)
(*           contains, matches, wildcard, strict wildcard) x right-hand literal form             *)
(*  "index": container type x index kind sequences of length <= 2                                *)
(*  "logic": operand type pairs (Bool, Array(Bool), Map(Bool), Array(Array(Bool))) x and/or/xor, *)
(*           at top level, parenthesised inside any(), and negated                               *)
(*  "quant": any/all x every field x two index steps (none, [1], ["k"], [*]) x wrapper (bare,    *)
(*           parenthesised, negated, compared with a literal): a bare argument must be a         *)
(*           boolean array reached without [*]                                                   *)
(* In-model: the L2 parser's verdict equals the declarative admissibility table (L1) below.      *)
(* Every entry is emitted with its expected verdict; accepted entries carry expected results.    *)
EXTENDS WfParser, WfEval, WfJson, Json
CONSTANT Mode
VARIABLES cas
AB == TArr(TBool)
Fields == << [name |-> "b", ty |-> TBool, opt |-> TRUE], [name |-> "i", ty |-> TInt, opt |-> TRUE],
             [name |-> "p", ty |-> TIp, opt |-> TRUE], [name |-> "s", ty |-> TBytes, opt |-> TRUE],
             [name |-> "ai", ty |-> TArr(TInt), opt |-> TRUE], [name |-> "mi", ty |-> TMap(TInt), opt |-> TRUE],
             [name |-> "vb", ty |-> AB, opt |-> TRUE], [name |-> "mb", ty |-> TMap(TBool), opt |-> TRUE],
             [name |-> "vvb", ty |-> TArr(AB), opt |-> TRUE] >>
Sch == [fields |-> Fields, funcs |-> <<>>, lists |-> <<TInt, TBytes>>, listkinds |-> <<"always", "never">>, nne |-> TRUE]
I1 == VInt(IntOfNat(1))
Ctxs == << [sch |-> 1, vals |-> <<VBool(TRUE), I1, VIp(<<1, 2, 3, 4>>), VBytes(<<97>>), VArr(TInt, <<I1>>),
                                   VMap(TInt, <<[k |-> <<107>>, v |-> I1]>>), VArr(TBool, <<VBool(TRUE), VBool(FALSE)>>),
                                   VMap(TBool, <<[k |-> <<107>>, v |-> VBool(TRUE)]>>),
                                   VArr(AB, <<VArr(TBool, <<VBool(FALSE)>>)>>)>>,
              lists |-> <<[kind |-> "always", sets |-> <<>>], [kind |-> "never", sets |-> <<>>]>>],
            [sch |-> 1, vals |-> <<Nil, Nil, Nil, Nil, Nil, Nil, Nil, Nil, Nil>>,
              lists |-> <<[kind |-> "always", sets |-> <<>>], [kind |-> "never", sets |-> <<>>]>>] >>
Id(n) == [k |-> "id", name |-> n]
(* right-hand sides: [kind, tokens] *)
TInt1 == [k |-> "int", v |-> IntOfNat(1), txt |-> "1"]
TIp1 == [k |-> "ip", v |-> <<1, 2, 3, 4>>, txt |-> "1.2.3.4"]
TBq == [k |-> "bytes", v |-> <<97>>, form |-> "q", txt |-> "\"a\""]
TBr == [k |-> "bytes", v |-> <<97>>, form |-> "r", txt |-> "r\"a\""]
TBh == [k |-> "bytes", v |-> <<97, 98>>, form |-> "h", txt |-> "61:62"]
TRe == [k |-> "regex", pat |-> <<97>>, form |-> "q", bad |-> "none", re |-> [k |-> "lit", c |-> 97], body |-> <<97, 34>>, txt |-> "\"a\""]
TReBad == [k |-> "regex", pat |-> <<40, 97>>, form |-> "r", bad |-> "unclosed-group", re |-> [k |-> "lit", c |-> 97], body |-> <<>>, txt |-> "r\"(a\""]
TW == [k |-> "wild", v |-> <<97, 42>>, form |-> "q", txt |-> "\"a*\""]
TWBad == [k |-> "wild", v |-> <<42, 42>>, form |-> "q", txt |-> "\"**\""]
LB == [k |-> "lbr"]
RB == [k |-> "rbr"]
Rhs == << <<"none", <<>>>>, <<"int", <<TInt1>>>>, <<"ip", <<TIp1>>>>, <<"bq", <<TBq>>>>, <<"br", <<TBr>>>>, <<"bh", <<TBh>>>>,
          <<"intset", <<LB, TInt1, [k |-> "irange", lo |-> IntOfNat(0), hi |-> IntOfNat(3), txt |-> "0..3"], RB>>>>,
          <<"ipset", <<LB, TIp1, [k |-> "cidr", v |-> <<10, 0, 0, 0>>, len |-> 8, txt |-> "10.0.0.0/8"],
                        [k |-> "iprange", lo |-> <<1, 1, 1, 1>>, hi |-> <<1, 1, 1, 9>>, txt |-> "1.1.1.1..1.1.1.9"], RB>>>>,
          <<"bset", <<LB, TBq, TBh, RB>>>>, <<"emptyset", <<LB, RB>>>>,
          <<"mixset", <<LB, TInt1, TBq, RB>>>>,
          <<"list", <<[k |-> "list", name |-> <<108, 49>>, valid |-> TRUE, txt |-> "$l1"]>>>>,
          <<"badlist", <<[k |-> "list", name |-> <<46, 108>>, valid |-> FALSE, txt |-> "$.l"]>>>>,
          <<"regex", <<TRe>>>>, <<"badregex", <<TReBad>>>>, <<"wild", <<TW>>>>, <<"badwild", <<TWBad>>>> >>
Ops == << <<"none", <<>>>>,
          <<"eq", <<[k |-> "ord", v |-> "eq", a |-> 0]>>>>, <<"ne", <<[k |-> "ord", v |-> "ne", a |-> 1]>>>>,
          <<"ge", <<[k |-> "ord", v |-> "ge", a |-> 0]>>>>, <<"le", <<[k |-> "ord", v |-> "le", a |-> 1]>>>>,
          <<"gt", <<[k |-> "ord", v |-> "gt", a |-> 0]>>>>, <<"lt", <<[k |-> "ord", v |-> "lt", a |-> 1]>>>>,
          <<"band", <<[k |-> "band", a |-> 1]>>>>, <<"in", <<[k |-> "in"]>>>>,
          <<"contains", <<[k |-> "bop", v |-> "contains", a |-> 0]>>>>, <<"matches", <<[k |-> "bop", v |-> "matches", a |-> 1]>>>>,
          <<"wildcard", <<[k |-> "bop", v |-> "wildcard", a |-> 0]>>>>, <<"strict", <<[k |-> "bop", v |-> "strict wildcard", a |-> 0]>>>> >>

(* L1: the documented admissibility of  <field of type T> <op> <rhs>  as a top-level filter *)
Admissible(T, op, rhs) ==
  IF op = "none" THEN rhs = "none" /\ T = TBool
  ELSE IF T \in {TBool, AB, TMap(TBool)} THEN FALSE                  \* a boolean (array) is complete: an operator cannot follow
  ELSE IF op \in {"eq", "ne", "ge", "le", "gt", "lt"}
       THEN (T = TInt /\ rhs = "int") \/ (T = TIp /\ rhs = "ip") \/ (T = TBytes /\ rhs \in {"bq", "br", "bh", "wild", "badwild"})
  ELSE IF op = "band" THEN T = TInt /\ rhs = "int"
  ELSE IF op = "in"
       THEN \/ (T = TInt /\ rhs \in {"intset", "emptyset", "list"})
            \/ (T = TIp /\ rhs \in {"ipset", "emptyset"})
            \/ (T = TBytes /\ rhs \in {"bset", "emptyset", "list"})
  ELSE IF op = "contains" THEN T = TBytes /\ rhs \in {"bq", "br", "bh", "wild", "badwild"}
  ELSE IF op = "matches" THEN T = TBytes /\ rhs = "regex"
  ELSE T = TBytes /\ rhs \in {"wild", "bq", "br"}                     \* wildcard / strict wildcard: a valid pattern in a string literal

(* a regex literal and a byte-string / wildcard literal are the same kind of text read under different      *)
(* escape rules; cells that would require re-reading a literal under the other rules are left out          *)
OtherReading(o, r) == (Rhs[r][1] \in {"regex", "badregex"} /\ Ops[o][1] # "matches")
                      \/ (Ops[o][1] = "matches" /\ Rhs[r][1] \in {"bq", "br", "wild", "badwild"})
CmpCases == {c \in {<<"cmp", f, o, r>> : f \in 1..Len(Fields), o \in 1..Len(Ops), r \in 1..Len(Rhs)} : ~OtherReading(c[3], c[4])}
(* index matrix *)
IdxToks == << <<[k |-> "lb"], TInt1, [k |-> "rb"]>>, <<[k |-> "lb"], [k |-> "bytes", v |-> <<107>>, form |-> "q", txt |-> "\"k\""], [k |-> "rb"]>>,
              <<[k |-> "lb"], [k |-> "star"], [k |-> "rb"]>>, <<[k |-> "lb"], [k |-> "int", v |-> <<-1, 65535, 65535, 65535>>, txt |-> "-1"], [k |-> "rb"]>>,
              <<[k |-> "lb"], TBr, [k |-> "rb"]>> >>
IdxCases == {<<"index", f, i, j>> : f \in 1..Len(Fields), i \in 1..Len(IdxToks), j \in 0..Len(IdxToks)}
(* logical operand pairs *)
Operands == << <<Id("b")>>, <<Id("vb")>>, <<Id("mb")>>, <<Id("vvb")>>, <<Id("vb"), [k |-> "lb"], [k |-> "star"], [k |-> "rb"]>>,
               <<Id("i"), [k |-> "ord", v |-> "eq", a |-> 1], TInt1>>, <<Id("ai"), [k |-> "lb"], [k |-> "star"], [k |-> "rb"], [k |-> "ord", v |-> "eq", a |-> 1], TInt1>> >>
LogicCases == {<<"logic", x, y, o, w>> : x \in 1..Len(Operands), y \in 1..Len(Operands), o \in {"and", "or", "xor"}, w \in {"top", "any", "not"}}
(* three-operand chains: same operator twice (flattened chain) and mixed operators *)
Logic3Cases == {<<"logic3", x, y, z, o1, o2>> : x \in 1..Len(Operands), y \in 1..Len(Operands), z \in 1..Len(Operands),
                                                 o1 \in {"and", "or", "xor"}, o2 \in {"and", "or", "xor"}}
(* quantifier arguments *)
QIdx == << <<>>, <<[k |-> "lb"], TInt1, [k |-> "rb"]>>,
           <<[k |-> "lb"], [k |-> "bytes", v |-> <<107>>, form |-> "q", txt |-> "\"k\""], [k |-> "rb"]>>,
           <<[k |-> "lb"], [k |-> "star"], [k |-> "rb"]>> >>
QuantCases == {<<"quant", q, f, i, j, w>> : q \in {"any", "all"}, f \in 1..Len(Fields), i \in 1..4, j \in 1..4,
                                             w \in {"bare", "paren", "not", "cmp"}}
(* L1 typing of a path: one step *)
StepTy(T, i) == IF i = 1 THEN T
                ELSE IF T = [k |-> "none"] THEN T
                ELSE IF i = 2 THEN (IF T.k = "Array" THEN T.e ELSE [k |-> "none"])
                ELSE IF i = 3 THEN (IF T.k = "Map" THEN T.e ELSE [k |-> "none"])
                ELSE (IF T.k \in {"Array", "Map"} THEN T.e ELSE [k |-> "none"])
QuantBareOk(f, i, j) == LET T == StepTy(StepTy(Fields[f].ty, i), j) IN
                        T = AB /\ i # 4 /\ j # 4 /\ ~(i = 1 /\ j # 1)
Init == cas \in (IF Mode = "quant" THEN QuantCases ELSE IF Mode = "cmp" THEN CmpCases ELSE IF Mode = "index" THEN IdxCases
                 ELSE IF Mode = "logic" THEN LogicCases ELSE Logic3Cases)
Next == FALSE /\ UNCHANGED cas
Spec == Init /\ [][Next]_cas
QArg == <<Id(Fields[cas[3]].name)>> \o QIdx[cas[4]] \o QIdx[cas[5]]
Toks ==
  IF cas[1] = "quant"
  THEN <<[k |-> "quant", v |-> cas[2]], [k |-> "lp"]>>
       \o (IF cas[6] = "bare" THEN QArg
           ELSE IF cas[6] = "paren" THEN <<[k |-> "lp"]>> \o QArg \o <<[k |-> "rp"]>>
           ELSE IF cas[6] = "not" THEN <<[k |-> "not", a |-> 1]>> \o QArg
           ELSE QArg \o <<[k |-> "ord", v |-> "eq", a |-> 1], TInt1>>)
       \o <<[k |-> "rp"]>>
  ELSE IF cas[1] = "cmp" THEN <<Id(Fields[cas[2]].name)>> \o Ops[cas[3]][2] \o Rhs[cas[4]][2]
  ELSE IF cas[1] = "index"
       THEN <<Id(Fields[cas[2]].name)>> \o IdxToks[cas[3]] \o (IF cas[4] = 0 THEN <<>> ELSE IdxToks[cas[4]])
            \o <<[k |-> "ord", v |-> "eq", a |-> 1], TInt1>>
  ELSE IF cas[1] = "logic3"
       THEN Operands[cas[2]] \o <<[k |-> "lop", v |-> cas[5], a |-> 0]>> \o Operands[cas[3]]
            \o <<[k |-> "lop", v |-> cas[6], a |-> 1]>> \o Operands[cas[4]]
  ELSE LET body == Operands[cas[2]] \o <<[k |-> "lop", v |-> cas[4], a |-> 1]>> \o Operands[cas[3]] IN
       IF cas[5] = "top" THEN body
       ELSE IF cas[5] = "any" THEN <<[k |-> "quant", v |-> "any"], [k |-> "lp"], [k |-> "lp"]>> \o body \o <<[k |-> "rp"], [k |-> "rp"]>>
       ELSE <<[k |-> "not", a |-> 0], [k |-> "lp"]>> \o body \o <<[k |-> "rp"]>>
TableIsParser == cas[1] = "cmp" =>
   (ParseFilter(Toks, Sch, 128).ok = Admissible(Fields[cas[2]].ty, Ops[cas[3]][1], Rhs[cas[4]][1]))
(* L1 for operand chains: a top-level chain is a filter iff every operand is a plain boolean *)
OperandIsBool(x) == x \in {1, 6}
ChainIsBoolean == cas[1] = "logic3" =>
   (ParseFilter(Toks, Sch, 128).ok = (OperandIsBool(cas[2]) /\ OperandIsBool(cas[3]) /\ OperandIsBool(cas[4])))
(* an empty first step followed by a non-empty one is the same text as the one-step path: not a separate case *)
QuantBare == (cas[1] = "quant" /\ cas[6] = "bare" /\ ~(cas[4] = 1 /\ cas[5] # 1)) =>
   (ParseFilter(Toks, Sch, 128).ok = QuantBareOk(cas[3], cas[4], cas[5]))
Vector == LET r == ParseFilter(Toks, Sch, 128) IN
  IF r.ok THEN [ev |-> "filter", sch |-> 1, max |-> 128, ts |-> Toks, ok |-> TRUE, ast |-> AstJson(r.node),
                runs |-> Strict([n \in 1..Len(Ctxs) |-> [ctx |-> n, out |-> "ok", res |-> EvalFilter(r.node, Ctxs[n], Sch)]]), uses |-> <<>>]
  ELSE [ev |-> "filter", sch |-> 1, max |-> 128, ts |-> Toks, ok |-> FALSE]
(* the index matrix is also read as value expressions: accepted iff the path is well typed and free of [*],   *)
(* and an accepted one yields a value of its static type or an absence tagged with that type                  *)
PathToks == <<Id(Fields[cas[2]].name)>> \o IdxToks[cas[3]] \o (IF cas[4] = 0 THEN <<>> ELSE IdxToks[cas[4]])
ValueVector == LET r == ParseValue(PathToks, Sch, 128) IN
  IF r.ok THEN [ev |-> "value", sch |-> 1, max |-> 128, ts |-> PathToks, ok |-> TRUE, ast |-> ValueAstJson(r.node),
                runs |-> Strict([n \in 1..Len(Ctxs) |-> [ctx |-> n, out |-> "ok", res |-> EvalValue(r.node, Ctxs[n], Sch)]]), uses |-> <<>>]
  ELSE [ev |-> "value", sch |-> 1, max |-> 128, ts |-> PathToks, ok |-> FALSE]
ValueFreeOfEach == cas[1] = "index" => LET r == ParseValue(PathToks, Sch, 128) IN
                     r.ok => (cas[3] # 3 /\ cas[4] # 3 /\ \A n \in 1..Len(Ctxs) :
                                LET x == EvalValue(r.node, Ctxs[n], Sch) IN IF IsNil(x) THEN x.ty = r.ty ELSE TypeOf(x) = r.ty)
Emit == PrintT(<<"REPLAY", ToJson(Vector)>>) /\ (cas[1] = "index" => PrintT(<<"REPLAY", ToJson(ValueVector)>>))
ASSUME /\ PrintT(<<"REPLAY", ToJson([hdr |-> "scheme", sch |-> Sch])>>)
       /\ \A n \in 1..Len(Ctxs) : PrintT(<<"REPLAY", ToJson([hdr |-> "ctx", ctx |-> Ctxs[n]])>>)
=============================================================================
