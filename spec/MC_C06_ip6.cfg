CONSTANTS
  MaxLen = 6
  Kind = "ipitem"
SPECIFICATION Spec
INVARIANTS ConsumedInRange BlockTheorem Emit
CHECK_DEADLOCK FALSE
