CONSTANTS
  MaxAtoms = 3
  Set = "argb"
SPECIFICATION Spec
INVARIANTS Emit
CHECK_DEADLOCK FALSE
