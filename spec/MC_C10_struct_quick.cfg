CONSTANTS
  Mode = "struct"
  MaxH = 0
  MaxP = 0
  Pads = {0, 1, 3, 14, 15, 16, 17, 31, 32, 33, 63, 64}
  PLens = {0, 1, 2, 3, 8, 15, 16, 17, 31, 32, 33, 40}
SPECIFICATION Spec
INVARIANTS Sanity Emit
CHECK_DEADLOCK FALSE
