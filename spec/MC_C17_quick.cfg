CONSTANTS
  MaxLen = 3
SPECIFICATION Spec
INVARIANTS VerdictRule Emit
CHECK_DEADLOCK FALSE
