--------------------------- MODULE Trace_Contains ---------------------------
(* Trace specification for recorded `contains` executions (C10): haystack, pattern, and the   *)
(* answer of the compiled filter for every SIMD anchor position (and the production random    *)
(* anchor), plus which search path was active.  Accepted iff every answer = Occurs(p, h).     *)
EXTENDS WfBase, Json, IOUtils
Rec == ndJsonDeserialize(IOEnv.TRACE)
VARIABLES l, nbad
vars == <<l, nbad>>
Chk(cond, msg) == IF cond THEN TRUE
                  ELSE (PrintT(<<"REJECT", l, Rec[l].id>>) /\ PrintT(<<"DETAIL", l, msg>>) /\ FALSE)
Check(e) ==
  LET x == Occurs(e.needle, e.hay) IN
  \A i \in 1..Len(e.obs.runs) :
    LET r == e.obs.runs[i] IN
    /\ Chk(r.out = "ok", <<"contains panicked, anchor", r.anchor>>)
    /\ Chk(r.res = x, <<"contains: expected", x, "anchor", r.anchor, "simd", e.obs.simd,
                        "needle length", Len(e.needle), "haystack length", Len(e.hay)>>)
Init == l = 1 /\ nbad = 0
Next == /\ l <= Len(Rec)
        /\ nbad' = IF Check(Rec[l]) THEN nbad ELSE nbad + 1
        /\ l' = l + 1
Spec == Init /\ [][Next]_vars
Accepted == IF TLCGet("stats").diameter = Len(Rec) + 1 THEN PrintT(<<"TRACE-CONSUMED", Len(Rec)>>)
            ELSE (PrintT(<<"TRACE-STUCK-AT", TLCGet("stats").diameter, "of", Len(Rec)>>) /\ FALSE)
=============================================================================
