CONSTANTS
  MaxLen = 7
  Mode = "gram"
SPECIFICATION Spec
INVARIANTS ParserSound PrecOk TextAgrees Emit
CHECK_DEADLOCK FALSE
