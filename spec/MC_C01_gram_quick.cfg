CONSTANTS
  MaxLen = 7
  Mode = "gram"
SPECIFICATION Spec
INVARIANTS ParserSound PrecOk Emit
CHECK_DEADLOCK FALSE
