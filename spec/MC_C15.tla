------------------------------- MODULE MC_C15 -------------------------------
(* Bounded model of type encodings (C15): every type with at most MaxDepth layers is built   *)
(* by pushing Array / Map layers onto a primitive; RoundTrip (Unpack(Pack(T)) = T, packed     *)
(* length = depth) is checked in every state and one vector per type is emitted.  Deep mode   *)
(* emits regular layer strings (all-array, all-map, alternating) of 13..130 layers.           *)
EXTENDS WfTypes, Json
CONSTANTS MaxDepth, Deep
VARIABLES ty
Prims == {TBool, TInt, TIp, TBytes}
RECURSIVE Nest(_, _, _)
Nest(T, pat, n) == IF n = 0 THEN T
                   ELSE LET inner == Nest(T, pat, n - 1)
                            arr == IF pat = "A" THEN TRUE ELSE IF pat = "M" THEN FALSE
                                   ELSE IF pat = "AM" THEN n % 2 = 0 ELSE n % 3 # 0
                        IN IF arr THEN TArr(inner) ELSE TMap(inner)
DeepTypes == {Nest(p, pat, n) : p \in {TInt, TBytes}, pat \in {"A", "M", "AM", "AAM"},
                                n \in (13..40) \cup {63, 64, 65, 100, 127, 128, 129, 130}}
Init == IF Deep THEN ty \in DeepTypes ELSE ty \in Prims
Next == /\ ~Deep /\ TypeDepth(ty) < MaxDepth
        /\ ty' \in {TArr(ty), TMap(ty)}
RoundTrip == Representable(ty) =>
               /\ Unpack(Pack(ty)) = ty
               /\ Pack(ty).len = TypeDepth(ty) /\ Len(Pack(ty).bits) = TypeDepth(ty)
Emit == PrintT(<<"REPLAY", ToJson([ev |-> "type", prim |-> PrimOf(ty), lay |-> Layers(ty), depth |-> TypeDepth(ty),
                 pack |-> IF Representable(ty) THEN Pack(ty) ELSE [prim |-> "none", len |-> 0, bits |-> <<>>],
                 json |-> TypeJsonPath(ty), de |-> DecType(ty)])>>)
(* the nested JSON document and its linear rendering agree (checked for shallow types) *)
RECURSIVE PathOfJson(_)
PathOfJson(j) == IF "c" \in DOMAIN j THEN <<j.c>>
                 ELSE IF "Array" \in DOMAIN j THEN <<"Array">> \o PathOfJson(j.Array)
                 ELSE <<"Map">> \o PathOfJson(j.Map)
JsonPathOk == TypeDepth(ty) <= 12 => PathOfJson(TypeJson(ty)) = TypeJsonPath(ty)
Spec == Init /\ [][Next]_ty
=============================================================================
