------------------------------- MODULE WfText -------------------------------
(***************************************************************************)
(* L2, character level: the engine's recursive-descent parser transcribed  *)
(* over the TEXT of a filter (a sequence of code points), i.e. including   *)
(* what the token-level model (WfParser) takes for granted: where white    *)
(* space may stand, how keywords and operator spellings are recognised     *)
(* (by prefix, in declaration order, without a word boundary), where an    *)
(* identifier ends, which literal lexer is chosen at which place and how   *)
(* far it reads, and the first-characters heuristic that classifies a      *)
(* function argument.  Typing rules and AST shapes are those of WfParser   *)
(* (the same helper operators), so AstJson / Eval / Uses apply unchanged.  *)
(*                                                                         *)
(*   c == [txt, sch, max, star, idents]   p == position of the next char   *)
(*   idents: <<[name |-> string, cp |-> code points]>> for every field and *)
(*   function of the scheme (TLA+ strings have no code points)             *)
(*                                                                         *)
(* A result is [ok |-> TRUE, node, pos, ty] or a failure [ok |-> FALSE,    *)
(* un |-> BOOLEAN]; un = TRUE means "not judged": the text uses a form the *)
(* documentation does not define (short IPv4 inside a brace list) or a     *)
(* regular expression outside the fragment whose validity the model knows  *)
(* (letters, digits, space, underscore).                                   *)
(***************************************************************************)
EXTENDS WfParser, WfLit

TFail == [ok |-> FALSE, un |-> FALSE]
TUnspec == [ok |-> FALSE, un |-> TRUE]

At(c, p) == IF p >= 1 /\ p <= Len(c.txt) THEN c.txt[p] ELSE -1
IsSp(ch) == ch \in {32, 13, 10}
RECURSIVE Sk(_, _)
Sk(c, p) == IF IsSp(At(c, p)) THEN Sk(c, p + 1) ELSE p
Pre(c, p, w) == /\ p + Len(w) - 1 <= Len(c.txt)
                /\ \A i \in 1..Len(w) : c.txt[p + i - 1] = w[i]
Rest(c, p) == IF p > Len(c.txt) THEN <<>> ELSE SubSeq(c.txt, p, Len(c.txt))

(* spellings, as code points *)
W_or == <<111, 114>>          W_oror == <<124, 124>>
W_xor == <<120, 111, 114>>    W_xx == <<94, 94>>
W_and == <<97, 110, 100>>     W_aa == <<38, 38>>
W_not == <<110, 111, 116>>    W_bang == <<33>>
W_any == <<97, 110, 121>>     W_all == <<97, 108, 108>>
W_in == <<105, 110>>
W_contains == <<99, 111, 110, 116, 97, 105, 110, 115>>
W_matches == <<109, 97, 116, 99, 104, 101, 115>>
W_wildcard == <<119, 105, 108, 100, 99, 97, 114, 100>>
W_strict == <<115, 116, 114, 105, 99, 116, 32, 119, 105, 108, 100, 99, 97, 114, 100>>
W_band == <<98, 105, 116, 119, 105, 115, 101, 95, 97, 110, 100>>

(* lex_enum: first spelling, in declaration order, that is a prefix of the input *)
First(c, p, table) ==      \* table: <<[w, v]>>; returns [hit, v, n]
  LET I == {i \in 1..Len(table) : Pre(c, p, table[i].w)} IN
  IF I = {} THEN [hit |-> FALSE]
  ELSE LET i == CHOOSE j \in I : \A k \in I : j <= k IN [hit |-> TRUE, v |-> table[i].v, n |-> Len(table[i].w)]

LogicalOps == <<[w |-> W_or, v |-> "or"], [w |-> W_oror, v |-> "or"], [w |-> W_xor, v |-> "xor"], [w |-> W_xx, v |-> "xor"],
                [w |-> W_and, v |-> "and"], [w |-> W_aa, v |-> "and"]>>
(* ComparisonOp: "in", then the ordering operators, the integer operator, the bytes operators *)
OrdT(w, v) == [w |-> w, v |-> [k |-> "ord", v |-> v]]
CmpOps == <<[w |-> W_in, v |-> [k |-> "in"]],
            OrdT(<<101, 113>>, "eq"), OrdT(<<61, 61>>, "eq"), OrdT(<<110, 101>>, "ne"), OrdT(<<33, 61>>, "ne"),
            OrdT(<<103, 101>>, "ge"), OrdT(<<62, 61>>, "ge"), OrdT(<<108, 101>>, "le"), OrdT(<<60, 61>>, "le"),
            OrdT(<<103, 116>>, "gt"), OrdT(<<62>>, "gt"), OrdT(<<108, 116>>, "lt"), OrdT(<<60>>, "lt"),
            [w |-> <<38>>, v |-> [k |-> "band"]], [w |-> W_band, v |-> [k |-> "band"]],
            [w |-> W_contains, v |-> [k |-> "bop", v |-> "contains"]],
            [w |-> <<126>>, v |-> [k |-> "bop", v |-> "matches"]], [w |-> W_matches, v |-> [k |-> "bop", v |-> "matches"]],
            [w |-> W_wildcard, v |-> [k |-> "bop", v |-> "wildcard"]], [w |-> W_strict, v |-> [k |-> "bop", v |-> "strict wildcard"]]>>

(* lex_combining_op *)
TLookAhead(c, p) == LET q == Sk(c, p) f == First(c, q, LogicalOps) IN
                    IF f.hit THEN [op |-> f.v, pos |-> Sk(c, q + f.n)] ELSE [op |-> "none", pos |-> p]
IsNotAt(c, p) == Pre(c, p, W_not) \/ Pre(c, p, W_bang)
NotLen(c, p) == IF Pre(c, p, W_not) THEN 3 ELSE 1
(* QuantifierOp::lex_call: any / all followed, after optional spaces, by "(" *)
QuantAt(c, p) == IF Pre(c, p, W_any) /\ At(c, Sk(c, p + 3)) = 40 THEN "any"
                 ELSE IF Pre(c, p, W_all) /\ At(c, Sk(c, p + 3)) = 40 THEN "all" ELSE "none"

(* Identifier: [A-Za-z0-9_]+ ( "." [A-Za-z0-9_]+ )*  -- returns the end position or 0 *)
IsIdCh(ch) == (ch >= 48 /\ ch <= 57) \/ (ch >= 65 /\ ch <= 90) \/ (ch >= 97 /\ ch <= 122) \/ ch = 95
RECURSIVE IdRun(_, _), IdEnd(_, _)
IdRun(c, p) == IF IsIdCh(At(c, p)) THEN 1 + IdRun(c, p + 1) ELSE 0
IdEnd(c, p) == LET n == IdRun(c, p) IN
               IF n = 0 THEN 0 ELSE IF At(c, p + n) = 46 THEN IdEnd(c, p + n + 1) ELSE p + n
NameOf(c, cps) == LET I == {i \in 1..Len(c.idents) : c.idents[i].cp = cps} IN
                  IF I = {} THEN "" ELSE c.idents[CHOOSE i \in I : TRUE].name

(* literals: the existing character-level lexers applied to the rest of the text *)
LitInt(c, p) == LET r == LexInt(Rest(c, p)) IN IF r.ok THEN [ok |-> TRUE, tok |-> [k |-> "int", v |-> r.v], pos |-> p + r.n] ELSE TFail
LitBytes(c, p) ==
  LET s == Rest(c, p) r == LexBytes(s) IN
  IF r.ok THEN [ok |-> TRUE, tok |-> [k |-> "bytes", v |-> r.v, form |-> IF s[1] = 34 THEN "q" ELSE IF s[1] = 114 THEN "r" ELSE "h"], pos |-> p + r.n]
  ELSE TFail
(* quoted or raw string only (wildcard patterns) *)
LitStr(c, p) == IF At(c, p) \in {34, 114} THEN LitBytes(c, p) ELSE TFail
LitIpAddr(c, p) == LET r == LexIpAddr(Rest(c, p)) IN
                   IF r.ok = "yes" THEN [ok |-> TRUE, tok |-> [k |-> "ip", v |-> r.v.a], pos |-> p + r.n] ELSE TFail
ItemInt(c, p) ==          \* IntRange::lex
  LET a == LitInt(c, p) IN
  IF ~a.ok THEN TFail
  ELSE IF At(c, a.pos) = 46 /\ At(c, a.pos + 1) = 46
       THEN LET b == LitInt(c, a.pos + 2) IN
            IF ~b.ok THEN TFail
            ELSE IF IntCmp(b.tok.v, a.tok.v) < 0 THEN TFail
            ELSE [ok |-> TRUE, tok |-> [k |-> "irange", lo |-> a.tok.v, hi |-> b.tok.v], pos |-> b.pos]
       ELSE a
ItemIp(c, p) ==           \* IpRange::lex
  LET r == LexIpItem(Rest(c, p)) IN
  IF r.ok = "unspec" THEN TUnspec
  ELSE IF r.ok # "yes" THEN TFail
  ELSE [ok |-> TRUE, pos |-> p + r.n,
        tok |-> IF r.v.len = -1 THEN [k |-> "iprange", lo |-> r.v.a, hi |-> r.v.b]
                ELSE IF r.v.len = 8 * Len(r.v.a) THEN [k |-> "ip", v |-> r.v.a]
                ELSE [k |-> "cidr", v |-> r.v.a, len |-> r.v.len]]
ItemAt(c, p, T) == IF T.k = "Int" THEN ItemInt(c, p) ELSE IF T.k = "Ip" THEN ItemIp(c, p) ELSE LitBytes(c, p)
(* RhsValue::lex_with(input, T) for a scalar T *)
LitOf(c, p, T) == IF T.k = "Int" THEN LitInt(c, p) ELSE IF T.k = "Ip" THEN LitIpAddr(c, p) ELSE LitBytes(c, p)

(* ListName::lex: "$" then a maximal run of a-z 0-9 _ . *)
IsListCh(ch) == (ch >= 97 /\ ch <= 122) \/ (ch >= 48 /\ ch <= 57) \/ ch = 95 \/ ch = 46
RECURSIVE ListRun(_, _)
ListRun(c, p) == IF IsListCh(At(c, p)) THEN 1 + ListRun(c, p + 1) ELSE 0
LitList(c, p) == LET n == ListRun(c, p + 1) nm == SubSeq(c.txt, p + 1, p + n) IN
                 IF At(c, p) # 36 \/ n = 0 \/ ~ListNameOk(nm) THEN TFail
                 ELSE [ok |-> TRUE, tok |-> [k |-> "list", name |-> nm], pos |-> p + 1 + n]

(* regular expressions: the literal is scanned as the engine does; its validity is known to the  *)
(* model only for patterns made of letters, digits, space and underscore                         *)
SafeRe(pat) == \A i \in 1..Len(pat) : IsIdCh(pat[i]) \/ pat[i] = 32
RECURSIVE ReOfLits(_)
ReOfLits(pat) == IF pat = <<>> THEN [k |-> "empty"]
                 ELSE IF Len(pat) = 1 THEN [k |-> "lit", c |-> pat[1]]
                 ELSE [k |-> "cat", a |-> [k |-> "lit", c |-> pat[1]], b |-> ReOfLits(Tail(pat))]
LitRegex(c, p) ==
  IF At(c, p) = 34
  THEN LET r == ScanQuoted(Rest(c, p + 1)) IN
       IF ~r.ok THEN TFail
       ELSE IF ~SafeRe(r.pat) THEN TUnspec
       ELSE [ok |-> TRUE, tok |-> [k |-> "regex", pat |-> r.pat, re |-> ReOfLits(r.pat)], pos |-> p + 1 + r.n]
  ELSE IF At(c, p) = 114
  THEN LET r == LexRaw(Rest(c, p)) IN
       IF ~r.ok THEN TFail
       ELSE IF ~SafeRe(r.v) THEN TUnspec
       ELSE [ok |-> TRUE, tok |-> [k |-> "regex", pat |-> r.v, re |-> ReOfLits(r.v)], pos |-> p + r.n]
  ELSE TFail

RECURSIVE TLogical(_, _, _), TSimple(_, _, _), TMore(_, _, _, _, _, _), TInner(_, _, _, _, _),
          TIndex(_, _, _), TIdxLoop(_, _, _, _, _), TArgs(_, _, _, _, _, _), TArg(_, _, _), TCmp(_, _, _, _), TItems(_, _, _, _)

(* lex_rhs_values: "{" ( space* item )* space* "}" *)
TItems(c, p, T, acc) ==
  LET q == Sk(c, p) IN
  IF At(c, q) = 125 THEN [ok |-> TRUE, items |-> acc, pos |-> q + 1]
  ELSE LET r == ItemAt(c, q, T) IN
       IF ~r.ok THEN r ELSE TItems(c, r.pos, T, Append(acc, MkRhs(r.tok)))

(* ComparisonExpr::lex_with_lhs; p = position right after the left-hand side *)
TCmp(c, p, d, l) ==
  LET T == l.ty
      lhs == l.node
      Mk(op, rhs, q) == Ok([k |-> "cmp", lhs |-> lhs, op |-> op, rhs |-> rhs], q, IF MapEachCount(lhs) > 0 THEN TArr(TBool) ELSE TBool)
      MkTrue(q) == Ok([k |-> "cmp", lhs |-> lhs, op |-> "IsTrue", rhs |-> [k |-> "none"]], q, IF MapEachCount(lhs) > 0 THEN TArr(TBool) ELSE T)
  IN
  IF T = TBool THEN MkTrue(p)
  ELSE IF IsCont(T) /\ T.e = TBool THEN (IF MapEachCount(lhs) > 0 THEN TFail ELSE MkTrue(p))
  ELSE
    LET p0 == Sk(c, p)
        f == First(c, p0, CmpOps)
    IN IF ~f.hit THEN TFail
       ELSE LET t == f.v
                q == Sk(c, p0 + f.n)
            IN
            IF t.k = "in" /\ T.k \in {"Ip", "Bytes", "Int"}
            THEN IF At(c, q) = 36
                 THEN LET r == LitList(c, q) IN
                      IF ~r.ok THEN r
                      ELSE IF ListIdx(c.sch, T) = NoIdx THEN TFail
                      ELSE Mk("InList", MkRhs(r.tok), r.pos)
                 ELSE IF At(c, q) = 123
                      THEN LET r == TItems(c, q + 1, T, <<>>) IN
                           IF r.ok THEN Mk("OneOf", [k |-> "items", items |-> r.items], r.pos) ELSE r
                      ELSE TFail
            ELSE IF t.k = "ord" /\ T.k \in {"Ip", "Bytes", "Int"}
                 THEN LET r == LitOf(c, q, T) IN IF r.ok THEN Mk(OrdName(t.v), MkRhs(r.tok), r.pos) ELSE r
            ELSE IF t.k = "band" /\ T.k = "Int"
                 THEN LET r == LitInt(c, q) IN IF r.ok THEN Mk("BitwiseAnd", MkRhs(r.tok), r.pos) ELSE r
            ELSE IF t.k = "bop" /\ T.k = "Bytes"
                 THEN IF t.v = "contains"
                      THEN LET r == LitBytes(c, q) IN IF r.ok THEN Mk("Contains", MkRhs(r.tok), r.pos) ELSE r
                      ELSE IF t.v = "matches"
                      THEN LET r == LitRegex(c, q) IN IF r.ok THEN Mk("Matches", MkRhs(r.tok), r.pos) ELSE r
                      ELSE LET r == LitStr(c, q) IN
                           IF ~r.ok THEN r
                           ELSE IF WildValid(r.tok.v, c.star) THEN Mk(BopName(t.v), [k |-> "wild", v |-> r.tok.v, str |-> TRUE], r.pos)
                           ELSE TFail
            ELSE TFail

(* the index loop: "[" directly after the identifier or the previous "]"; spaces allowed inside *)
TIdxLoop(c, p, id, T, acc) ==
  IF At(c, p) # 91 THEN Ok([id |-> id, idx |-> acc], p, T)
  ELSE LET q == Sk(c, p + 1) IN
       IF At(c, q) = 42
       THEN LET e == Sk(c, q + 1) IN
            IF At(c, e) # 93 THEN TFail
            ELSE IF IsCont(T) THEN TIdxLoop(c, e + 1, id, T.e, Append(acc, [k |-> "each"])) ELSE TFail
       ELSE IF At(c, q) = 34
       THEN LET r == LitBytes(c, q) IN
            IF ~r.ok THEN TFail
            ELSE LET e == Sk(c, r.pos) IN
                 IF ~IsUtf8(r.tok.v) \/ At(c, e) # 93 THEN TFail
                 ELSE IF T.k = "Map" THEN TIdxLoop(c, e + 1, id, T.e, Append(acc, [k |-> "mk", v |-> r.tok.v])) ELSE TFail
       ELSE LET r == LitInt(c, q) IN
            IF ~r.ok THEN TFail
            ELSE LET e == Sk(c, r.pos) IN
                 IF ~IntIsU32(r.tok.v) \/ At(c, e) # 93 THEN TFail
                 ELSE IF T.k = "Array" THEN TIdxLoop(c, e + 1, id, T.e, Append(acc, [k |-> "ai", v |-> r.tok.v])) ELSE TFail

(* IndexExpr::lex_with = IdentifierExpr (field, or function call) followed by indexes *)
TIndex(c, p, d) ==
  LET e == IdEnd(c, p) IN
  IF e = 0 THEN TFail
  ELSE LET name == NameOf(c, SubSeq(c.txt, p, e - 1)) IN
       IF name = "" THEN TFail
       ELSE IF FieldIdx(c.sch, name) # NoIdx
            THEN TIdxLoop(c, e, [k |-> "field", name |-> name], FieldOf(c.sch, name).ty, <<>>)
       ELSE IF FuncIdx(c.sch, name) # NoIdx
            THEN IF d >= c.max THEN TFail
                 ELSE LET q == Sk(c, e) IN
                      IF At(c, q) # 40 THEN TFail
                      ELSE LET r == TArgs(c, Sk(c, q + 1), d + 1, FuncOf(c.sch, name), <<>>, <<>>) IN
                           IF r.ok THEN TIdxLoop(c, r.pos, r.node, r.ty, <<>>) ELSE r
       ELSE TFail

(* the argument loop of lex_with_function; p = position after "(" and spaces, or after an argument and spaces *)
TArgs(c, p, d, f, args, tys) ==
  IF At(c, p) = 41 \/ At(c, p) = -1
  THEN IF Len(args) < (IF IsVariadic(f) THEN 2 ELSE Len(f.params)) \/ At(c, p) # 41 THEN TFail
       ELSE LET node == [k |-> "call", name |-> f.name, args |-> args]
                ret == IF IsVariadic(f) THEN tys[1] ELSE f.ret
                ty == IF Len(args) > 0 /\ ArgMapEach(args[1]) > 0 THEN TArr(ret) ELSE ret
            IN Ok(node, p + 1, ty)
  ELSE IF Len(args) # 0 /\ At(c, p) # 44 THEN TFail
  ELSE LET q == Sk(c, IF Len(args) = 0 THEN p ELSE p + 1)
           r == TArg(c, q, d) IN
       IF ~r.ok THEN r
       ELSE IF ArgMapEach(r.node) > 0 /\ Len(args) # 0 THEN TFail
       ELSE IF ~IsVariadic(f) /\ Len(args) >= MaxArgs(f) THEN TFail
       ELSE IF IsVariadic(f)
            THEN IF (IF Len(args) = 0 THEN r.ty.k = "Array" \/ r.ty = TBytes ELSE r.ty = tys[1])
                 THEN TArgs(c, Sk(c, r.pos), d, f, Append(args, r.node), Append(tys, r.ty)) ELSE TFail
       ELSE IF ParamOk(f, args, r.node, r.ty)
            THEN TArgs(c, Sk(c, r.pos), d, f, Append(args, r.node), Append(tys, r.ty)) ELSE TFail

(* FunctionCallArgExpr::lex_with: classification by the first three characters, then blind attempts *)
IsAlnum(ch) == (ch >= 48 /\ ch <= 57) \/ (ch >= 65 /\ ch <= 90) \/ (ch >= 97 /\ ch <= 122)
IsHexCh(ch) == (ch >= 48 /\ ch <= 57) \/ (ch >= 65 /\ ch <= 70) \/ (ch >= 97 /\ ch <= 102)
CIsField(ch) == (IsAlnum(ch) /\ ~IsHexCh(ch)) \/ ch = 95
CIsFieldOrInt(ch) == IsAlnum(ch) \/ ch = 95
IndexThenMaybeCmp(c, p, d) ==       \* an index expression, continued as a comparison if an operator follows
  LET l == TIndex(c, p, d) IN
  IF ~l.ok THEN l
  ELSE IF First(c, Sk(c, l.pos), CmpOps).hit
       THEN LET r == TCmp(c, l.pos, d, l) IN IF r.ok THEN Ok([k |-> "alog", e |-> r.node], r.pos, r.ty) ELSE r
       ELSE Ok([k |-> "aidx", e |-> l.node], l.pos, l.ty)
TArg(c, p, d) ==
  LET c1 == At(c, p) c2 == At(c, p + 1) c3 == At(c, p + 2) IN
  IF c1 = -1 THEN TFail
  ELSE IF c1 = 34 \/ (c1 = 114 /\ c2 \in {35, 34})
  THEN LET r == LitBytes(c, p) IN IF r.ok THEN Ok([k |-> "alit", v |-> MkRhs(r.tok)], r.pos, TBytes) ELSE r
  ELSE IF c1 = 40 \/ IsNotAt(c, p) \/ QuantAt(c, p) # "none"
  THEN LET r == TLogical(c, p, d) IN IF r.ok THEN Ok([k |-> "alog", e |-> r.node], r.pos, r.ty) ELSE r
  ELSE IF CIsField(c1) \/ (CIsFieldOrInt(c1) /\ c2 # -1 /\ CIsField(c2))
          \/ (CIsFieldOrInt(c1) /\ c2 # -1 /\ CIsFieldOrInt(c2) /\ c3 # -1 /\ CIsField(c3))
  THEN IndexThenMaybeCmp(c, p, d)
  ELSE LET l == TIndex(c, p, d) IN      \* blind: index expression, else Ip, Int, Bytes literal
       IF l.ok THEN IndexThenMaybeCmp(c, p, d)
       ELSE IF l.un THEN l
       ELSE LET a == LitIpAddr(c, p) IN
            IF a.ok THEN Ok([k |-> "alit", v |-> MkRhs(a.tok)], a.pos, TIp)
            ELSE LET b == LitInt(c, p) IN
                 IF b.ok THEN Ok([k |-> "alit", v |-> MkRhs(b.tok)], b.pos, TInt)
                 ELSE LET s == LitBytes(c, p) IN
                      IF s.ok THEN Ok([k |-> "alit", v |-> MkRhs(s.tok)], s.pos, TBytes) ELSE TFail

(* lex_simple_expr *)
TSimple(c, p, d) ==
  IF At(c, p) = 40
  THEN IF d >= c.max THEN TFail
       ELSE LET r == TLogical(c, Sk(c, p + 1), d + 1) IN
            IF ~r.ok THEN r
            ELSE LET e == Sk(c, r.pos) IN
                 IF At(c, e) = 41 THEN Ok([k |-> "paren", e |-> r.node], e + 1, r.ty) ELSE TFail
  ELSE IF IsNotAt(c, p)
  THEN IF d >= c.max THEN TFail
       ELSE LET r == TSimple(c, Sk(c, p + NotLen(c, p)), d + 1) IN
            IF r.ok THEN Ok([k |-> "not", e |-> r.node], r.pos, r.ty) ELSE r
  ELSE IF QuantAt(c, p) # "none"
  THEN IF d >= c.max THEN TFail
       ELSE LET q == Sk(c, Sk(c, p + 3) + 1)
                r == TArg(c, q, d + 1) IN
            IF ~r.ok THEN r
            ELSE LET e == Sk(c, r.pos) IN
                 IF r.node.k # "alit" /\ r.ty = TArr(TBool) /\ ~(r.node.k = "aidx" /\ MapEachCount(r.node.e) > 0) /\ At(c, e) = 41
                 THEN Ok([k |-> "quant", op |-> QuantAt(c, p), arg |-> r.node], e + 1, TBool) ELSE TFail
  ELSE LET l == TIndex(c, p, d) IN IF l.ok THEN TCmp(c, l.pos, d, l) ELSE l

TInner(c, d, rhs, op, dummy) ==
  LET la == TLookAhead(c, rhs.pos) IN
  IF Prec(la.op) <= Prec(op) THEN [ok |-> TRUE, rhs |-> rhs, la |-> la]
  ELSE LET r == TMore(c, d, rhs, la.op, la, 0) IN IF r.ok THEN TInner(c, d, r, op, 0) ELSE r

TMore(c, d, lhs, minprec, la, dummy) ==
  IF la.op = "none" THEN Ok(lhs.node, la.pos, lhs.ty)
  ELSE LET op == la.op
           s == TSimple(c, la.pos, d) IN
       IF ~s.ok THEN s
       ELSE LET i == TInner(c, d, s, op, 0) IN
            IF ~i.ok THEN i
            ELSE LET rhs == i.rhs IN
                 IF ~((lhs.ty = TBool /\ rhs.ty = TBool) \/ (lhs.ty.k = "Array" /\ rhs.ty.k = "Array")) THEN TFail
                 ELSE LET node == IF lhs.node.k = "comb" /\ lhs.node.op = LopName(op)
                                  THEN [lhs.node EXCEPT !.items = Append(@, rhs.node)]
                                  ELSE [k |-> "comb", op |-> LopName(op), items |-> <<lhs.node, rhs.node>>]
                          nl == Ok(node, rhs.pos, lhs.ty)
                      IN IF Prec(i.la.op) < Prec(minprec) THEN nl ELSE TMore(c, d, nl, minprec, i.la, 0)

TLogical(c, p, d) ==
  LET s == TSimple(c, p, d) IN
  IF ~s.ok THEN s ELSE TMore(c, d, s, "none", TLookAhead(c, s.pos), 0)

----------------------------------------------------------------------------
(* str::trim: Unicode White_Space at both ends *)
IsUniSp(ch) == ch \in {9, 10, 11, 12, 13, 32, 133, 160, 5760, 8232, 8233, 8239, 8287, 12288} \/ (ch >= 8192 /\ ch <= 8202)
RECURSIVE TrimL(_), TrimR(_)
TrimL(s) == IF s # <<>> /\ IsUniSp(s[1]) THEN TrimL(Tail(s)) ELSE s
TrimR(s) == IF s # <<>> /\ IsUniSp(s[Len(s)]) THEN TrimR(SubSeq(s, 1, Len(s) - 1)) ELSE s
Trim(s) == TrimR(TrimL(s))

TCtx(txt, sch, max, star, idents) == [txt |-> Trim(txt), sch |-> sch, max |-> max, star |-> star, idents |-> idents]

(* FilterParser::parse on text: "yes" with the AST, "no", or "unspec" *)
ParseText(txt, sch, max, star, idents) ==
  LET c == TCtx(txt, sch, max, star, idents)
      r == TLogical(c, 1, 0)
  IN IF r.ok THEN (IF r.pos = Len(c.txt) + 1 /\ r.ty = TBool THEN [v |-> "yes", node |-> r.node] ELSE [v |-> "no"])
     ELSE IF r.un THEN [v |-> "unspec"] ELSE [v |-> "no"]
(* FilterParser::parse_value on text *)
ParseValueText(txt, sch, max, star, idents) ==
  LET c == TCtx(txt, sch, max, star, idents)
      r == TIndex(c, 1, 0)
  IN IF r.ok THEN (IF r.pos = Len(c.txt) + 1 /\ MapEachCount(r.node) = 0 THEN [v |-> "yes", node |-> r.node] ELSE [v |-> "no"])
     ELSE IF r.un THEN [v |-> "unspec"] ELSE [v |-> "no"]
=============================================================================
