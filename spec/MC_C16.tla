------------------------------- MODULE MC_C16 -------------------------------
(* Bounded model of scheme registration histories (property C16): every sequence of at most *)
(* MaxLen add_field / add_optional_field / add_function / add_list calls over colliding     *)
(* names; Unique is checked in every state; every finished history is emitted with the      *)
(* expected result of each call and the expected answers of the built scheme.               *)
EXTENDS WfRegistry, Json, SequencesExt
CONSTANTS MaxLen, Names, NTypes
VARIABLES st, ops, rs, done
vars == <<st, ops, rs, done>>
Types == <<TInt, TBytes, TArr(TInt)>>
ListTypes == {TInt, TIp}
ProbeNames == {"x", "x.y", "x.y.z", "X", "xy", "x_y", "x.y.z.w", "y", "XY", "x.Y", "x.yy"}
Alphabet ==
  {[op |-> "field", name |-> n, ty |-> Types[t], opt |-> o] : n \in Names, t \in 1..NTypes, o \in BOOLEAN}
  \cup {[op |-> "func", name |-> n] : n \in Names}
  \cup {[op |-> "list", ty |-> t] : t \in ListTypes}
Init == st = EmptyReg /\ ops = <<>> /\ rs = <<>> /\ done = FALSE
DoOp == /\ ~done /\ Len(ops) < MaxLen
        /\ \E o \in Alphabet : LET r == RegApply(st, o) IN
             st' = r.st /\ ops' = Append(ops, o) /\ rs' = Append(rs, r.res)
        /\ UNCHANGED done
Finish == ~done /\ done' = TRUE /\ UNCHANGED <<st, ops, rs>>
Next == DoOp \/ Finish
Spec == Init /\ [][Next]_vars
UniqueInv == Unique(st)
FailedAddIsNoop == [][(~done /\ ops' # ops /\ rs'[Len(rs')] # "ok") => st' = st]_vars
SortedProbes == SetToSortSeq(ProbeNames, LAMBDA a, b : TRUE)
Emit == done => PrintT(<<"REPLAY", ToJson([ev |-> "reg", ops |-> ops, res |-> rs,
                  probes |-> {Probe(st, n) : n \in ProbeNames}, summary |-> Summary(st)])>>)
=============================================================================
