---------------------------- MODULE WfConcurrent ----------------------------
(***************************************************************************)
(* Model of concurrent execution of compiled filters (property C18).       *)
(* A compiled filter and an execution context are immutable while filters  *)
(* execute, so an execution is a pure function of (filter, context); the   *)
(* only shared mutable state is lazily initialised and latched exactly     *)
(* once (the SIMD switch read from the environment, LazyLock semantics:    *)
(* one thread runs the initialiser, the others wait, all read the same     *)
(* value afterwards).                                                      *)
(*                                                                         *)
(* Threads take steps  FirstUse (acquire / initialise / publish the latch) *)
(* and Exec (one execution, result = Res[f][c], the sequential result).    *)
(* Invariants: every thread that has read the latch read the same value;   *)
(* every recorded execution result equals the sequential one; a result     *)
(* never depends on how many executions other threads have performed.      *)
(***************************************************************************)
EXTENDS Naturals, Sequences, FiniteSets, TLC

CONSTANTS NThreads, NExec, EnvValue     \* EnvValue: what the initialiser computes (a constant of the process)

Threads == 1..NThreads
Filters == 1..2
Ctxs == 1..2
(* an arbitrary but fixed sequential semantics *)
Res == [f \in Filters |-> [c \in Ctxs |-> (f + c) % 2 = 0]]

VARIABLES latch,      \* "unset" | "initialising" | "set"
          latchVal,   \* value once set
          seen,       \* seen[t] : "none" | "T" | "F"  - what thread t read from the latch
          done,       \* done[t] : number of executions performed
          log         \* log[t] : sequence of [f, c, r]
vars == <<latch, latchVal, seen, done, log>>

Init == /\ latch = "unset" /\ latchVal = "F"
        /\ seen = [t \in Threads |-> "none"]
        /\ done = [t \in Threads |-> 0]
        /\ log = [t \in Threads |-> <<>>]

(* LazyLock: the first thread to arrive runs the initialiser *)
BeginInit(t) == /\ seen[t] = "none" /\ latch = "unset"
                /\ latch' = "initialising" /\ UNCHANGED <<latchVal, seen, done, log>>
Publish == /\ latch = "initialising"
           /\ latch' = "set" /\ latchVal' = EnvValue /\ UNCHANGED <<seen, done, log>>
Read(t) == /\ seen[t] = "none" /\ latch = "set"
           /\ seen' = [seen EXCEPT ![t] = latchVal] /\ UNCHANGED <<latch, latchVal, done, log>>
Exec(t) == /\ seen[t] # "none" /\ done[t] < NExec
           /\ \E f \in Filters, c \in Ctxs :
                log' = [log EXCEPT ![t] = Append(@, [f |-> f, c |-> c, r |-> Res[f][c]])]
           /\ done' = [done EXCEPT ![t] = @ + 1] /\ UNCHANGED <<latch, latchVal, seen>>
Next == Publish \/ \E t \in Threads : BeginInit(t) \/ Read(t) \/ Exec(t)
Spec == Init /\ [][Next]_vars

LatchAgreement == \A t, u \in Threads : (seen[t] # "none" /\ seen[u] # "none") => seen[t] = seen[u]
LatchIsEnv == \A t \in Threads : seen[t] # "none" => seen[t] = EnvValue
Deterministic == \A t \in Threads : \A i \in 1..Len(log[t]) : log[t][i].r = Res[log[t][i].f][log[t][i].c]
InitOnce == latch = "set" => latchVal = EnvValue
=============================================================================
