CONSTANTS
  MaxItems = 2
SPECIFICATION Spec
INVARIANTS EvalIsMember Emit
CHECK_DEADLOCK FALSE
