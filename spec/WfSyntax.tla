------------------------------ MODULE WfSyntax ------------------------------
(***************************************************************************)
(* Schemes, tokens and AST node shapes of the wirefilter language, plus    *)
(* the static typing functions the engine evaluates with get_type().       *)
(*                                                                         *)
(* scheme == [fields |-> Seq([name, ty, opt]),                             *)
(*            funcs  |-> Seq([name, sem, params |-> Seq([kind, ty]),       *)
(*                            opts |-> Seq([kind, def]), ret]),            *)
(*            lists  |-> Seq(type)   (types with a registered list),       *)
(*            nne    |-> BOOLEAN     (value of  nil != x)]                 *)
(*                                                                         *)
(* Tokens (records, field k):                                              *)
(*   lp rp comma lb rb lbr rbr star eof                                    *)
(*   not(a)  lop(v: and|or|xor, a)  quant(v: any|all)                      *)
(*   ord(v: eq|ne|ge|le|gt|lt, a)  in  band(a)                             *)
(*   bop(v: contains|matches|wildcard|strict wildcard, a)                  *)
(*   id(name)  list(name, valid)                                           *)
(*   int(v)  irange(lo,hi)  bytes(v, form: q|r|h)  ip(v)  cidr(v,len)      *)
(*   iprange(lo,hi)  regex(pat, form, valid, re)  wild(v, form, valid)     *)
(* "a" (alias index) and any "txt" field are layout: the parser ignores    *)
(* them.                                                                   *)
(*                                                                         *)
(* AST:                                                                    *)
(*   logical ::= [k "comb", op, items] | [k "cmp", lhs, op, rhs]           *)
(*             | [k "paren", e] | [k "not", e] | [k "quant", op, arg]      *)
(*   lhs (index expr) ::= [id |-> ident, idx |-> Seq(index)]               *)
(*   ident ::= [k "field", name] | [k "call", name, args |-> Seq(arg)]     *)
(*   index ::= [k "ai", v |-> limbs] | [k "mk", v |-> bytes] | [k "each"]  *)
(*   arg   ::= [k "aidx", e |-> lhs] | [k "alit", v |-> rhs]               *)
(*           | [k "alog", e |-> logical]                                   *)
(*   rhs   ::= literal nodes, see MkRhs                                    *)
(***************************************************************************)
EXTENDS WfBase

NoIdx == 0

FieldIdx(sch, name) ==
  LET S == {i \in 1..Len(sch.fields) : sch.fields[i].name = name}
  IN IF S = {} THEN NoIdx ELSE CHOOSE i \in S : TRUE
FuncIdx(sch, name) ==
  LET S == {i \in 1..Len(sch.funcs) : sch.funcs[i].name = name}
  IN IF S = {} THEN NoIdx ELSE CHOOSE i \in S : TRUE
ListIdx(sch, T) ==
  LET S == {i \in 1..Len(sch.lists) : sch.lists[i] = T}
  IN IF S = {} THEN NoIdx ELSE CHOOSE i \in S : TRUE
FieldOf(sch, name) == sch.fields[FieldIdx(sch, name)]
FuncOf(sch, name)  == sch.funcs[FuncIdx(sch, name)]

IsVariadic(f) == f.sem = "concat"

----------------------------------------------------------------------------
(* literal nodes kept in the AST (layout removed) *)
MkRhs(tok) ==
  IF tok.k = "int" THEN [k |-> "int", v |-> tok.v]
  ELSE IF tok.k = "irange" THEN [k |-> "irange", lo |-> tok.lo, hi |-> tok.hi]
  ELSE IF tok.k = "bytes" THEN [k |-> "bytes", v |-> tok.v,
                                str |-> tok.form \in {"q", "r"}]
  ELSE IF tok.k = "ip" THEN [k |-> "ip", v |-> tok.v]
  ELSE IF tok.k = "cidr" THEN [k |-> "cidr", v |-> tok.v, len |-> tok.len]
  ELSE IF tok.k = "iprange" THEN [k |-> "iprange", lo |-> tok.lo, hi |-> tok.hi]
  ELSE IF tok.k = "regex" THEN [k |-> "regex", pat |-> tok.pat, re |-> tok.re]
  ELSE IF tok.k = "wild" THEN [k |-> "wild", v |-> tok.v, str |-> TRUE]
  ELSE [k |-> "list", name |-> tok.name]

LitType(r) == IF r.k = "int" THEN TInt ELSE IF r.k = "bytes" THEN TBytes ELSE TIp
LitValue(r) == IF r.k = "int" THEN VInt(r.v)
               ELSE IF r.k = "bytes" THEN VBytes(r.v) ELSE VIp(r.v)

----------------------------------------------------------------------------
(* static types, as computed by GetType on AST nodes *)
MapEachCount(ie) == Cardinality({i \in 1..Len(ie.idx) : ie.idx[i].k = "each"})

RECURSIVE TyLogical(_, _), TyIndex(_, _), TyIdent(_, _), TyArg(_, _)
ArgMapEach(a) == IF a.k = "aidx" THEN MapEachCount(a.e) ELSE 0

TyArg(a, sch) == IF a.k = "aidx" THEN TyIndex(a.e, sch)
                 ELSE IF a.k = "alit" THEN LitType(a.v)
                 ELSE TyLogical(a.e, sch)

RetType(c, sch) == LET f == FuncOf(sch, c.name)
                   IN IF IsVariadic(f) THEN TyArg(c.args[1], sch) ELSE f.ret

TyIdent(id, sch) ==
  IF id.k = "field" THEN FieldOf(sch, id.name).ty
  ELSE IF Len(id.args) > 0 /\ ArgMapEach(id.args[1]) > 0
       THEN TArr(RetType(id, sch)) ELSE RetType(id, sch)

RECURSIVE StripType(_, _)
StripType(T, n) == IF n = 0 THEN T ELSE StripType(T.e, n - 1)

TyIndex(ie, sch) == StripType(TyIdent(ie.id, sch), Len(ie.idx))

TyCmp(c, sch) == IF MapEachCount(c.lhs) > 0 THEN TArr(TBool)
                 ELSE IF c.op = "IsTrue" THEN TyIndex(c.lhs, sch)
                 ELSE TBool

TyLogical(n, sch) ==
  IF n.k = "comb" THEN TyLogical(n.items[1], sch)
  ELSE IF n.k = "cmp" THEN TyCmp(n, sch)
  ELSE IF n.k = "paren" THEN TyLogical(n.e, sch)
  ELSE IF n.k = "not" THEN TyLogical(n.e, sch)
  ELSE TBool

----------------------------------------------------------------------------
(* Nesting(ast): the number of enclosing parentheses, not operators,      *)
(* quantifiers and call argument lists on the deepest path (L1 definition  *)
(* of property C13).                                                       *)
RECURSIVE NestLogical(_), NestIndex(_), NestArg(_)
SeqMax(s) == IF s = <<>> THEN 0
             ELSE LET S == {s[i] : i \in 1..Len(s)} IN CHOOSE x \in S : \A y \in S : y <= x
NestArg(a) == IF a.k = "aidx" THEN NestIndex(a.e)
              ELSE IF a.k = "alit" THEN 0 ELSE NestLogical(a.e)
NestIndex(ie) == IF ie.id.k = "field" THEN 0
                 ELSE 1 + SeqMax(Strict([i \in 1..Len(ie.id.args) |-> NestArg(ie.id.args[i])]))
NestLogical(n) ==
  IF n.k = "comb" THEN SeqMax(Strict([i \in 1..Len(n.items) |-> NestLogical(n.items[i])]))
  ELSE IF n.k = "cmp" THEN NestIndex(n.lhs)
  ELSE IF n.k = "paren" THEN 1 + NestLogical(n.e)
  ELSE IF n.k = "not" THEN 1 + NestLogical(n.e)
  ELSE 1 + NestArg(n.arg)

----------------------------------------------------------------------------
(* Uses / UsesList (property C12) *)
RECURSIVE UsesLogical(_, _), UsesIndex(_, _), UsesArg(_, _)
UsesArg(a, f) == IF a.k = "aidx" THEN UsesIndex(a.e, f)
                 ELSE IF a.k = "alit" THEN FALSE ELSE UsesLogical(a.e, f)
UsesIndex(ie, f) == IF ie.id.k = "field" THEN ie.id.name = f
                    ELSE \E i \in 1..Len(ie.id.args) : UsesArg(ie.id.args[i], f)
UsesLogical(n, f) ==
  IF n.k = "comb" THEN \E i \in 1..Len(n.items) : UsesLogical(n.items[i], f)
  ELSE IF n.k = "cmp" THEN UsesIndex(n.lhs, f)
  ELSE IF n.k = "quant" THEN UsesArg(n.arg, f)
  ELSE UsesLogical(n.e, f)

RECURSIVE UsesListLogical(_, _), UsesListIndex(_, _), UsesListArg(_, _)
UsesListArg(a, f) == IF a.k = "aidx" THEN UsesListIndex(a.e, f)
                     ELSE IF a.k = "alit" THEN FALSE ELSE UsesListLogical(a.e, f)
(* inside an index expression only nested calls can contain list comparisons *)
UsesListIndex(ie, f) == IF ie.id.k = "field" THEN FALSE
                        ELSE \E i \in 1..Len(ie.id.args) : UsesListArg(ie.id.args[i], f)
UsesListLogical(n, f) ==
  IF n.k = "comb" THEN \E i \in 1..Len(n.items) : UsesListLogical(n.items[i], f)
  ELSE IF n.k = "cmp"
       THEN (n.op = "InList" /\ UsesIndex(n.lhs, f)) \/ UsesListIndex(n.lhs, f)
  ELSE IF n.k = "quant" THEN UsesListArg(n.arg, f)
  ELSE UsesListLogical(n.e, f)
=============================================================================
