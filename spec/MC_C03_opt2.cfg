CONSTANTS
  Part = 17
SPECIFICATION Spec
INVARIANTS ArityRule MapEachOnlyFirst Emit
CHECK_DEADLOCK FALSE
