CONSTANTS
  MaxLen = 4
  Names = {"x", "x.y", "x.y.z", "X", "xy", "x_y"}
  NTypes = 2
SPECIFICATION Spec
INVARIANTS UniqueInv Emit
PROPERTY FailedAddIsNoop
CHECK_DEADLOCK FALSE
