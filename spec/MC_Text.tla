------------------------------ MODULE MC_Text -------------------------------
(***************************************************************************)
(* Exhaustive texts for the character-level parser (WfText): every         *)
(* concatenation of at most MaxAtoms atoms of an atom set, WITHOUT any     *)
(* separator other than the space / line-feed atoms themselves.  The atom  *)
(* sets contain identifiers that begin with keywords (note = not + e,      *)
(* order = or + der, andy = and + y), both spellings of the operators,     *)
(* brackets, literals of every kind and white space, so that the texts     *)
(* exercise glued keywords, missing and superfluous white space, operator  *)
(* prefixes of one another (< <=, & &&, ! !=) and the three-character      *)
(* classification of call arguments; set "intitems" wraps the atoms (single  *)
(* characters) into  i in {...}  so that item lexing, ranges and the item    *)
(* separation rules are enumerated.  Each text is emitted with the        *)
(* verdict of ParseText, the AST JSON and the results on three contexts;   *)
(* the engine must agree (texts with verdict "unspec" are not emitted).    *)
(***************************************************************************)
EXTENDS WfText, WfEval, WfJson, Json
CONSTANTS MaxAtoms, Set
VARIABLES txt
Fn(n, pt, rt) == [name |-> n, sem |-> n, params |-> <<[kind |-> "Field", ty |-> pt]>>, opts |-> <<>>, ret |-> rt]
Sch == [fields |-> <<[name |-> "b1", ty |-> TBool, opt |-> TRUE], [name |-> "e", ty |-> TBool, opt |-> TRUE],
                     [name |-> "note", ty |-> TBool, opt |-> TRUE], [name |-> "y", ty |-> TBool, opt |-> TRUE],
                     [name |-> "i", ty |-> TInt, opt |-> TRUE], [name |-> "s", ty |-> TBytes, opt |-> TRUE],
                     [name |-> "vb", ty |-> TArr(TBool), opt |-> TRUE], [name |-> "ai", ty |-> TArr(TInt), opt |-> TRUE],
                     [name |-> "a.b", ty |-> TInt, opt |-> TRUE]>>,
        funcs |-> <<Fn("bb", TBool, TBool),
                    [name |-> "pb", sem |-> "idb", params |-> <<[kind |-> "Both", ty |-> TBytes]>>, opts |-> <<>>, ret |-> TBytes],
                    [name |-> "pip", sem |-> "idip", params |-> <<[kind |-> "Both", ty |-> TIp]>>, opts |-> <<>>, ret |-> TIp]>>, lists |-> <<TInt>>, listkinds |-> <<"set">>, nne |-> TRUE]
Idents == <<[name |-> "b1", cp |-> <<98, 49>>], [name |-> "e", cp |-> <<101>>], [name |-> "note", cp |-> <<110, 111, 116, 101>>],
            [name |-> "y", cp |-> <<121>>], [name |-> "i", cp |-> <<105>>], [name |-> "s", cp |-> <<115>>],
            [name |-> "vb", cp |-> <<118, 98>>], [name |-> "ai", cp |-> <<97, 105>>], [name |-> "a.b", cp |-> <<97, 46, 98>>],
            [name |-> "bb", cp |-> <<98, 98>>], [name |-> "pb", cp |-> <<112, 98>>], [name |-> "pip", cp |-> <<112, 105, 112>>]>>
I(n) == VInt(IntOfNat(n))
L1 == <<[kind |-> "set", sets |-> <<[name |-> <<108>>, vals |-> <<I(1)>>]>>]>>
Ctxs == << [sch |-> 1, vals |-> <<VBool(TRUE), VBool(FALSE), VBool(TRUE), VBool(TRUE), I(1), VBytes(<<97>>),
                                   VArr(TBool, <<VBool(TRUE), VBool(FALSE)>>), VArr(TInt, <<I(0), I(1)>>), I(1)>>, lists |-> L1],
            [sch |-> 1, vals |-> <<VBool(FALSE), VBool(TRUE), VBool(FALSE), VBool(FALSE), I(0), VBytes(<<97, 98>>),
                                   VArr(TBool, <<>>), VArr(TInt, <<>>), I(0)>>, lists |-> L1],
            [sch |-> 1, vals |-> <<Nil, Nil, Nil, Nil, Nil, Nil, Nil, Nil, Nil>>, lists |-> L1] >>
(* atoms as code points *)
SP == <<32>>   LF == <<10>>   LPa == <<40>>   RPa == <<41>>
Logic == <<<<98, 49>>, <<101>>, <<110, 111, 116, 101>>, <<121>>, SP, LF, LPa, RPa, <<110, 111, 116>>, <<33>>, <<97, 110, 100>>, <<38, 38>>,
           <<111, 114>>, <<124, 124>>, <<120, 111, 114>>, <<94, 94>>>>
Cmp == <<<<105>>, <<115>>, <<97, 46, 98>>, SP, <<61, 61>>, <<33, 61>>, <<60>>, <<60, 61>>, <<101, 113>>, <<105, 110>>, <<123>>, <<125>>, <<49>>, <<45, 49>>,
         <<48, 120, 49>>, <<46, 46>>, <<34, 97, 34>>, <<54, 49, 58, 54, 50>>, <<38>>, <<126>>, <<99, 111, 110, 116, 97, 105, 110, 115>>, <<36, 108>>,
         <<119, 105, 108, 100, 99, 97, 114, 100>>, <<115, 116, 114, 105, 99, 116>>>>     \* ... wildcard strict
Idx == <<<<118, 98>>, <<97, 105>>, <<91>>, <<93>>, <<42>>, <<48>>, <<97, 110, 121>>, <<97, 108, 108>>, LPa, RPa, SP, <<98, 98>>, <<98, 49>>, <<44>>,
         <<61, 61>>, <<49>>, <<110, 111, 116>>>>
(* literal items of a brace list, character by character:  i in {<body>}  over  - 0 1 7 8 9 a x . space     *)
IntItemChars == <<<<45>>, <<48>>, <<49>>, <<55>>, <<56>>, <<57>>, <<97>>, <<120>>, <<46>>, <<32>>>>
(* value expressions (parse_value): identifiers, index brackets, keys, calls *)
ValAtoms == <<<<97, 105>>, <<118, 98>>, <<97, 46, 98>>, <<105>>, <<91>>, <<93>>, <<48>>, <<49>>, <<42>>, <<34, 107, 34>>, SP, <<98, 98>>, LPa, RPa, <<98, 49>>, <<46>>, <<45, 49>>>>
(* literal arguments of a call,  pb(<body>)  and  pip(<body>)  as value expressions: the classification of an argument by its    *)
(* first three characters must not take a literal that begins with a hex letter (de:ad, fe80::1, ca:fe) for an identifier *)
ArgAtoms == <<<<100, 101>>, <<58>>, <<97, 100>>, <<100, 101, 58, 97, 100>>, <<102, 101, 56, 48, 58, 58, 49>>, <<58, 58, 49>>, <<49, 46, 50, 46, 51, 46, 52>>,
              <<99, 97, 58, 102, 101>>, <<115>>, <<34, 97, 34>>, SP, <<49>>, <<48, 49, 58, 48, 50>>, <<101>>, <<97, 46, 98>>, <<102, 58, 58>>>>
Atoms == IF Set \in {"argb", "argip"} THEN ArgAtoms ELSE IF Set = "logic" THEN Logic ELSE IF Set = "cmp" THEN Cmp ELSE IF Set = "intitems" THEN IntItemChars
         ELSE IF Set = "value" THEN ValAtoms ELSE Idx
Prefix == IF Set = "intitems" THEN <<105, 32, 105, 110, 32, 123>> ELSE IF Set = "argb" THEN <<112, 98, 40>> ELSE IF Set = "argip" THEN <<112, 105, 112, 40>> ELSE <<>>
Suffix == IF Set = "intitems" THEN <<125>> ELSE IF Set \in {"argb", "argip"} THEN <<41>> ELSE <<>>
Seqs == UNION {[1..n -> 1..Len(Atoms)] : n \in 1..MaxAtoms}
TextOf(q) == Prefix \o FlatSeq(Strict([i \in 1..Len(q) |-> Atoms[q[i]]])) \o Suffix
Init == txt \in {TextOf(q) : q \in Seqs}
Next == FALSE /\ UNCHANGED txt
Spec == Init /\ [][Next]_txt
RV == ParseValueText(txt, Sch, 128, -1, Idents)
EmitValue == RV.v # "unspec" =>
          PrintT(<<"REPLAY", ToJson(
            IF RV.v = "yes"
            THEN [ev |-> "value", sch |-> 1, max |-> 128, chars |-> txt, ok |-> TRUE, ast |-> ValueAstJson(RV.node),
                  runs |-> Strict([n \in 1..Len(Ctxs) |-> [ctx |-> n, out |-> "ok", res |-> EvalValue(RV.node, Ctxs[n], Sch)]]), uses |-> <<>>]
            ELSE [ev |-> "value", sch |-> 1, max |-> 128, chars |-> txt, ok |-> FALSE])>>)
R == ParseText(txt, Sch, 128, -1, Idents)
Emit == IF Set \in {"value", "argb", "argip"} THEN EmitValue ELSE R.v # "unspec" =>
          PrintT(<<"REPLAY", ToJson(
            IF R.v = "yes"
            THEN [ev |-> "filter", sch |-> 1, max |-> 128, chars |-> txt, ok |-> TRUE, ast |-> AstJson(R.node),
                  runs |-> Strict([n \in 1..Len(Ctxs) |-> [ctx |-> n, out |-> "ok", res |-> EvalFilter(R.node, Ctxs[n], Sch)]]), uses |-> <<>>]
            ELSE [ev |-> "filter", sch |-> 1, max |-> 128, chars |-> txt, ok |-> FALSE])>>)
ASSUME /\ PrintT(<<"REPLAY", ToJson([hdr |-> "scheme", sch |-> Sch])>>)
       /\ \A n \in 1..Len(Ctxs) : PrintT(<<"REPLAY", ToJson([hdr |-> "ctx", ctx |-> Ctxs[n]])>>)
=============================================================================
