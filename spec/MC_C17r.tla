------------------------------ MODULE MC_C17r -------------------------------
(***************************************************************************)
(* List-matcher state through histories (property C17: "matcher state set  *)
(* on a context is what executions see, survives a serialization round     *)
(* trip and is emptied by clear; the always-list matches every value and   *)
(* the never-list none").  Scheme: x: Int with a set list, s: Bytes with   *)
(* the never-list, ip: Ip with the always-list.  Every history of at most  *)
(* MaxLen operations over {set a value, install a named set, clear, round  *)
(* trip into a new context, execute `x in $l` / `s in $l` / `ip in $l`}    *)
(* on any live context - directly or through a temporary borrow of it - is *)
(* emitted and replayed step by step.                                      *)
(***************************************************************************)
EXTENDS WfContext, Json
CONSTANTS MaxLen
VARIABLES w, ops, rs, done
vars == <<w, ops, rs, done>>
Fld(n, t) == [name |-> n, ty |-> t, opt |-> TRUE]
Sch == [fields |-> <<Fld("x", TInt), Fld("s", TBytes), Fld("ip", TIp)>>, funcs |-> <<>>,
        lists |-> <<TInt, TBytes, TIp>>, listkinds |-> <<"set", "never", "always">>, nne |-> TRUE]
S == <<Sch>>
I5 == VInt(<<0, 0, 0, 5>>)
LTok == [k |-> "list", name |-> <<108>>, valid |-> TRUE, txt |-> "$l"]
F(n) == <<[k |-> "id", name |-> n], [k |-> "in"], LTok>>
M1 == [kind |-> "set", sets |-> <<[name |-> <<108>>, vals |-> <<I5>>]>>]
OpsOn(c) == {[op |-> "set", c |-> c, how |-> "name", fsch |-> 1, name |-> "x", v |-> I5],
             [op |-> "set", c |-> c, how |-> "name", fsch |-> 1, name |-> "s", v |-> VBytes(<<97>>)],
             [op |-> "set", c |-> c, how |-> "name", fsch |-> 1, name |-> "ip", v |-> VIp(<<1, 2, 3, 4>>)],
             [op |-> "setlist", c |-> c, li |-> 1, m |-> M1], [op |-> "clear", c |-> c], [op |-> "roundtrip", c |-> c],
             [op |-> "exec", c |-> c, fsch |-> 1, ts |-> F("x")], [op |-> "exec", c |-> c, fsch |-> 1, ts |-> F("s")],
             [op |-> "exec", c |-> c, fsch |-> 1, ts |-> F("ip")],
             \* through a temporary borrow (a guard over the same storage; dropping it writes through): a value set, a named
             \* set installed, a filter executed
             [op |-> "borrow", c |-> c, ops |-> <<[op |-> "set", c |-> c, how |-> "name", fsch |-> 1, name |-> "x", v |-> I5]>>],
             [op |-> "borrow", c |-> c, ops |-> <<[op |-> "setlist", c |-> c, li |-> 1, m |-> M1]>>],
             [op |-> "borrow", c |-> c, ops |-> <<[op |-> "exec", c |-> c, fsch |-> 1, ts |-> F("x")]>>]}
Init == w = <<NewCtx(S, 1)>> /\ ops = <<>> /\ rs = <<>> /\ done = FALSE
DoOp == /\ ~done /\ Len(ops) < MaxLen
        /\ \E c \in 1..Len(w) : \E o \in OpsOn(c) :
             LET r == Apply(S, w, o) IN w' = r.w /\ ops' = Append(ops, o) /\ rs' = Append(rs, r.res)
        /\ UNCHANGED done
Finish == ~done /\ ops # <<>> /\ done' = TRUE /\ UNCHANGED <<w, ops, rs>>
Next == DoOp \/ Finish
Spec == Init /\ [][Next]_vars
WorldTypeOK == TypeOK(S, w)
(* built-in matchers are stateless: whatever happened, `s in $l` is false and `ip in $l` is the presence of ip *)
BuiltIns == \A i \in 1..Len(ops) :
              (ops[i].op = "exec" /\ ops[i].ts = F("s")) => rs[i] = ResOk(VBool(FALSE))
Emit == done => PrintT(<<"REPLAY", ToJson([ev |-> "hist", init |-> <<1>>, ops |-> ops, res |-> rs, final |-> w])>>)
ASSUME PrintT(<<"REPLAY", ToJson([hdr |-> "schemes", schs |-> S])>>)
=============================================================================
