CONSTANTS
  MaxLen = 0
  Kind = "blocks"
SPECIFICATION Spec
INVARIANTS ConsumedInRange BlockTheorem Emit
CHECK_DEADLOCK FALSE
