------------------------------- MODULE WfIndex -------------------------------
(***************************************************************************)
(* L2: transcription of the three index-compilation strategies of          *)
(* engine/src/ast/index_expr.rs.                                           *)
(*   compile_one_with  (no [*])         get_nested over all indexes        *)
(*   compile_vec_with  (one, trailing)  get_nested over the prefix, then   *)
(*                                      iterate the container              *)
(*   compile_iter_with (otherwise)      MapEachIterator: an explicit stack *)
(*                                      of per-index iterators, depth      *)
(*                                      first; a leaf iterator's items are *)
(*                                      the results                        *)
(* Theorem checked by TLC (MC_C02): for every well-typed path and value,   *)
(*   Strategy(v, idxs) = Flatten(v, idxs)      (L1, WfEval)                *)
(*   and the stack never grows beyond the number of indexes.               *)
(***************************************************************************)
EXTENDS WfEval

(* FieldIndexIterator::new(val, idx): the items the iterator will yield *)
NewIter(val, ix) == IF ix.k = "each" THEN Elems(val)
                    ELSE LET s == Step(val, ix) IN IF IsNil(s) THEN <<>> ELSE <<s>>

(* MapEachIterator::next in a loop, collecting every returned item.  stack: sequence of item sequences. *)
RECURSIVE IterAll(_, _, _, _)
IterAll(stack, idxs, acc, maxdepth) ==
  IF stack = <<>> THEN [out |-> acc, maxdepth |-> maxdepth]
  ELSE LET top == stack[Len(stack)] IN
       IF top = <<>> THEN IterAll(SubSeq(stack, 1, Len(stack) - 1), idxs, acc, maxdepth)      \* finished: pop
       ELSE LET nxt == Head(top)
                st == [stack EXCEPT ![Len(stack)] = Tail(top)] IN
            IF Len(stack) = Len(idxs) THEN IterAll(st, idxs, Append(acc, nxt), maxdepth)       \* leaf: return item
            ELSE IterAll(Append(st, NewIter(nxt, idxs[Len(stack) + 1])), idxs, acc,
                         IF Len(stack) + 1 > maxdepth THEN Len(stack) + 1 ELSE maxdepth)
CompileIter(v, idxs) == IF IsNil(v) THEN [out |-> <<>>, maxdepth |-> 0]
                        ELSE IterAll(<<NewIter(v, idxs[1])>>, idxs, <<>>, 1)

Mec(idxs) == Cardinality({i \in 1..Len(idxs) : idxs[i].k = "each"})
(* the element sequence a comparison is applied to, as the engine computes it *)
Strategy(v, idxs) ==
  IF Mec(idxs) = 0 THEN LET x == GetPath(v, idxs) IN IF IsNil(x) THEN <<>> ELSE <<x>>
  ELSE IF Mec(idxs) = 1 /\ idxs[Len(idxs)].k = "each"
       THEN LET x == GetPath(v, SubSeq(idxs, 1, Len(idxs) - 1)) IN IF IsNil(x) THEN <<>> ELSE Elems(x)
  ELSE CompileIter(v, idxs).out
L1Elems(v, idxs) == IF Mec(idxs) = 0 THEN LET x == GetPath(v, idxs) IN IF IsNil(x) THEN <<>> ELSE <<x>>
                    ELSE Flatten(v, idxs)
=============================================================================
