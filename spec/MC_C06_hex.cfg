CONSTANTS
  MaxLen = 6
  Kind = "hex"
SPECIFICATION Spec
INVARIANTS ConsumedInRange Emit
CHECK_DEADLOCK FALSE
