CONSTANTS
  MaxLen = 6
  Kind = "raw"
SPECIFICATION Spec
INVARIANTS ConsumedInRange Emit
CHECK_DEADLOCK FALSE
