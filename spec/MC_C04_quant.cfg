CONSTANT Mode = "quant"
SPECIFICATION Spec
INVARIANTS QuantBare Emit
CHECK_DEADLOCK FALSE
