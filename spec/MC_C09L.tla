------------------------------- MODULE MC_C09L ------------------------------
(* `in {..}` over byte strings of every length class (property C09: "for every ... byte string x and every brace   *)
(* list - arbitrary length"): items and probes are x^n and its near miss x^(n-1)y for n around the powers of two   *)
(* up to 257 (machine-word and bit-mask boundaries of any length-indexed shortcut), every list of <= MaxItems      *)
(* items, every probe.  Expected answers from the declarative membership of WfEval.                                *)
EXTENDS WfParser, WfEval, WfJson, Json
CONSTANTS MaxItems
VARIABLES ls
Lens == <<0, 1, 7, 8, 9, 31, 32, 33, 63, 64, 65, 127, 128, 129, 255, 256, 257>>
RECURSIVE RepS(_, _)
Rep(n, c) == [i \in 1..n |-> c]
RepS(n, s) == IF n = 0 THEN "" ELSE s \o RepS(n - 1, s)
(* string k (1..2*Len(Lens)): odd = x^n, even = x^(n-1)y (for n = 0: the single byte y) *)
Str(k) == LET n == Lens[(k + 1) \div 2] IN
          IF k % 2 = 1 THEN Rep(n, 120) ELSE IF n = 0 THEN <<121>> ELSE Rep(n - 1, 120) \o <<121>>
Txt(k) == LET n == Lens[(k + 1) \div 2] IN
          "\"" \o (IF k % 2 = 1 THEN RepS(n, "x") ELSE IF n = 0 THEN "y" ELSE RepS(n - 1, "x") \o "y") \o "\""
NStr == 2 * Len(Lens)
Lists == UNION {[1..n -> 1..NStr] : n \in 0..MaxItems}
Init == ls \in Lists
Next == FALSE /\ UNCHANGED ls
Spec == Init /\ [][Next]_ls
Sch == [fields |-> <<[name |-> "s", ty |-> TBytes, opt |-> TRUE]>>, funcs |-> <<>>, lists |-> <<>>, nne |-> TRUE]
Ctxs == Strict([k \in 1..NStr |-> [sch |-> 1, vals |-> <<VBytes(Str(k))>>, lists |-> <<>>]]) \o <<[sch |-> 1, vals |-> <<Nil>>, lists |-> <<>>]>>
Toks == <<[k |-> "id", name |-> "s"], [k |-> "in"], [k |-> "lbr"]>>
        \o Strict([i \in 1..Len(ls) |-> [k |-> "bytes", v |-> Str(ls[i]), form |-> "q", txt |-> Txt(ls[i])]]) \o <<[k |-> "rbr"]>>
Vector(ts) ==
  LET r == ParseFilter(ts, Sch, 128) IN
  [ev |-> "filter", sch |-> 1, max |-> 128, ts |-> ts, ok |-> r.ok, ast |-> AstJson(r.node),
   runs |-> Strict([n \in 1..Len(Ctxs) |-> [ctx |-> n, out |-> "ok", res |-> EvalFilter(r.node, Ctxs[n], Sch)]]), uses |-> <<>>]
(* the expected answers are the declarative ones: probe k is a member iff some item names the same string *)
EvalIsMember == \A k \in 1..NStr : EvalFilter(ParseFilter(Toks, Sch, 128).node, Ctxs[k], Sch) = (\E i \in 1..Len(ls) : Str(ls[i]) = Str(k))
Emit == PrintT(<<"REPLAY", ToJson(Vector(Toks))>>)
ASSUME /\ PrintT(<<"REPLAY", ToJson([hdr |-> "scheme", sch |-> Sch])>>)
       /\ \A n \in 1..Len(Ctxs) : PrintT(<<"REPLAY", ToJson([hdr |-> "ctx", ctx |-> Ctxs[n]])>>)
=============================================================================
