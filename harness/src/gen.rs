//! Seeded random generators: schemes, contexts, literals, well-typed filters (as token
//! sequences) and single-token mutations of them.  Everything generated here is judged by
//! the TLA+ specification (trace validation), never by expectations computed in Rust.
use crate::model::*;
use rand::rngs::StdRng;
use rand::{Rng, SeedableRng};
use serde_json::{json, Value};
use std::net::{IpAddr, Ipv4Addr, Ipv6Addr};

pub fn rng_from(seed: u64) -> StdRng {
    StdRng::seed_from_u64(seed)
}

fn p(k: &str, ty: Ty) -> ParamSpec {
    ParamSpec {
        kind: k.into(),
        ty,
    }
}

fn func(name: &str, sem: &str, params: Vec<ParamSpec>, opts: Vec<OptSpec>, ret: Ty) -> FuncSpec {
    FuncSpec {
        name: name.into(),
        sem: sem.into(),
        params,
        opts,
        ret,
    }
}

pub fn function_family() -> Vec<FuncSpec> {
    let ab = Ty::arr(Ty::Bool);
    vec![
        func("idb", "idb", vec![p("Both", Ty::Bytes)], vec![], Ty::Bytes),
        func("idi", "idi", vec![p("Both", Ty::Int)], vec![], Ty::Int),
        func("idip", "idip", vec![p("Both", Ty::Ip)], vec![], Ty::Ip),
        func("ida", "ida", vec![p("Field", Ty::arr(Ty::Int))], vec![], Ty::arr(Ty::Int)),
        func("drop_empty", "drop_empty", vec![p("Field", Ty::Bytes)], vec![], Ty::Bytes),
        func("blen", "blen", vec![p("Both", Ty::Bytes)], vec![], Ty::Int),
        func("alen", "alen", vec![p("Field", Ty::arr(Ty::Int))], vec![], Ty::Int),
        func(
            "pair",
            "pair",
            vec![p("Both", Ty::Bytes), p("Both", Ty::Bytes)],
            vec![],
            Ty::Bytes,
        ),
        func(
            "opt2",
            "opt2",
            vec![p("Both", Ty::Bytes)],
            vec![
                OptSpec {
                    kind: "Both".into(),
                    def: Val::bytes(b"d1"),
                },
                OptSpec {
                    kind: "Literal".into(),
                    def: Val::int(7),
                },
            ],
            Ty::Bytes,
        ),
        func(
            "lit_only",
            "lit_only",
            vec![p("Field", Ty::Bytes), p("Literal", Ty::Int)],
            vec![],
            Ty::Bytes,
        ),
        func("fld_only", "fld_only", vec![p("Field", Ty::Int)], vec![], Ty::Int),
        func("bb", "bb", vec![p("Field", Ty::Bool)], vec![], Ty::Bool),
        func("ba", "ba", vec![p("Field", Ty::Bool)], vec![], ab.clone()),
        func("ab", "ab", vec![p("Field", ab.clone())], vec![], Ty::Bool),
        func("aa", "aa", vec![p("Field", ab.clone())], vec![], ab.clone()),
        func(
            "both",
            "both",
            vec![p("Field", Ty::Bool), p("Field", Ty::Bool)],
            vec![],
            Ty::Bool,
        ),
        func("concat", "concat", vec![], vec![], Ty::Bytes),
        func("ctxfn", "ctxfn", vec![], vec![], Ty::Int),
        // three arguments: with a mapped first argument the two others may be one cheap and one expensive
        func("join3", "join3", vec![p("Both", Ty::Bytes), p("Both", Ty::Bytes), p("Both", Ty::Bytes)], vec![], Ty::Bytes),
    ]
}

pub fn rich_fields(opt: bool) -> Vec<FieldSpec> {
    let f = |n: &str, ty: Ty| FieldSpec {
        name: n.into(),
        ty,
        opt,
    };
    vec![
        f("i", Ty::Int),
        f("j", Ty::Int),
        f("s", Ty::Bytes),
        f("t.u", Ty::Bytes),
        f("ip", Ty::Ip),
        f("b1", Ty::Bool),
        f("b2", Ty::Bool),
        f("b3", Ty::Bool),
        f("ai", Ty::arr(Ty::Int)),
        f("aai", Ty::arr(Ty::arr(Ty::Int))),
        f("aaai", Ty::arr(Ty::arr(Ty::arr(Ty::Int)))),
        f("mi", Ty::map(Ty::Int)),
        f("mai", Ty::map(Ty::arr(Ty::Int))),
        f("ami", Ty::arr(Ty::map(Ty::Int))),
        f("mmb", Ty::map(Ty::map(Ty::Bytes))),
        f("vb", Ty::arr(Ty::Bool)),
        f("vvb", Ty::arr(Ty::arr(Ty::Bool))),
        f("mb", Ty::map(Ty::Bool)),
        f("abytes", Ty::arr(Ty::Bytes)),
        f("aip", Ty::arr(Ty::Ip)),
        f("mbytes", Ty::map(Ty::Bytes)),
    ]
}

/// scalar-only scheme (C01)
pub fn scalar_scheme(opt: bool, nne: bool) -> SchemeSpec {
    SchemeSpec {
        fields: rich_fields(opt).into_iter().take(8).collect(),
        funcs: vec![],
        lists: vec![],
        listkinds: vec![],
        nne,
    }
}

pub fn rich_scheme(opt: bool, nne: bool, funcs: bool, lists: &[(&str, Ty)]) -> SchemeSpec {
    SchemeSpec {
        fields: rich_fields(opt),
        funcs: if funcs { function_family() } else { vec![] },
        lists: lists.iter().map(|(_, t)| t.clone()).collect(),
        listkinds: lists.iter().map(|(k, _)| k.to_string()).collect(),
        nne,
    }
}

// ---------------------------------------------------------------------------------------
// literals

const INT_POOL: [i64; 16] = [
    i64::MIN,
    i64::MIN + 1,
    -65536,
    -1,
    0,
    1,
    7,
    255,
    256,
    65535,
    65536,
    1 << 32,
    (1 << 32) - 1,
    1 << 48,
    i64::MAX - 1,
    i64::MAX,
];

pub fn gen_int(r: &mut StdRng) -> i64 {
    match r.random_range(0..10) {
        0..=4 => INT_POOL[r.random_range(0..INT_POOL.len())],
        5 => r.random_range(-3..4),
        6 => r.random::<i64>(),
        7 => (r.random::<i64>()) >> r.random_range(0..63),
        8 => INT_POOL[r.random_range(0..INT_POOL.len())].wrapping_add(r.random_range(-2..3)),
        _ => r.random_range(-70000..70000),
    }
}

pub fn int_text(r: &mut StdRng, x: i64) -> String {
    if x >= 0 {
        match r.random_range(0..4) {
            0 => format!("0x{:x}", x),
            1 => format!("0x{:X}", x),
            2 => format!("0{:o}", x),
            _ => format!("{}", x),
        }
    } else {
        format!("{}", x)
    }
}

pub fn int_tok(r: &mut StdRng, x: i64) -> Tok {
    Tok::Int {
        v: limbs(x),
        txt: int_text(r, x),
    }
}

const BYTES_POOL: [&[u8]; 12] = [
    b"",
    b"a",
    b"A",
    b"ab",
    b"b",
    b"abc",
    b"\x00",
    b"\xff",
    b"\xff\xfe",
    b"a\x00",
    b"a\"b",
    b"a\\b",
];

pub fn gen_bytes(r: &mut StdRng) -> Vec<u8> {
    match r.random_range(0..10) {
        0..=4 => BYTES_POOL[r.random_range(0..BYTES_POOL.len())].to_vec(),
        5 => {
            let n = r.random_range(0..6);
            (0..n).map(|_| b"abAB"[r.random_range(0..4)]).collect()
        }
        6 => {
            let n = r.random_range(0..8);
            (0..n).map(|_| r.random::<u8>()).collect()
        }
        7 => "h\u{e9}llo \u{4e16}".as_bytes()[..r.random_range(0..11)].to_vec(),
        8 => {
            let n = r.random_range(1..4);
            (0..n).map(|_| b"\"#\\a"[r.random_range(0..4)]).collect()
        }
        _ => vec![b'x'; r.random_range(0..90)],
    }
}

fn is_ipish(s: &[u8]) -> bool {
    match std::str::from_utf8(s) {
        Ok(t) => {
            use std::str::FromStr;
            IpAddr::from_str(t).is_ok()
                || t.split_once('/')
                    .map(|(a, l)| IpAddr::from_str(a).is_ok() && l.parse::<u8>().is_ok())
                    .unwrap_or(false)
        }
        Err(_) => false,
    }
}

/// render bytes as a quoted string literal
pub fn quoted_text(r: &mut StdRng, b: &[u8]) -> String {
    let mut s = String::from("\"");
    // valid UTF-8 runs may be written raw; everything else is escaped
    let mut i = 0;
    while i < b.len() {
        let c = b[i];
        if c == b'"' {
            s.push_str("\\\"");
            i += 1;
        } else if c == b'\\' {
            s.push_str("\\\\");
            i += 1;
        } else if (0x20..0x7f).contains(&c) && r.random_range(0..8) != 0 {
            s.push(c as char);
            i += 1;
        } else if c >= 0x80 {
            // try a raw multi-byte char
            let mut done = false;
            for l in 2..=4 {
                if i + l <= b.len() {
                    if let Ok(t) = std::str::from_utf8(&b[i..i + l]) {
                        if t.chars().count() == 1 && r.random_range(0..2) == 0 {
                            s.push_str(t);
                            i += l;
                            done = true;
                        }
                        break;
                    }
                }
            }
            if !done {
                esc(r, &mut s, c);
                i += 1;
            }
        } else {
            esc(r, &mut s, c);
            i += 1;
        }
    }
    s.push('"');
    s
}

fn esc(r: &mut StdRng, s: &mut String, c: u8) {
    match r.random_range(0..3) {
        0 => s.push_str(&format!("\\x{:02x}", c)),
        1 => s.push_str(&format!("\\x{:02X}", c)),
        _ => s.push_str(&format!("\\{:03o}", c)),
    }
}

/// raw string text if the bytes allow it
pub fn raw_text(r: &mut StdRng, b: &[u8]) -> Option<String> {
    let t = std::str::from_utf8(b).ok()?;
    // need n > longest run of '#' directly following a '"'
    let mut need = 0usize;
    let bs = t.as_bytes();
    for i in 0..bs.len() {
        if bs[i] == b'"' {
            let mut k = 0;
            while i + 1 + k < bs.len() && bs[i + 1 + k] == b'#' {
                k += 1;
            }
            need = need.max(k + 1);
        }
    }
    let n = need + if r.random_range(0..3) == 0 { r.random_range(0..3) } else { 0 };
    let h = "#".repeat(n);
    Some(format!("r{h}\"{t}\"{h}"))
}

pub fn hex_text(r: &mut StdRng, b: &[u8]) -> Option<String> {
    if b.len() < 2 || b.len() > 6 {
        return None;
    }
    let mut s = String::new();
    for (i, c) in b.iter().enumerate() {
        if i > 0 {
            s.push([':', '-', '.'][r.random_range(0..3)]);
        }
        if r.random_range(0..2) == 0 {
            s.push_str(&format!("{:02x}", c));
        } else {
            s.push_str(&format!("{:02X}", c));
        }
    }
    // an all-decimal dotted form could also be read as an IPv4 address: avoid dots there
    if s.chars().all(|c| c.is_ascii_digit() || c == '.') && s.contains('.') {
        s = s.replace('.', ":");
    }
    Some(s)
}

/// a bytes literal token in a random admissible form (`allow_hex`: hex-pair form permitted)
pub fn bytes_tok(r: &mut StdRng, b: &[u8], allow_hex: bool) -> Tok {
    let mut b = b.to_vec();
    if is_ipish(&b) {
        b.push(b'_');
    }
    let choice = r.random_range(0..4);
    if choice == 0 && allow_hex {
        if let Some(t) = hex_text(r, &b) {
            return Tok::Bytes {
                v: b,
                form: "h".into(),
                txt: t,
            };
        }
    }
    if choice == 1 {
        if let Some(t) = raw_text(r, &b) {
            return Tok::Bytes {
                v: b,
                form: "r".into(),
                txt: t,
            };
        }
    }
    let t = quoted_text(r, &b);
    Tok::Bytes {
        v: b,
        form: "q".into(),
        txt: t,
    }
}

pub fn gen_ip(r: &mut StdRng) -> IpAddr {
    match r.random_range(0..12) {
        0 => IpAddr::V4(Ipv4Addr::new(0, 0, 0, 0)),
        1 => IpAddr::V4(Ipv4Addr::new(1, 2, 3, 4)),
        2 => IpAddr::V4(Ipv4Addr::new(255, 255, 255, 255)),
        3 => IpAddr::V4(Ipv4Addr::new(10, 0, 0, r.random_range(0..8))),
        4 => IpAddr::V4(Ipv4Addr::from(r.random::<u32>())),
        5 => IpAddr::V6(Ipv6Addr::UNSPECIFIED),
        6 => IpAddr::V6(Ipv6Addr::LOCALHOST),
        7 => IpAddr::V6(Ipv4Addr::new(1, 2, 3, 4).to_ipv6_mapped()),
        8 => IpAddr::V6(Ipv6Addr::from(u128::MAX)),
        9 => IpAddr::V6(Ipv6Addr::from(r.random::<u128>())),
        10 => IpAddr::V6(Ipv6Addr::new(0x2001, 0xdb8, 0, 0, 0, 0, 0, r.random_range(0..8))),
        _ => IpAddr::V6(Ipv6Addr::from(r.random::<u128>() >> r.random_range(0..128))),
    }
}

pub fn ip_text(r: &mut StdRng, ip: &IpAddr) -> String {
    match ip {
        IpAddr::V4(a) => a.to_string(),
        IpAddr::V6(a) => match r.random_range(0..4) {
            0 => {
                let s = a.segments();
                format!(
                    "{:x}:{:x}:{:x}:{:x}:{:x}:{:x}:{:x}:{:x}",
                    s[0], s[1], s[2], s[3], s[4], s[5], s[6], s[7]
                )
            }
            1 => a.to_string().to_uppercase(),
            _ => a.to_string(),
        },
    }
}

pub fn ip_tok(r: &mut StdRng, ip: &IpAddr) -> Tok {
    Tok::Ip {
        v: ip_octets(ip),
        txt: ip_text(r, ip),
    }
}

fn mask(o: &[u8], len: u8) -> Vec<u8> {
    o.iter()
        .enumerate()
        .map(|(i, b)| {
            let hi = 8 * (i as u32 + 1);
            let len = len as u32;
            if hi <= len {
                *b
            } else if hi - 8 >= len {
                0
            } else {
                let keep = len - (hi - 8);
                b & (0xffu8 << (8 - keep))
            }
        })
        .collect()
}

pub fn cidr_tok(r: &mut StdRng, ip: &IpAddr) -> Tok {
    let o = ip_octets(ip);
    let max = (o.len() * 8) as u8;
    let len = match r.random_range(0..4) {
        0 => 0,
        1 => max,
        2 => max - r.random_range(0..4),
        _ => r.random_range(0..=max),
    };
    let m = mask(&o, len);
    let a = octets_ip(&m);
    Tok::Cidr {
        v: m,
        len,
        txt: format!("{}/{}", ip_text(r, &a), len),
    }
}

/// a CIDR block whose address has bits set below the prefix length (malformed: must be rejected)
pub fn cidr_tok_hostbits(r: &mut StdRng, ip: &IpAddr) -> Tok {
    let mut o = ip_octets(ip);
    let max = (o.len() * 8) as u8;
    let len = match r.random_range(0..3) {
        0 => max - 1,
        1 => r.random_range(0..max),
        _ => [0, 7, 8, 9, 24, 31][r.random_range(0..6)].min(max - 1),
    };
    if mask(&o, len) == o {
        // set one host bit: the lowest one, or the one just below the prefix
        let bit = if r.random_range(0..2) == 0 { max as usize - 1 } else { len as usize };
        o[bit / 8] |= 0x80u8 >> (bit % 8);
    }
    let a = octets_ip(&o);
    Tok::Cidr { v: o, len, txt: format!("{}/{}", ip_text(r, &a), len) }
}

/// reversed (lo > hi) or mixed-family address range (malformed)
pub fn iprange_tok_bad(r: &mut StdRng, a: &IpAddr, b: &IpAddr) -> Option<Tok> {
    let (oa, ob) = (ip_octets(a), ip_octets(b));
    if oa.len() != ob.len() {
        return Some(Tok::Iprange { lo: oa, hi: ob, txt: format!("{}..{}", ip_text(r, a), ip_text(r, b)) });
    }
    if oa == ob {
        return None;
    }
    let (lo, hi, la, lb) = if oa > ob { (oa, ob, a, b) } else { (ob, oa, b, a) };
    Some(Tok::Iprange { lo, hi, txt: format!("{}..{}", ip_text(r, la), ip_text(r, lb)) })
}

pub fn iprange_tok(r: &mut StdRng, a: &IpAddr, b: &IpAddr) -> Option<Tok> {
    let (oa, ob) = (ip_octets(a), ip_octets(b));
    if oa.len() != ob.len() {
        return None;
    }
    let (lo, hi, la, lb) = if oa <= ob { (oa, ob, a, b) } else { (ob, oa, b, a) };
    Some(Tok::Iprange {
        lo,
        hi,
        txt: format!("{}..{}", ip_text(r, la), ip_text(r, lb)),
    })
}

// ---------------------------------------------------------------------------------------
// regular expressions and wildcards (property C11)

fn re_lit(c: u8) -> Value {
    json!({"k": "lit", "c": c})
}

const RE_ALPHA: [u8; 10] = [b'a', b'b', b'A', b'"', b']', b'[', 10, 0xff, b'.', b'-'];

pub fn gen_re(r: &mut StdRng, depth: usize) -> Value {
    let atom = |r: &mut StdRng| -> Value {
        match r.random_range(0..8) {
            0..=3 => re_lit(RE_ALPHA[r.random_range(0..RE_ALPHA.len())]),
            4 => json!({"k": "any"}),
            5 | 6 => {
                let n = r.random_range(1..4);
                let mut rs = Vec::new();
                for _ in 0..n {
                    let lo = RE_ALPHA[r.random_range(0..RE_ALPHA.len())];
                    let hi = if r.random_range(0..3) == 0 { lo.saturating_add(r.random_range(0..40)) } else { lo };
                    rs.push(json!({"lo": lo, "hi": hi}));
                }
                json!({"k": "cls", "neg": r.random_range(0..3) == 0, "rs": rs})
            }
            _ => re_lit(b'a'),
        }
    };
    if depth == 0 {
        return atom(r);
    }
    match r.random_range(0..10) {
        0 | 1 => {
            let a = gen_re(r, depth - 1);
            let b = gen_re(r, depth - 1);
            let wrap = |x: Value| if x["k"] == "alt" { json!({"k": "grp", "a": x}) } else { x };
            json!({"k": "cat", "a": wrap(a), "b": wrap(b)})
        }
        2 => json!({"k": "alt", "a": gen_re(r, depth - 1), "b": gen_re(r, depth - 1)}),
        3 => json!({"k": "grp", "a": gen_re(r, depth - 1)}),
        4 | 5 | 6 => {
            let inner = gen_re(r, depth - 1);
            let a = if ["lit", "any", "cls", "grp"].contains(&inner["k"].as_str().unwrap()) { inner } else { json!({"k": "grp", "a": inner}) };
            let kind = ["star", "plus", "opt"][r.random_range(0..3)];
            json!({"k": kind, "a": a})
        }
        7 => {
            let a = gen_re(r, depth - 1);
            let a = if a["k"] == "alt" { json!({"k": "grp", "a": a}) } else { a };
            if r.random_range(0..2) == 0 {
                json!({"k": "cat", "a": {"k": "bol"}, "b": a})
            } else {
                json!({"k": "cat", "a": a, "b": {"k": "eol"}})
            }
        }
        _ => atom(r),
    }
}

fn esc_x(b: u8, out: &mut Vec<u8>) {
    out.extend_from_slice(format!("\\x{:02x}", b).as_bytes());
}

fn render_byte(b: u8, out: &mut Vec<u8>) {
    const META: &[u8] = b"\\.+*?()|[]{}^$#&-~";
    if !(32..=126).contains(&b) {
        esc_x(b, out)
    } else if META.contains(&b) {
        out.push(b'\\');
        out.push(b)
    } else {
        out.push(b)
    }
}

fn render_cls_byte(b: u8, out: &mut Vec<u8>) {
    const META: &[u8] = b"\\][^-&~";
    if !(32..=126).contains(&b) {
        esc_x(b, out)
    } else if META.contains(&b) {
        out.push(b'\\');
        out.push(b)
    } else {
        out.push(b)
    }
}

pub fn render_re(re: &Value, out: &mut Vec<u8>) {
    match re["k"].as_str().unwrap() {
        "empty" => {}
        "lit" => render_byte(re["c"].as_u64().unwrap() as u8, out),
        "any" => out.push(b'.'),
        "cls" => {
            out.push(b'[');
            if re["neg"] == true {
                out.push(b'^');
            }
            for rg in re["rs"].as_array().unwrap() {
                let (lo, hi) = (rg["lo"].as_u64().unwrap() as u8, rg["hi"].as_u64().unwrap() as u8);
                render_cls_byte(lo, out);
                if lo != hi {
                    out.push(b'-');
                    render_cls_byte(hi, out);
                }
            }
            out.push(b']');
        }
        "cat" => {
            render_re(&re["a"], out);
            render_re(&re["b"], out);
        }
        "alt" => {
            render_re(&re["a"], out);
            out.push(b'|');
            render_re(&re["b"], out);
        }
        "grp" => {
            out.push(b'(');
            render_re(&re["a"], out);
            out.push(b')');
        }
        "star" | "plus" | "opt" => {
            render_re(&re["a"], out);
            out.push(match re["k"].as_str().unwrap() {
                "star" => b'*',
                "plus" => b'+',
                _ => b'?',
            });
        }
        "bol" => out.push(b'^'),
        _ => out.push(b'$'),
    }
}

/// source of a quoted regex literal (after the opening quote, including the closing one)
pub fn quote_regex(pat: &[u8]) -> Vec<u8> {
    let mut out = Vec::new();
    let mut incls = false;
    let mut i = 0;
    while i < pat.len() {
        let c = pat[i];
        if c == b'\\' && i + 1 < pat.len() {
            out.push(c);
            out.push(pat[i + 1]);
            i += 2;
            continue;
        }
        if c == b'"' && !incls {
            out.extend_from_slice(b"\\\"");
        } else {
            if c == b'[' && !incls {
                incls = true;
            } else if c == b']' && incls {
                incls = false;
            }
            out.push(c);
        }
        i += 1;
    }
    out.push(b'"');
    out
}

pub fn regex_tok(r: &mut StdRng, re: Value, bad: &str) -> Tok {
    let mut pat = Vec::new();
    render_re(&re, &mut pat);
    match bad {
        "unclosed-group" => pat.insert(0, b'('),
        "unclosed-class" => pat.extend_from_slice(b"[a"),
        "dangling-star" => pat.insert(0, b'*'),
        "trailing-backslash" => pat.push(b'\\'),
        "bad-repeat" => pat.extend_from_slice(b"a{2,1}"),
        _ => {}
    }
    let text = String::from_utf8(pat.clone()).unwrap();
    if r.random_range(0..2) == 0 {
        let body = quote_regex(&pat);
        let txt = format!("\"{}", String::from_utf8(body.clone()).unwrap());
        Tok::Regex { pat, form: "q".into(), bad: bad.into(), re, body, txt }
    } else {
        let txt = raw_text(r, text.as_bytes()).unwrap();
        Tok::Regex { pat, form: "r".into(), bad: bad.into(), re, body: vec![], txt }
    }
}

/// the same regular expressions written in the other literal form (quoted <-> raw): equal ASTs, so equal hashes
pub fn flip_regex_forms(r: &mut StdRng, ts: &[Tok]) -> Vec<Tok> {
    ts.iter()
        .map(|t| match t {
            Tok::Regex { pat, form, bad, re, .. } if bad == "none" => {
                let text = String::from_utf8(pat.clone()).unwrap();
                if form == "r" {
                    let body = quote_regex(pat);
                    let txt = format!("\"{}", String::from_utf8(body.clone()).unwrap());
                    Tok::Regex { pat: pat.clone(), form: "q".into(), bad: bad.clone(), re: re.clone(), body, txt }
                } else {
                    match raw_text(r, text.as_bytes()) {
                        Some(txt) => Tok::Regex { pat: pat.clone(), form: "r".into(), bad: bad.clone(), re: re.clone(), body: vec![], txt },
                        None => t.clone(),
                    }
                }
            }
            other => other.clone(),
        })
        .collect()
}

const WILD_ALPHA: [u8; 7] = [b'a', b'A', b'*', b'?', b'\\', b'b', b'*'];

pub fn wild_tok(r: &mut StdRng, hint: Option<Vec<u8>>) -> Tok {
    let mut v: Vec<u8> = match hint {
        Some(h) if r.random_range(0..2) == 0 => {
            // turn a value into a pattern that may match it: escape, then replace a slice by *
            let mut p = Vec::new();
            for c in h.iter().take(8) {
                if *c == b'*' || *c == b'\\' {
                    p.push(b'\\');
                }
                p.push(if r.random_range(0..4) == 0 { c.to_ascii_uppercase() } else { *c });
            }
            if !p.is_empty() && r.random_range(0..2) == 0 {
                let i = r.random_range(0..p.len());
                p.truncate(i);
                p.push(b'*');
            }
            p
        }
        _ => {
            let n = r.random_range(0..7);
            (0..n).map(|_| WILD_ALPHA[r.random_range(0..WILD_ALPHA.len())]).collect()
        }
    };
    if is_ipish(&v) {
        v.push(b'_');
    }
    // spell the pattern bytes as a quoted or raw string literal
    if r.random_range(0..3) == 0 {
        if let Some(t) = raw_text(r, &v) {
            return Tok::Wild { v, form: "r".into(), txt: t };
        }
    }
    let t = quoted_text(r, &v);
    Tok::Wild { v, form: "q".into(), txt: t }
}

// ---------------------------------------------------------------------------------------
// values and contexts

const KEYS: [&[u8]; 5] = [b"k", b"a", b"", b"zz", b"\xff"];

pub fn gen_val(r: &mut StdRng, ty: &Ty, depth: usize) -> Val {
    match ty {
        Ty::Bool => Val::Bool {
            v: r.random_range(0..2) == 0,
        },
        Ty::Int => Val::int(gen_int(r)),
        Ty::Bytes => Val::Bytes { v: gen_bytes(r) },
        Ty::Ip => Val::Ip {
            v: ip_octets(&gen_ip(r)),
        },
        Ty::Array { e } => {
            let n = match r.random_range(0..6) {
                0 => 0,
                1 => 1,
                _ => r.random_range(0..4),
            };
            Val::Arr {
                e: (**e).clone(),
                v: (0..n).map(|_| gen_val(r, e, depth + 1)).collect(),
            }
        }
        Ty::Map { e } => {
            let mut keys: Vec<Vec<u8>> = Vec::new();
            for k in KEYS {
                if r.random_range(0..3) == 0 {
                    keys.push(k.to_vec());
                }
            }
            if r.random_range(0..6) == 0 {
                keys.push(gen_bytes(r));
            }
            keys.sort();
            keys.dedup();
            Val::Map {
                e: (**e).clone(),
                v: keys
                    .into_iter()
                    .map(|k| KV {
                        k,
                        v: gen_val(r, e, depth + 1),
                    })
                    .collect(),
            }
        }
    }
}

pub fn gen_matcher(r: &mut StdRng, ty: &Ty, kind: &str) -> MatcherSpec {
    if kind != "set" {
        return MatcherSpec {
            kind: kind.into(),
            sets: vec![],
        };
    }
    let names: [&[u8]; 3] = [b"l1", b"a.b", b"x_9"];
    let mut sets = Vec::new();
    for n in names {
        if r.random_range(0..3) != 0 {
            let k = r.random_range(0..4);
            sets.push(NamedSet {
                name: n.to_vec(),
                vals: (0..k).map(|_| gen_val(r, ty, 0)).collect(),
            });
        }
    }
    MatcherSpec {
        kind: "set".into(),
        sets,
    }
}

pub fn gen_ctx(r: &mut StdRng, sch: usize, spec: &SchemeSpec) -> CtxSpec {
    let all_present = r.random_range(0..4) == 0;
    CtxSpec {
        sch,
        vals: spec
            .fields
            .iter()
            .map(|f| {
                if !f.opt || all_present || r.random_range(0..4) != 0 {
                    gen_val(r, &f.ty, 0)
                } else {
                    Val::nil()
                }
            })
            .collect(),
        lists: spec
            .lists
            .iter()
            .enumerate()
            .map(|(i, t)| gen_matcher(r, t, spec.listkinds.get(i).map(|s| s.as_str()).unwrap_or("set")))
            .collect(),
    }
}

// ---------------------------------------------------------------------------------------
// filters

pub struct FilterGen<'a> {
    pub r: &'a mut StdRng,
    pub spec: &'a SchemeSpec,
    pub max_depth: usize,
    /// values seen in contexts, to make comparisons hit
    pub hints: Vec<Val>,
    /// knobs (percentages / sizes) that bias the generator towards a property's subject
    pub call_pct: u32,
    pub list_pct: u32,
    pub set_pct: u32,
    pub set_max: usize,
    pub nest_pct: u32,
    pub badname_pct: u32,
    pub re_pct: u32,
}

fn lop(r: &mut StdRng) -> Tok {
    Tok::Lop {
        v: ["and", "or", "xor"][r.random_range(0..3)].into(),
        a: r.random_range(0..2),
    }
}

impl<'a> FilterGen<'a> {
    fn hint(&mut self, ty: &Ty) -> Option<Val> {
        let c: Vec<&Val> = self.hints.iter().filter(|v| v.ty().as_ref() == Some(ty)).collect();
        if c.is_empty() || self.r.random_range(0..3) == 0 {
            None
        } else {
            Some(c[self.r.random_range(0..c.len())].clone())
        }
    }
    fn int(&mut self) -> i64 {
        match self.hint(&Ty::Int) {
            Some(Val::Int { v }) => unlimbs(&v),
            _ => gen_int(self.r),
        }
    }
    fn bytes(&mut self) -> Vec<u8> {
        match self.hint(&Ty::Bytes) {
            Some(Val::Bytes { v }) => v,
            _ => gen_bytes(self.r),
        }
    }
    fn ip(&mut self) -> IpAddr {
        match self.hint(&Ty::Ip) {
            Some(Val::Ip { v }) => octets_ip(&v),
            _ => gen_ip(self.r),
        }
    }

    /// random index path from type `ty`; returns tokens and resulting type.
    /// `each`: permit [*];  stops when `stop(ty)` holds (checked before each step).
    fn path(&mut self, mut ty: Ty, each: bool, want_each: bool, stop: &dyn Fn(&Ty) -> bool) -> (Vec<Tok>, Ty, usize) {
        let mut out = Vec::new();
        let mut mec = 0;
        loop {
            let last_chance = match ty.elem() {
                Some(e) => e.elem().is_none(),
                None => true,
            };
            if ty.elem().is_none() {
                break;
            }
            if stop(&ty) && !(want_each && mec == 0) && self.r.random_range(0..2) == 0 {
                break;
            }
            let force_each = want_each && mec == 0 && last_chance;
            out.push(Tok::Lb);
            let use_each = each && (force_each || self.r.random_range(0..3) == 0);
            if use_each {
                out.push(Tok::Star);
                mec += 1;
            } else {
                match &ty {
                    Ty::Array { .. } => {
                        // (8 and above: the octal, decimal and hex spellings of the index differ in their digits)
                        let i: i64 = match self.r.random_range(0..10) {
                            0 => 4294967295,
                            1 => 3,
                            2 => 2,
                            3 | 4 => self.r.random_range(8..12),
                            _ => self.r.random_range(0..2),
                        };
                        out.push(int_tok(self.r, i));
                    }
                    _ => {
                        let k = KEYS[self.r.random_range(0..4)];
                        let t = quoted_text(self.r, k);
                        out.push(Tok::Bytes {
                            v: k.to_vec(),
                            form: "q".into(),
                            txt: t,
                        });
                    }
                }
            }
            out.push(Tok::Rb);
            ty = ty.elem().unwrap().clone();
        }
        (out, ty, mec)
    }

    /// an index expression (field or call, plus path) whose final type satisfies `want`;
    /// `each` = number of [*] wanted: Some(false) none, Some(true) at least one
    fn lhs(&mut self, want: &dyn Fn(&Ty) -> bool, each: bool, depth: usize) -> Option<(Vec<Tok>, Ty)> {
        // candidates: fields whose type can reach `want` through indexing
        fn reach(ty: &Ty, want: &dyn Fn(&Ty) -> bool) -> bool {
            want(ty) || ty.elem().map(|e| reach(e, want)).unwrap_or(false)
        }
        let use_call = !self.spec.funcs.is_empty() && depth < self.max_depth && self.r.random_range(0..100) < self.call_pct;
        if use_call {
            // calls whose (possibly map-each) type reaches want
            let fs: Vec<FuncSpec> = self.spec.funcs.clone();
            for _ in 0..6 {
                let f = &fs[self.r.random_range(0..fs.len())];
                if let Some((toks, ty)) = self.call(f, depth + 1, each) {
                    if reach(&ty, want) {
                        let needs_each = each && !toks_has_each(&toks);
                        let (pth, t2, _) = self.path(ty.clone(), each, needs_each, &|t| want(t));
                        if want(&t2) && (!each || toks_has_each(&toks) || toks_has_each(&pth)) {
                            let mut all = toks;
                            all.extend(pth);
                            return Some((all, t2));
                        }
                    }
                }
            }
        }
        let cands: Vec<FieldSpec> = self
            .spec
            .fields
            .iter()
            .filter(|f| {
                if each {
                    f.ty.elem().map(|e| reach(e, want)).unwrap_or(false)
                } else {
                    reach(&f.ty, want)
                }
            })
            .cloned()
            .collect();
        if cands.is_empty() {
            return None;
        }
        for _ in 0..8 {
            let f = &cands[self.r.random_range(0..cands.len())];
            let (pth, ty, mec) = self.path(f.ty.clone(), each, each, &|t| want(t));
            if want(&ty) && (!each || mec > 0) {
                let mut all = vec![Tok::Id { name: f.name.clone() }];
                all.extend(pth);
                return Some((all, ty));
            }
        }
        None
    }

    /// a call of `f`; returns tokens and the call's type. `each`: may map over the first argument
    fn call(&mut self, f: &FuncSpec, depth: usize, each: bool) -> Option<(Vec<Tok>, Ty)> {
        let mut out = vec![Tok::Id { name: f.name.clone() }, Tok::Lp];
        let mut mapped = false;
        if f.sem == "concat" {
            let n = self.r.random_range(2..5);
            let arr = self.r.random_range(0..3) == 0;
            let ty = if arr { Ty::arr(Ty::Int) } else { Ty::Bytes };
            for i in 0..n {
                if i > 0 {
                    out.push(Tok::Comma);
                }
                let a = self.arg(&ParamSpec { kind: "Both".into(), ty: ty.clone() }, depth, false)?;
                out.extend(a.0);
            }
            out.push(Tok::Rp);
            return Some((out, ty));
        }
        if f.sem == "ctxfn" {
            let n = self.r.random_range(0..4);
            for i in 0..n {
                if i > 0 {
                    out.push(Tok::Comma);
                }
                let ty = [Ty::Int, Ty::Bytes, Ty::Ip][self.r.random_range(0..3)].clone();
                let a = self.arg(&ParamSpec { kind: "Both".into(), ty }, depth, false)?;
                out.extend(a.0);
            }
            out.push(Tok::Rp);
            return Some((out, Ty::Int));
        }
        let nopt = self.r.random_range(0..=f.opts.len());
        let mut idx = 0;
        for pspec in &f.params {
            if idx > 0 {
                out.push(Tok::Comma);
            }
            let want_each = idx == 0 && each && self.r.random_range(0..2) == 0;
            let a = self.arg(pspec, depth, want_each)?;
            if idx == 0 && a.1 {
                mapped = true;
            }
            out.extend(a.0);
            idx += 1;
        }
        for o in f.opts.iter().take(nopt) {
            if idx > 0 {
                out.push(Tok::Comma);
            }
            let ps = ParamSpec {
                kind: o.kind.clone(),
                ty: o.def.ty().unwrap(),
            };
            let a = self.arg(&ps, depth, false)?;
            out.extend(a.0);
            idx += 1;
        }
        out.push(Tok::Rp);
        let ty = if mapped { Ty::arr(f.ret.clone()) } else { f.ret.clone() };
        Some((out, ty))
    }

    /// an argument for parameter `p`; returns (tokens, used-map-each)
    fn arg(&mut self, p: &ParamSpec, depth: usize, want_each: bool) -> Option<(Vec<Tok>, bool)> {
        let lit_ok = p.kind != "Field" && matches!(p.ty, Ty::Int | Ty::Bytes | Ty::Ip);
        let fld_ok = p.kind != "Literal";
        if lit_ok && (!fld_ok || self.r.random_range(0..2) == 0) && !want_each {
            let t = match p.ty {
                Ty::Int => {
                    // a 0x literal in argument position is read as an identifier by the
                    // engine (known finding): keep generated arguments decimal / octal
                    let x = self.int();
                    let mut t = int_tok(self.r, x);
                    if let Tok::Int { txt, .. } = &mut t {
                        if txt.starts_with("0x") {
                            *txt = format!("{}", x);
                        }
                    }
                    t
                }
                Ty::Bytes => {
                    let b = self.bytes();
                    bytes_tok(self.r, &b, false)
                }
                _ => {
                    let a = self.ip();
                    ip_tok(self.r, &a)
                }
            };
            return Some((vec![t], false));
        }
        if !fld_ok {
            return None;
        }
        if p.ty == Ty::Bool && !want_each && self.r.random_range(0..2) == 0 {
            // logical argument
            let e = self.logical(false, depth + 1, true)?;
            return Some((e, false));
        }
        if p.ty == Ty::arr(Ty::Bool) && !want_each && self.r.random_range(0..2) == 0 {
            let e = self.logical(true, depth + 1, true)?;
            return Some((e, false));
        }
        let ty = p.ty.clone();
        let (toks, _) = self.lhs(&move |t| *t == ty, want_each, depth)?;
        let used = want_each;
        Some((toks, used))
    }

    /// a comparison: tokens; `vec` = lhs uses [*]
    fn cmp(&mut self, vec: bool, depth: usize) -> Option<Vec<Tok>> {
        // choose the element type
        let kind = self.r.random_range(0..10);
        let target: Ty = match kind {
            0..=2 => Ty::Int,
            3..=5 => Ty::Bytes,
            6..=7 => Ty::Ip,
            _ => Ty::Bool,
        };
        let t2 = target.clone();
        let (mut out, _) = self.lhs(&move |t| *t == t2, vec, depth)?;
        match target {
            Ty::Bool => {}
            Ty::Int => match self.pick_cmp(&Ty::Int) {
                0..=5 => {
                    out.push(self.ord());
                    let x = self.int();
                    out.push(int_tok(self.r, x));
                }
                6 => {
                    out.push(Tok::Band {
                        a: self.r.random_range(0..2),
                    });
                    let x = self.int();
                    out.push(int_tok(self.r, x));
                }
                7 if self.has_list(&Ty::Int) => {
                    out.push(Tok::In);
                    out.push(self.list_tok());
                }
                _ => {
                    out.push(Tok::In);
                    out.push(Tok::Lbr);
                    let n = self.r.random_range(0..self.set_max + 1);
                    for _ in 0..n {
                        let a = self.int();
                        if self.r.random_range(0..2) == 0 {
                            out.push(int_tok(self.r, a));
                        } else {
                            let b = match self.r.random_range(0..3) {
                                0 => a,
                                1 => a.saturating_add(self.r.random_range(0..5)),
                                _ => self.int(),
                            };
                            // one range in sixteen is written reversed (malformed)
                            let (lo, hi) = if (a <= b) != (a != b && self.r.random_range(0..16) == 0) { (a, b) } else { (b, a) };
                            out.push(Tok::Irange {
                                lo: limbs(lo),
                                hi: limbs(hi),
                                txt: format!("{}..{}", int_text(self.r, lo), int_text(self.r, hi)),
                            });
                        }
                    }
                    out.push(Tok::Rbr);
                }
            },
            Ty::Bytes => match self.pick_cmp(&Ty::Bytes) {
                0..=4 => {
                    out.push(self.ord());
                    let b = self.bytes();
                    out.push(bytes_tok(self.r, &b, true));
                }
                5 if self.re_pct > 0 && self.r.random_range(0..100) < self.re_pct => {
                    match self.r.random_range(0..3) {
                        0 => {
                            out.push(Tok::Bop { v: "matches".into(), a: self.r.random_range(0..2) });
                            let d = self.r.random_range(0..3);
                            let re = gen_re(self.r, d);
                            let bad = if self.r.random_range(0..12) == 0 {
                                ["unclosed-group", "unclosed-class", "dangling-star", "trailing-backslash", "bad-repeat"][self.r.random_range(0..5)]
                            } else {
                                "none"
                            };
                            out.push(regex_tok(self.r, re, bad));
                        }
                        k => {
                            out.push(Tok::Bop { v: if k == 1 { "wildcard".into() } else { "strict wildcard".into() }, a: 0 });
                            let h = self.hint(&Ty::Bytes).and_then(|v| match v { Val::Bytes { v } => Some(v), _ => None });
                            out.push(wild_tok(self.r, h));
                        }
                    }
                }
                5 | 6 => {
                    out.push(Tok::Bop {
                        v: "contains".into(),
                        a: 0,
                    });
                    let mut b = self.bytes();
                    if self.r.random_range(0..2) == 0 && b.len() > 1 {
                        let i = self.r.random_range(0..b.len());
                        let j = self.r.random_range(i..=b.len());
                        b = b[i..j].to_vec();
                    }
                    out.push(bytes_tok(self.r, &b, true));
                }
                7 if self.has_list(&Ty::Bytes) => {
                    out.push(Tok::In);
                    out.push(self.list_tok());
                }
                _ => {
                    out.push(Tok::In);
                    out.push(Tok::Lbr);
                    let n = self.r.random_range(0..self.set_max + 1);
                    for _ in 0..n {
                        let b = self.bytes();
                        out.push(bytes_tok(self.r, &b, true));
                    }
                    out.push(Tok::Rbr);
                }
            },
            _ => match self.pick_cmp(&Ty::Ip) {
                0..=4 => {
                    out.push(self.ord());
                    let a = self.ip();
                    out.push(ip_tok(self.r, &a));
                }
                5 if self.has_list(&Ty::Ip) => {
                    out.push(Tok::In);
                    out.push(self.list_tok());
                }
                _ => {
                    out.push(Tok::In);
                    out.push(Tok::Lbr);
                    let n = self.r.random_range(0..self.set_max + 1);
                    for _ in 0..n {
                        let a = self.ip();
                        match self.r.random_range(0..3) {
                            0 => out.push(ip_tok(self.r, &a)),
                            1 if self.r.random_range(0..12) == 0 => out.push(cidr_tok_hostbits(self.r, &a)),
                            2 if self.r.random_range(0..12) == 0 => {
                                let b = self.ip();
                                match iprange_tok_bad(self.r, &a, &b) {
                                    Some(t) => out.push(t),
                                    None => out.push(ip_tok(self.r, &a)),
                                }
                            }
                            1 => out.push(cidr_tok(self.r, &a)),
                            _ => {
                                let b = self.ip();
                                match iprange_tok(self.r, &a, &b) {
                                    Some(t) => out.push(t),
                                    None => out.push(ip_tok(self.r, &a)),
                                }
                            }
                        }
                    }
                    out.push(Tok::Rbr);
                }
            },
        }
        Some(out)
    }

    /// choice among comparison forms: 0..=4 ordering, 5/6 type-specific, 7 (Int/Bytes) or 5 (Ip) list, 8.. brace set
    fn pick_cmp(&mut self, t: &Ty) -> u32 {
        let x = self.r.random_range(0..100);
        if x < self.list_pct && self.has_list(t) {
            return if *t == Ty::Ip { 5 } else { 7 };
        }
        if x < self.list_pct + self.set_pct {
            return 9;
        }
        let c = self.r.random_range(0..8);
        // without the list forms
        match (t, c) {
            (Ty::Ip, 5..) => 0,
            (_, 7) => 0,
            (_, c) => c,
        }
    }

    fn has_list(&self, t: &Ty) -> bool {
        self.spec.lists.contains(t)
    }

    fn list_tok(&mut self) -> Tok {
        let names: [&str; 4] = ["l1", "a.b", "x_9", "none"];
        let mut n = names[self.r.random_range(0..4)].to_string();
        if self.r.random_range(0..100) < self.badname_pct {
            let alpha = ['a', '1', '_', '.', 'A', '-', 'z'];
            let k = self.r.random_range(1..5);
            n = (0..k).map(|_| alpha[self.r.random_range(0..alpha.len())]).collect();
        }
        let b = n.as_bytes();
        let valid = !b.is_empty()
            && b.iter().all(|c| c.is_ascii_lowercase() || c.is_ascii_digit() || *c == b'_' || *c == b'.')
            && b[0] != b'.'
            && b[b.len() - 1] != b'.';
        Tok::List {
            name: b.to_vec(),
            valid,
            txt: format!("${n}"),
        }
    }

    fn ord(&mut self) -> Tok {
        Tok::Ord {
            v: ["eq", "ne", "ge", "le", "gt", "lt"][self.r.random_range(0..6)].into(),
            a: self.r.random_range(0..2),
        }
    }

    /// a simple expression of type Bool (vec=false) or Array(Bool) (vec=true)
    fn simple(&mut self, vec: bool, depth: usize) -> Option<Vec<Tok>> {
        let deep = depth < self.max_depth;
        let c = if self.r.random_range(0..100) < self.nest_pct {
            self.r.random_range(0..4)
        } else {
            self.r.random_range(4..12)
        };
        if deep && c == 0 {
            let mut out = vec![Tok::Lp];
            out.extend(self.chain(vec, depth + 1)?);
            out.push(Tok::Rp);
            return Some(out);
        }
        if deep && c == 1 {
            let mut out = vec![Tok::Not {
                a: self.r.random_range(0..2),
            }];
            out.extend(self.simple(vec, depth + 1)?);
            return Some(out);
        }
        if deep && !vec && (c == 2 || c == 3) {
            let mut out = vec![
                Tok::Quant {
                    v: ["any", "all"][self.r.random_range(0..2)].into(),
                },
                Tok::Lp,
            ];
            if self.r.random_range(0..4) == 0 {
                // direct Array(Bool) value
                let want = Ty::arr(Ty::Bool);
                let (t, _) = self.lhs(&move |t| *t == want, false, depth + 1)?;
                out.extend(t);
            } else {
                out.extend(self.logical(true, depth + 1, true)?);
            }
            out.push(Tok::Rp);
            return Some(out);
        }
        if vec && c == 4 {
            // bare Array(Bool) value used as a vector
            let want = Ty::arr(Ty::Bool);
            let (t, _) = self.lhs(&move |t| *t == want, false, depth)?;
            return Some(t);
        }
        self.cmp(vec, depth)
    }

    fn chain(&mut self, vec: bool, depth: usize) -> Option<Vec<Tok>> {
        let n = match self.r.random_range(0..8) {
            0..=3 => 1,
            4..=5 => 2,
            6 => 3,
            _ => self.r.random_range(2..6),
        };
        let mut out = self.simple(vec, depth)?;
        for _ in 1..n {
            out.push(lop(self.r));
            out.extend(self.simple(vec, depth)?);
        }
        Some(out)
    }

    /// a logical expression; in argument position (`arg`) a chain must be parenthesised
    /// unless it starts with not / quantifier / "("
    pub fn logical(&mut self, vec: bool, depth: usize, arg: bool) -> Option<Vec<Tok>> {
        let c = self.chain(vec, depth)?;
        if !arg {
            return Some(c);
        }
        let starts_logical = matches!(c[0], Tok::Lp | Tok::Not { .. } | Tok::Quant { .. });
        let has_top_op = top_level_ops(&c) > 0;
        if has_top_op && !starts_logical {
            let mut out = vec![Tok::Lp];
            out.extend(c);
            out.push(Tok::Rp);
            Some(out)
        } else {
            Some(c)
        }
    }

    /// A filter whose deepest path nests exactly `n` constructs drawn from
    /// { parenthesis, not, any/all, call argument list } (property C13).
    pub fn nested(&mut self, n: usize) -> Vec<Tok> {
        // build outermost-first; `vec` = type wanted at this level is Array(Bool)
        let id = |s: &str| Tok::Id { name: s.into() };
        let mut pre: Vec<Tok> = Vec::new();
        let mut post: Vec<Tok> = Vec::new();
        let mut vec = false;
        let has_funcs = self.spec.func("bb").is_some();
        let mut first_is_logical_start = true; // tracks nothing; kept for clarity
        let _ = &mut first_is_logical_start;
        for _ in 0..n {
            let c = self.r.random_range(0..if has_funcs { 5 } else { 3 });
            match (vec, c) {
                (_, 0) => {
                    pre.push(Tok::Lp);
                    post.insert(0, Tok::Rp);
                }
                (_, 1) => pre.push(Tok::Not {
                    a: self.r.random_range(0..2),
                }),
                (false, 2) => {
                    pre.push(Tok::Quant {
                        v: ["any", "all"][self.r.random_range(0..2)].into(),
                    });
                    pre.push(Tok::Lp);
                    post.insert(0, Tok::Rp);
                    vec = true;
                }
                (true, 2) => {
                    pre.push(Tok::Lp);
                    post.insert(0, Tok::Rp);
                }
                (false, 3) => {
                    // bb(Bool) or ab(Array(Bool)) or both(Bool, deep) / both(deep, Bool)
                    match self.r.random_range(0..4) {
                        0 => {
                            pre.extend([id("ab"), Tok::Lp]);
                            post.insert(0, Tok::Rp);
                            vec = true;
                        }
                        1 => {
                            pre.extend([id("both"), Tok::Lp, id("b2"), Tok::Comma]);
                            post.insert(0, Tok::Rp);
                        }
                        2 => {
                            pre.extend([id("both"), Tok::Lp]);
                            post.splice(0..0, [Tok::Comma, id("b3"), Tok::Rp]);
                        }
                        _ => {
                            pre.extend([id("bb"), Tok::Lp]);
                            post.insert(0, Tok::Rp);
                        }
                    }
                }
                (true, 3) => {
                    if self.r.random_range(0..2) == 0 {
                        pre.extend([id("aa"), Tok::Lp]);
                        post.insert(0, Tok::Rp);
                    } else {
                        pre.extend([id("ba"), Tok::Lp]);
                        post.insert(0, Tok::Rp);
                        vec = false;
                    }
                }
                (_, _) => {
                    // the deep path as the right (or left) operand of a chain inside parentheses
                    pre.push(Tok::Lp);
                    let side = if vec { id("vb") } else { id("b1") };
                    if self.r.random_range(0..2) == 0 {
                        pre.push(side);
                        pre.push(lop(self.r));
                        post.insert(0, Tok::Rp);
                    } else {
                        post.splice(0..0, [lop(self.r), side, Tok::Rp]);
                    }
                }
            }
        }
        let base = if vec { id("vb") } else { id("b1") };
        let mut out = pre;
        out.push(base);
        out.extend(post);
        out
    }

    pub fn filter(&mut self) -> Vec<Tok> {
        for _ in 0..50 {
            if let Some(t) = self.logical(false, 0, false) {
                return t;
            }
        }
        vec![Tok::Id { name: "b1".into() }]
    }

    /// a value expression (index expression without [*]) of any type
    pub fn value_expr(&mut self) -> Vec<Tok> {
        for _ in 0..50 {
            if let Some((t, _)) = self.lhs(&|_| true, false, 0) {
                return t;
            }
        }
        vec![Tok::Id { name: "i".into() }]
    }
}

fn toks_has_each(t: &[Tok]) -> bool {
    // only the top-level index path of the expression counts; callers pass such paths
    let mut depth = 0i32;
    for w in t.windows(3) {
        match w[0] {
            Tok::Lp => depth += 1,
            Tok::Rp => depth -= 1,
            _ => {}
        }
        if depth == 0 && matches!(w[0], Tok::Lb) && matches!(w[1], Tok::Star) {
            return true;
        }
    }
    // first-argument map-each of a call makes the call an array, not a map-each expression
    false
}

fn top_level_ops(t: &[Tok]) -> usize {
    let mut depth = 0i32;
    let mut n = 0;
    for x in t {
        match x {
            Tok::Lp | Tok::Lbr | Tok::Lb => depth += 1,
            Tok::Rp | Tok::Rbr | Tok::Rb => depth -= 1,
            Tok::Lop { .. } if depth == 0 => n += 1,
            _ => {}
        }
    }
    n
}

// ---------------------------------------------------------------------------------------
// mutations (ill-typed / malformed candidates, judged by the specification)

pub fn mutate(r: &mut StdRng, ts: &[Tok], spec: &SchemeSpec) -> Vec<Tok> {
    let mut out = ts.to_vec();
    if out.is_empty() {
        return out;
    }
    let i = r.random_range(0..out.len());
    match r.random_range(0..9) {
        0 => {
            out.remove(i);
        }
        1 => {
            let t = out[i].clone();
            out.insert(i, t);
        }
        2 if !ambiguous_under_retyping(&out) => {
            // replace an identifier by another identifier of the scheme
            let ids: Vec<usize> = (0..out.len()).filter(|&k| matches!(out[k], Tok::Id { .. })).collect();
            if !ids.is_empty() {
                let k = ids[r.random_range(0..ids.len())];
                let mut names: Vec<String> = spec.fields.iter().map(|f| f.name.clone()).collect();
                names.extend(spec.funcs.iter().map(|f| f.name.clone()));
                names.push("nosuch".into());
                out[k] = Tok::Id {
                    name: names[r.random_range(0..names.len())].clone(),
                };
            }
        }
        3 => {
            // replace a literal by a pool literal of another kind
            let lits: Vec<usize> = (0..out.len())
                .filter(|&k| matches!(out[k], Tok::Int { .. } | Tok::Bytes { .. } | Tok::Ip { .. }))
                .collect();
            if !lits.is_empty() {
                let k = lits[r.random_range(0..lits.len())];
                out[k] = safe_literal(r);
            }
        }
        4 => {
            // replace a comparison operator
            let ops: Vec<usize> = (0..out.len())
                .filter(|&k| matches!(out[k], Tok::Ord { .. } | Tok::Band { .. } | Tok::In | Tok::Bop { .. }))
                .collect();
            // a regex literal has no reading as a byte string (other escape rules): leave its operator alone
            let ops: Vec<usize> = ops.into_iter().filter(|&k| !matches!(out.get(k + 1), Some(Tok::Regex { .. }))).collect();
            if !ops.is_empty() {
                let k = ops[r.random_range(0..ops.len())];
                out[k] = match r.random_range(0..4) {
                    0 => Tok::Ord {
                        v: ["eq", "ne", "ge", "le", "gt", "lt"][r.random_range(0..6)].into(),
                        a: r.random_range(0..2),
                    },
                    1 => Tok::Band { a: r.random_range(0..2) },
                    2 => Tok::In,
                    _ => Tok::Bop {
                        v: "contains".into(),
                        a: 0,
                    },
                };
            }
        }
        5 => {
            // change an index
            let idx: Vec<usize> = (0..out.len()).filter(|&k| matches!(out[k], Tok::Lb)).collect();
            if !idx.is_empty() {
                let k = idx[r.random_range(0..idx.len())] + 1;
                if k < out.len() {
                    out[k] = match r.random_range(0..4) {
                        0 => Tok::Star,
                        1 => {
                            let x = [0i64, 1, -1, 4294967295, 4294967296][r.random_range(0..5)];
                            int_tok(r, x)
                        }
                        2 => Tok::Bytes {
                            v: b"k".to_vec(),
                            form: "q".into(),
                            txt: "\"k\"".into(),
                        },
                        _ => Tok::Bytes {
                            v: vec![0xff],
                            form: "q".into(),
                            txt: "\"\\xff\"".into(),
                        },
                    };
                }
            }
        }
        6 => {
            out.insert(i, [Tok::Lp, Tok::Rp, Tok::Comma, Tok::Not { a: 0 }][r.random_range(0..4)].clone());
        }
        7 => {
            // append an index suffix to an identifier or path
            let ends: Vec<usize> = (0..out.len())
                .filter(|&k| matches!(out[k], Tok::Id { .. } | Tok::Rb))
                .collect();
            if !ends.is_empty() {
                let k = ends[r.random_range(0..ends.len())];
                let ix = match r.random_range(0..3) {
                    0 => Tok::Star,
                    1 => int_tok(r, 0),
                    _ => Tok::Bytes {
                        v: b"k".to_vec(),
                        form: "q".into(),
                        txt: "\"k\"".into(),
                    },
                };
                out.splice(k + 1..k + 1, [Tok::Lb, ix, Tok::Rb]);
            }
        }
        _ => {
            out.insert(i, lop(r));
        }
    }
    out
}

/// Literal texts that another literal lexer would also accept (outside the modelled
/// fragment: the specification assigns one kind to each literal token).  `7` in an IP list
/// is read by the cidr crate as a short-form network; `12.34.56.78` is also a hex-pair
/// byte string.
fn ambiguous_under_retyping(ts: &[Tok]) -> bool {
    let mut in_brace = false;
    for t in ts {
        match t {
            Tok::Lbr => in_brace = true,
            Tok::Rbr => in_brace = false,
            Tok::Int { .. } | Tok::Irange { .. } if in_brace => return true,
            Tok::Ip { txt, .. } => {
                let parts: Vec<&str> = txt.split('.').collect();
                if parts.len() > 1 && parts.iter().all(|p| p.len() == 2 && p.chars().all(|c| c.is_ascii_hexdigit())) {
                    return true;
                }
            }
            _ => {}
        }
    }
    false
}

/// literals whose text cannot be read as a literal of another kind
fn safe_literal(r: &mut StdRng) -> Tok {
    match r.random_range(0..6) {
        0 => Tok::Int {
            v: limbs(-7),
            txt: "-7".into(),
        },
        1 => Tok::Int {
            v: limbs(-1),
            txt: "-1".into(),
        },
        2 => Tok::Bytes {
            v: b"ab".to_vec(),
            form: "q".into(),
            txt: "\"ab\"".into(),
        },
        3 => Tok::Bytes {
            v: vec![0x61, 0x62],
            form: "h".into(),
            txt: "61:62".into(),
        },
        4 => Tok::Ip {
            v: vec![1, 2, 3, 4],
            txt: "1.2.3.4".into(),
        },
        _ => Tok::Ip {
            v: ip_octets(&IpAddr::V6(Ipv6Addr::LOCALHOST)),
            txt: "::1".into(),
        },
    }
}

pub fn alias_variant(r: &mut StdRng, ts: &[Tok]) -> Vec<Tok> {
    let mut out = ts.to_vec();
    for t in out.iter_mut() {
        if t.has_alias() {
            t.set_alias(r.random_range(0..2));
        }
    }
    out
}

pub fn random_layout(r: &mut StdRng, ts: &[Tok]) -> String {
    let ws = [" ", "  ", "\n", "\r\n", " \n ", "\r"];
    render_with(ts, |_, c| match c {
        0 => String::new(),
        1 => {
            if r.random_range(0..2) == 0 {
                String::new()
            } else {
                ws[r.random_range(0..ws.len())].to_string()
            }
        }
        _ => ws[r.random_range(0..ws.len())].to_string(),
    })
}

/// any white space (or none) in any gap, regardless of whether the gap needs one: the character-level
/// specification decides what the resulting text means
pub fn wild_layout(r: &mut StdRng, ts: &[Tok]) -> String {
    let ws = ["", "", "", " ", " ", "  ", "\n", "\r\n", "\r", "\t", " \n "];
    let mut s = String::new();
    if r.random_range(0..6) == 0 {
        s.push_str(["  ", "\t", "\n", "\u{a0}", "\u{2003} "][r.random_range(0..5)]);
    }
    for (i, t) in ts.iter().enumerate() {
        if i > 0 {
            // mostly the conventional layout, sometimes an arbitrary one
            let c = gap_class(&ts[i - 1], t);
            let g = if r.random_range(0..3) == 0 {
                ws[r.random_range(0..ws.len())]
            } else if c == 0 || (c == 1 && r.random_range(0..2) == 0) {
                ""
            } else {
                " "
            };
            s.push_str(g);
        }
        s.push_str(&t.text());
    }
    if r.random_range(0..6) == 0 {
        s.push_str([" ", "\t", "\r\n", "\u{a0}"][r.random_range(0..4)]);
    }
    s
}

/// one to three character-level edits
pub fn corrupt_text(r: &mut StdRng, s: &str) -> String {
    let mut cs: Vec<char> = s.chars().collect();
    for _ in 0..r.random_range(1..4) {
        if cs.is_empty() {
            break;
        }
        let i = r.random_range(0..cs.len());
        let pool = ['"', '\\', '#', '(', ')', '[', ']', '{', '}', '\u{e9}', '\n', '$', '*', '.', ':', '/', ' ', 'r', 'x', '0', '1', 'a', 'n', '!', '&', '|', '=', '~', ',', '-', '_'];
        match r.random_range(0..5) {
            0 => {
                cs.remove(i);
            }
            1 => {
                let c = cs[i];
                cs.insert(i, c);
            }
            2 => cs.insert(i, pool[r.random_range(0..pool.len())]),
            3 => cs[i] = pool[r.random_range(0..pool.len())],
            _ => {
                let j = r.random_range(0..cs.len());
                cs.swap(i, j);
            }
        }
    }
    cs.into_iter().collect()
}

#[allow(dead_code)]
pub fn unused(_: Value) -> Value {
    json!(null)
}
