//! Execution-context serialization (property C14): observe the real serializer and
//! deserializer through the four serde_json entry points (and the C API), in the document
//! vocabulary of spec/WfSerde.tla.
use crate::gen::*;
use crate::mk::*;
use crate::model::*;
use rand::rngs::StdRng;
use rand::Rng;
use serde::de::DeserializeSeed;
use serde_json::{json, Value};
use std::net::IpAddr;
use std::panic::{catch_unwind, AssertUnwindSafe};
use std::str::FromStr;
use wirefilter::{ExecutionContext, Scheme};

/// generic JSON -> tagged node (strings that are IP addresses become ip nodes)
pub fn node_of(v: &Value) -> Value {
    match v {
        Value::Null => json!({"j": "null"}),
        Value::Bool(b) => json!({"j": "bool", "v": b}),
        Value::Number(n) => match n.as_i64() {
            Some(i) => json!({"j": "num", "v": limbs(i)}),
            None => json!({"j": "float"}),
        },
        Value::String(s) => match IpAddr::from_str(s) {
            Ok(ip) => json!({"j": "ip", "v": ip_octets(&ip), "txt": s.as_bytes()}),
            Err(_) => json!({"j": "str", "v": s.as_bytes()}),
        },
        Value::Array(a) => json!({"j": "arr", "v": a.iter().map(node_of).collect::<Vec<_>>()}),
        Value::Object(o) => json!({"j": "obj", "v": o.iter().map(|(k, x)| json!({"k": k.as_bytes(), "v": node_of(x)})).collect::<Vec<_>>()}),
    }
}

/// tagged node -> JSON text
pub fn text_of(n: &Value) -> String {
    match n["j"].as_str().unwrap_or("null") {
        "null" => "null".into(),
        "bool" => n["v"].to_string(),
        "num" => {
            let l: Limbs = serde_json::from_value(n["v"].clone()).unwrap();
            unlimbs(&l).to_string()
        }
        "float" => "1.5".into(),
        "str" => {
            let b: Vec<u8> = serde_json::from_value(n["v"].clone()).unwrap();
            serde_json::to_string(&String::from_utf8_lossy(&b).to_string()).unwrap()
        }
        "ip" => match n.get("txt") {
            Some(t) => {
                let b: Vec<u8> = serde_json::from_value(t.clone()).unwrap();
                serde_json::to_string(&String::from_utf8_lossy(&b).to_string()).unwrap()
            }
            None => {
                let b: Vec<u8> = serde_json::from_value(n["v"].clone()).unwrap();
                format!("\"{}\"", octets_ip(&b))
            }
        },
        "arr" => format!("[{}]", n["v"].as_array().unwrap().iter().map(text_of).collect::<Vec<_>>().join(",")),
        "obj" => format!(
            "{{{}}}",
            n["v"].as_array().unwrap().iter().map(|e| {
                let k: Vec<u8> = serde_json::from_value(e["k"].clone()).unwrap();
                format!("{}:{}", serde_json::to_string(&String::from_utf8_lossy(&k).to_string()).unwrap(), text_of(&e["v"]))
            }).collect::<Vec<_>>().join(",")
        ),
        _ => "null".into(),
    }
}

fn type_text(t: &Value) -> String {
    let lay: Vec<u8> = serde_json::from_value(t["lay"].clone()).unwrap();
    let mut path: Vec<String> = lay.iter().map(|l| if *l == 0 { "Array".to_string() } else { "Map".to_string() }).collect();
    path.push(t["prim"].as_str().unwrap().to_string());
    crate::types::json_text_from_path(&path)
}

fn matcher_text(m: &Value) -> String {
    let spec: MatcherSpec = serde_json::from_value(m.clone()).unwrap();
    if spec.kind == "set" {
        serde_json::to_string(&SetMatcher { sets: spec.sets }).unwrap()
    } else {
        "{}".into()
    }
}

/// document (top kind + entries) -> JSON text
pub fn doc_text(top: &str, entries: &[Value]) -> String {
    match top {
        "arr" => "[]".into(),
        "str" => "\"ctx\"".into(),
        "num" => "7".into(),
        "null" => "null".into(),
        _ => {
            let mut parts = Vec::new();
            for e in entries {
                if e["kind"] == "lists" {
                    let es: Vec<String> = e["entries"].as_array().unwrap().iter().map(|le| {
                        if le["data"]["kind"] == "missing" {
                            format!("{{\"type\":{}}}", type_text(&le["type"]))
                        } else {
                            format!("{{\"type\":{},\"data\":{}}}", type_text(&le["type"]), matcher_text(&le["data"]))
                        }
                    }).collect();
                    parts.push(format!("\"$lists\":[{}]", es.join(",")));
                } else {
                    parts.push(format!("{}:{}", serde_json::to_string(e["name"].as_str().unwrap()).unwrap(), text_of(&e["v"])));
                }
            }
            format!("{{{}}}", parts.join(","))
        }
    }
}

fn type_desc(t: &Ty) -> Value {
    let mut lay = Vec::new();
    let mut c = t;
    loop {
        match c {
            Ty::Array { e } => { lay.push(0); c = e; }
            Ty::Map { e } => { lay.push(1); c = e; }
            Ty::Bool => return json!({"prim": "Bool", "lay": lay}),
            Ty::Int => return json!({"prim": "Int", "lay": lay}),
            Ty::Ip => return json!({"prim": "Ip", "lay": lay}),
            Ty::Bytes => return json!({"prim": "Bytes", "lay": lay}),
        }
    }
}

fn type_desc_of_json(v: &Value) -> Value {
    let mut lay = Vec::new();
    let mut c = v;
    loop {
        match c {
            Value::String(s) => return json!({"prim": s, "lay": lay}),
            Value::Object(o) if o.len() == 1 => {
                let (k, x) = o.iter().next().unwrap();
                lay.push(if k == "Array" { 0 } else { 1 });
                c = x;
            }
            _ => return json!({"prim": "?", "lay": lay}),
        }
    }
}

/// serialized text -> (fields sorted by name, lists entries, has "$lists")
pub fn entries_of_text(text: &str, spec: &SchemeSpec) -> Option<(Vec<Value>, Vec<Value>, bool)> {
    let v: Value = serde_json::from_str(text).ok()?;
    let o = v.as_object()?;
    let mut fields = Vec::new();
    let mut lists = Vec::new();
    let mut has = false;
    for (k, x) in o {
        if k == "$lists" {
            has = true;
            for (i, le) in x.as_array()?.iter().enumerate() {
                let kind = spec.listkinds.get(i).map(|s| s.as_str()).unwrap_or("set");
                let data = if kind == "set" {
                    let sm: SetMatcher = serde_json::from_value(le["data"].clone()).ok()?;
                    json!({"kind": "set", "sets": sm.sets})
                } else {
                    json!({"kind": kind, "sets": []})
                };
                lists.push(json!({"type": type_desc_of_json(&le["type"]), "data": data}));
            }
        } else {
            fields.push(json!({"name": k, "v": node_of(x)}));
        }
    }
    Some((fields, lists, has))
}

fn ctx_outcome(scheme: &Scheme, spec: &SchemeSpec, sid: usize, r: std::thread::Result<(bool, ExecutionContext<'static>)>) -> Value {
    match r {
        Err(_) => json!({"out": "panic"}),
        Ok((ok, ctx)) => {
            let a = abs_ctx(scheme, spec, sid, &ctx);
            json!({"out": if ok { "ok" } else { "err" }, "ctx": a})
        }
    }
}

/// feed `text` into fresh contexts through the four entry points (+ the C API)
pub fn feed(scheme: &Scheme, spec: &SchemeSpec, sid: usize, text: &str) -> Value {
    let text_owned: &'static str = Box::leak(text.to_string().into_boxed_str());
    let mk = || ExecutionContext::<()>::new(scheme);
    let s = catch_unwind(AssertUnwindSafe(|| {
        let mut ctx = mk();
        let mut de = serde_json::Deserializer::from_str(text_owned);
        let ok = (&mut ctx).deserialize(&mut de).is_ok() && de.end().is_ok();
        (ok, ctx)
    }));
    let sl = catch_unwind(AssertUnwindSafe(|| {
        let mut ctx = mk();
        let mut de = serde_json::Deserializer::from_slice(text_owned.as_bytes());
        let ok = (&mut ctx).deserialize(&mut de).is_ok() && de.end().is_ok();
        (ok, ctx)
    }));
    let rd = catch_unwind(AssertUnwindSafe(|| {
        let mut ctx = mk();
        let mut de = serde_json::Deserializer::from_reader(text_owned.as_bytes());
        let ok = (&mut ctx).deserialize(&mut de).is_ok() && de.end().is_ok();
        (ok, ctx)
    }));
    let val = match serde_json::from_str::<Value>(text_owned) {
        Ok(v) => ctx_outcome(scheme, spec, sid, catch_unwind(AssertUnwindSafe(|| {
            let mut ctx = mk();
            let ok = (&mut ctx).deserialize(v).is_ok();
            (ok, ctx)
        }))),
        Err(_) => json!({"out": "skipped"}),
    };
    // the C API entry point (catcher off: a panic unwinds to us and is recorded)
    let ffi = catch_unwind(AssertUnwindSafe(|| {
        let fctx = mk();
        let mut w: wirefilter_ffi::ExecutionContext<'_> = fctx.into();
        // the caller's buffer does not outlive the call
        let mut buf: Vec<u8> = text_owned.as_bytes().to_vec();
        let ok = wirefilter_ffi::wirefilter_deserialize_json_to_execution_context(&mut w, buf.as_ptr(), buf.len());
        // overwritten (as a caller recycling its buffer would) but kept allocated: the harness itself must not
        // read freed memory if the engine kept a pointer into it
        buf.iter_mut().for_each(|b| *b = b'#');
        std::mem::forget(buf);
        let inner: ExecutionContext<'_> = w.into();
        // re-own with 'static data for abs()
        (ok, inner.clone_with(()))
    }));
    let ffi = match ffi {
        Err(_) => json!({"out": "panic"}),
        Ok((ok, ctx)) => {
            let a = abs_ctx(scheme, spec, sid, &ctx);
            json!({"out": if ok { "ok" } else { "err" }, "ctx": a})
        }
    };
    json!({
        "str": ctx_outcome(scheme, spec, sid, s),
        "slice": ctx_outcome(scheme, spec, sid, sl),
        "reader": ctx_outcome(scheme, spec, sid, rd),
        "value": val,
        "ffi": ffi,
    })
}

fn pool_node(r: &mut StdRng) -> Value {
    match r.random_range(0..9) {
        0 => json!({"j": "num", "v": limbs(5)}),
        1 => json!({"j": "str", "v": b"zz"}),
        2 => json!({"j": "bool", "v": true}),
        3 => json!({"j": "arr", "v": []}),
        4 => json!({"j": "obj", "v": []}),
        5 => json!({"j": "null"}),
        6 => json!({"j": "arr", "v": [{"j": "num", "v": limbs(256)}]}),
        7 => json!({"j": "arr", "v": [{"j": "num", "v": limbs(7)}, {"j": "num", "v": limbs(255)}]}),
        _ => json!({"j": "arr", "v": [{"j": "arr", "v": [{"j": "str", "v": b"k"}]}]}),
    }
}

/// all paths to nodes in a node tree
fn paths(n: &Value, cur: Vec<usize>, out: &mut Vec<Vec<usize>>) {
    out.push(cur.clone());
    match n["j"].as_str().unwrap_or("") {
        "arr" => {
            for (i, c) in n["v"].as_array().unwrap().iter().enumerate() {
                let mut p = cur.clone();
                p.push(i);
                paths(c, p, out);
            }
        }
        "obj" => {
            for (i, c) in n["v"].as_array().unwrap().iter().enumerate() {
                let mut p = cur.clone();
                p.push(i);
                paths(&c["v"], p, out);
            }
        }
        _ => {}
    }
}

fn at_mut<'a>(n: &'a mut Value, p: &[usize]) -> &'a mut Value {
    if p.is_empty() {
        return n;
    }
    let is_obj = n["j"] == "obj";
    let child = &mut n["v"][p[0]];
    if is_obj {
        at_mut(&mut child["v"], &p[1..])
    } else {
        at_mut(child, &p[1..])
    }
}

/// one structural mutation of a context document; returns (top, entries)
pub fn mutate_doc(r: &mut StdRng, entries: &[Value], spec: &SchemeSpec) -> (String, Vec<Value>) {
    let mut es = entries.to_vec();
    let field_idx: Vec<usize> = (0..es.len()).filter(|&i| es[i]["kind"] == "field").collect();
    let lists_idx: Vec<usize> = (0..es.len()).filter(|&i| es[i]["kind"] == "lists").collect();
    match r.random_range(0..12) {
        0 => return (["arr", "str", "num", "null"][r.random_range(0..4)].to_string(), es),
        1 if !field_idx.is_empty() => {
            let i = field_idx[r.random_range(0..field_idx.len())];
            es[i]["name"] = json!(["nosuch", "$list", "I", ""][r.random_range(0..4)]);
        }
        2 | 3 | 4 | 5 if !field_idx.is_empty() => {
            // replace a node somewhere inside a field's value
            let i = field_idx[r.random_range(0..field_idx.len())];
            let mut ps = Vec::new();
            paths(&es[i]["v"], vec![], &mut ps);
            let p = ps[r.random_range(0..ps.len())].clone();
            *at_mut(&mut es[i]["v"], &p) = pool_node(r);
        }
        6 if !field_idx.is_empty() => {
            // wrap a node into an array (nesting change)
            let i = field_idx[r.random_range(0..field_idx.len())];
            let mut ps = Vec::new();
            paths(&es[i]["v"], vec![], &mut ps);
            let p = ps[r.random_range(0..ps.len())].clone();
            let old = at_mut(&mut es[i]["v"], &p).clone();
            *at_mut(&mut es[i]["v"], &p) = json!({"j": "arr", "v": [old]});
        }
        7 if !field_idx.is_empty() => {
            // drop or add a member of an array (affects [key, value] pairs)
            let i = field_idx[r.random_range(0..field_idx.len())];
            let mut ps = Vec::new();
            paths(&es[i]["v"], vec![], &mut ps);
            let arrs: Vec<Vec<usize>> = ps.into_iter().filter(|p| {
                let mut c = es[i]["v"].clone();
                let n = at_mut(&mut c, p).clone();
                n["j"] == "arr"
            }).collect();
            if !arrs.is_empty() {
                let p = arrs[r.random_range(0..arrs.len())].clone();
                let n = at_mut(&mut es[i]["v"], &p);
                let a = n["v"].as_array_mut().unwrap();
                if !a.is_empty() && r.random_range(0..2) == 0 {
                    a.pop();
                } else {
                    let extra = a.first().cloned().unwrap_or(json!({"j": "num", "v": limbs(1)}));
                    a.push(extra);
                }
            }
        }
        8 | 9 if !lists_idx.is_empty() => {
            let i = lists_idx[0];
            let les = es[i]["entries"].as_array_mut().unwrap();
            if !les.is_empty() {
                let k = r.random_range(0..les.len());
                match r.random_range(0..4) {
                    0 => les[k]["type"]["prim"] = json!("Foo"),
                    1 => {
                        let d = [33usize, 34, 35, 64, 100, 127, 130][r.random_range(0..7)];
                        les[k]["type"]["lay"] = json!(vec![r.random_range(0..2) as u8; d]);
                    }
                    2 => les[k]["type"] = json!({"prim": "Bool", "lay": [0]}), // no list registered for Array(Bool)
                    _ => les[k]["data"] = json!({"kind": "missing", "sets": []}),
                }
            }
        }
        10 if !field_idx.is_empty() => {
            // duplicate a field entry with another (well-typed) value: last one wins
            let i = field_idx[r.random_range(0..field_idx.len())];
            let name = es[i]["name"].as_str().unwrap().to_string();
            if let Some(f) = spec.field(&name) {
                let v = gen_val(r, &f.ty, 0);
                if let Ok(ev) = v.to_engine() {
                    let j = serde_json::to_value(&ev).unwrap();
                    es.push(json!({"kind": "field", "name": name, "v": node_of(&j)}));
                }
            }
        }
        _ => {}
    }
    ("obj".to_string(), es)
}

/// entries as a serde_json::Value tree presents them: sorted by key, duplicates collapsed (last wins)
pub fn value_view(entries: &[Value]) -> Vec<Value> {
    let mut m: std::collections::BTreeMap<String, Value> = std::collections::BTreeMap::new();
    for e in entries {
        let k = if e["kind"] == "lists" { "$lists".to_string() } else { e["name"].as_str().unwrap().to_string() };
        m.insert(k, e.clone());
    }
    m.into_values().collect()
}

pub fn gen_serde_events(r: &mut StdRng, specs: &[SchemeSpec], schemes: &[Scheme], id0: u64, out: &mut Vec<Value>) {
    let sid = r.random_range(0..specs.len()) + 1;
    let spec = &specs[sid - 1];
    let scheme = &schemes[sid - 1];
    let cs = gen_ctx(r, sid, spec);
    let ctx = build_ctx(scheme, spec, &cs);
    let text = serde_json::to_string(&ctx).unwrap_or_default();
    let parsed = entries_of_text(&text, spec);
    let same_value = match (serde_json::from_str::<Value>(&text), serde_json::to_value(&ctx)) {
        (Ok(a), Ok(b)) => a == b,
        _ => false,
    };
    let (fields, lists, has) = parsed.clone().unwrap_or((vec![], vec![], false));
    let mut plain = fields.clone();
    plain.iter_mut().for_each(drop_txt);
    out.push(json!({"ev": "ser", "id": id0, "sch": sid, "ctx": cs, "well_formed": parsed.is_some(),
                    "same_value": same_value, "fields": plain, "haslists": has, "lists": lists, "text": text}));
    // round trip
    out.push(json!({"ev": "rt", "id": id0 + 1, "sch": sid, "ctx": cs, "ways": feed(scheme, spec, sid, &text)}));
    // mutated document
    let mut entries: Vec<Value> = fields.iter().map(|f| json!({"kind": "field", "name": f["name"], "v": f["v"]})).collect();
    if has {
        entries.push(json!({"kind": "lists", "entries": lists}));
    }
    // shuffle the entry order a little: the document order is the fold order
    if entries.len() > 1 && r.random_range(0..2) == 0 {
        let i = r.random_range(0..entries.len());
        let e = entries.remove(i);
        entries.insert(0, e);
    }
    let (top, mentries) = mutate_doc(r, &entries, spec);
    let mtext = doc_text(&top, &mentries);
    out.push(json!({"ev": "de", "id": id0 + 2, "sch": sid, "top": top, "entries": mentries, "ventries": value_view(&mentries),
                    "text": mtext, "ways": feed(scheme, spec, sid, &mtext)}));
    // truncation: a strict prefix of a document is never a document
    if text.len() > 2 {
        let cut = r.random_range(1..text.len());
        let mut c = cut;
        while !text.is_char_boundary(c) {
            c -= 1;
        }
        let t = &text[..c];
        if serde_json::from_str::<Value>(t).is_err() {
            out.push(json!({"ev": "trunc", "id": id0 + 3, "sch": sid, "text": t, "ways": feed(scheme, spec, sid, t)}));
        }
    }
}

/// fresh observation for a recorded serde event (used by --replay)
pub fn reobserve(specs: &[SchemeSpec], schemes: &[Scheme], e: &mut Value) {
    let sid = e["sch"].as_u64().unwrap() as usize;
    let spec = &specs[sid - 1];
    let scheme = &schemes[sid - 1];
    let kind = e["ev"].as_str().unwrap().to_string();
    match kind.as_str() {
        "ser" | "rt" => {
            let cs: CtxSpec = serde_json::from_value(e["ctx"].clone()).unwrap();
            let ctx = build_ctx(scheme, spec, &cs);
            let text = serde_json::to_string(&ctx).unwrap_or_default();
            if kind == "ser" {
                let parsed = entries_of_text(&text, spec);
                let same_value = match (serde_json::from_str::<Value>(&text), serde_json::to_value(&ctx)) {
                    (Ok(a), Ok(b)) => a == b,
                    _ => false,
                };
                let (mut fields, lists, has) = parsed.clone().unwrap_or((vec![], vec![], false));
                fields.iter_mut().for_each(drop_txt);
                e["well_formed"] = json!(parsed.is_some());
                e["same_value"] = json!(same_value);
                e["fields"] = json!(fields);
                e["haslists"] = json!(has);
                e["lists"] = json!(lists);
                e["text"] = json!(text);
            } else {
                e["ways"] = feed(scheme, spec, sid, &text);
            }
        }
        _ => {
            let text = e["text"].as_str().unwrap().to_string();
            e["ways"] = feed(scheme, spec, sid, &text);
        }
    }
}

/// compare documents at the level of JSON text: an address node becomes the string node of its text
/// (the recorded text if there is one, else the canonical rendering of the octets)
fn strip_txt(n: &mut Value) {
    match n {
        Value::Object(o) => {
            if o.get("j").map(|j| j == "ip").unwrap_or(false) {
                let bytes: Vec<u8> = match o.get("txt") {
                    Some(t) => serde_json::from_value(t.clone()).unwrap(),
                    None => {
                        let b: Vec<u8> = serde_json::from_value(o["v"].clone()).unwrap();
                        octets_ip(&b).to_string().into_bytes()
                    }
                };
                *n = json!({"j": "str", "v": bytes});
                return;
            }
            for (_, x) in o.iter_mut() {
                strip_txt(x);
            }
        }
        Value::Array(a) => a.iter_mut().for_each(strip_txt),
        _ => {}
    }
}

/// address nodes without their text (the form the specification's encoder produces)
fn drop_txt(n: &mut Value) {
    match n {
        Value::Object(o) => {
            if o.get("j").map(|j| j == "ip").unwrap_or(false) {
                o.remove("txt");
            }
            for (_, x) in o.iter_mut() {
                drop_txt(x);
            }
        }
        Value::Array(a) => a.iter_mut().for_each(drop_txt),
        _ => {}
    }
}

fn ty_of_desc(t: &Value) -> Ty {
    let lay: Vec<u8> = serde_json::from_value(t["lay"].clone()).unwrap();
    let mut ty = match t["prim"].as_str().unwrap() {
        "Bool" => Ty::Bool,
        "Int" => Ty::Int,
        "Ip" => Ty::Ip,
        _ => Ty::Bytes,
    };
    for l in lay.iter().rev() {
        ty = if *l == 0 { Ty::Array { e: Box::new(ty) } } else { Ty::Map { e: Box::new(ty) } };
    }
    ty
}

const WAYS: [&str; 5] = ["str", "slice", "reader", "value", "ffi"];

/// spec -> impl for C14: one vector of MC_C14 (a typed value document or a whole context document)
pub fn replay_vector(v: &Value) -> (Value, Vec<String>) {
    let mut diffs = Vec::new();
    let is_val = v["ev"] == "val";
    let spec: SchemeSpec = if is_val {
        SchemeSpec { fields: vec![FieldSpec { name: "f".into(), ty: ty_of_desc(&v["ty"]), opt: false }], funcs: vec![], lists: vec![], listkinds: vec![], nne: false }
    } else {
        serde_json::from_value(v["scheme"].clone()).expect("scheme of a doc vector")
    };
    let scheme = build_scheme(&spec);
    let text = if is_val {
        format!("{{\"f\":{}}}", text_of(&v["node"]))
    } else {
        doc_text("obj", v["entries"].as_array().unwrap())
    };
    let ways = feed(&scheme, &spec, 1, &text);
    for w in WAYS {
        let g = &ways[w];
        if g["out"] == "skipped" || (w == "value" && v["skipvalue"] == true) {
            continue;
        }
        let (exp_ok, exp_vals, exp_lists) = if is_val && w == "value" {
            (v["vok"] == true, json!([v["vv"]]), json!([]))
        } else if is_val {
            (v["ok"] == true, json!([v["v"]]), json!([]))
        } else if w == "value" {
            (v["vok"] == true, v["vctx"]["vals"].clone(), v["vctx"]["lists"].clone())
        } else {
            (v["ok"] == true, v["ctx"]["vals"].clone(), v["ctx"]["lists"].clone())
        };
        if g["out"] == "panic" {
            diffs.push(format!("via {w}: the deserializer panicked"));
            continue;
        }
        if (g["out"] == "ok") != exp_ok {
            diffs.push(format!("via {w}: verdict expected ok={} observed {}", exp_ok, g["out"]));
        }
        if exp_ok && g["out"] == "ok" {
            if g["ctx"]["vals"] != exp_vals {
                diffs.push(format!("via {w}: stored values expected {} observed {}", exp_vals, g["ctx"]["vals"]));
            }
            if !is_val && g["ctx"]["lists"] != exp_lists {
                diffs.push(format!("via {w}: list matchers expected {} observed {}", exp_lists, g["ctx"]["lists"]));
            }
        }
        // whatever the verdict: nothing of another type than the field's is stored
        let vals: Vec<Val> = serde_json::from_value(g["ctx"]["vals"].clone()).unwrap_or_default();
        for (i, x) in vals.iter().enumerate() {
            if !x.is_nil() && x.ty().as_ref() != Some(&spec.fields[i].ty) {
                diffs.push(format!("via {w}: field {} holds a value of type {:?}", spec.fields[i].name, x.ty()));
            }
        }
    }
    // the encoder: serialize the decoded context and compare with the canonical encoding
    let mut observed = json!({"ways": ways});
    if v["ok"] == true {
        let r = catch_unwind(AssertUnwindSafe(|| {
            let mut ctx = ExecutionContext::<()>::new(&scheme);
            let mut de = serde_json::Deserializer::from_str(&text);
            let ok = (&mut ctx).deserialize(&mut de).is_ok();
            (ok, serde_json::to_string(&ctx).unwrap_or_default())
        }));
        match r {
            Err(_) => diffs.push("serializing the decoded context panicked".into()),
            Ok((false, _)) => {}
            Ok((true, out)) => match entries_of_text(&out, &spec) {
                None => diffs.push(format!("serialized context is not a JSON object: {out}")),
                Some((mut fields, lists, has)) => {
                    fields.iter_mut().for_each(strip_txt);
                    fields.sort_by(|a, b| a["name"].as_str().cmp(&b["name"].as_str()));
                    let mut exp: Vec<Value> = if is_val { vec![json!({"name": "f", "v": v["enc"]})] } else { v["fields"].as_array().cloned().unwrap_or_default() };
                    exp.sort_by(|a, b| a["name"].as_str().cmp(&b["name"].as_str()));
                    exp.iter_mut().for_each(strip_txt);
                    if json!(fields) != json!(exp) {
                        diffs.push(format!("serialization: expected fields {} observed {}", json!(exp), json!(fields)));
                    }
                    if !is_val {
                        if has != !spec.lists.is_empty() {
                            diffs.push("serialization: $lists present iff the scheme has lists".into());
                        }
                        if json!(lists) != v["lists"] {
                            diffs.push(format!("serialization: expected $lists {} observed {}", v["lists"], json!(lists)));
                        }
                    }
                    observed["ser"] = json!(out);
                }
            },
        }
    }
    (observed, diffs)
}
