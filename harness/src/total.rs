//! Parsing is total (property C05): arbitrary inputs are parsed in a child process (so that
//! a stack overflow, abort or hang is an observable outcome, not a harness failure).
use crate::gen::*;
use crate::model::*;
use rand::rngs::StdRng;
use rand::Rng;
use serde_json::{json, Value};
use std::io::{BufRead, BufReader, Read, Write};
use std::process::{Child, Command, Stdio};

/// observe one parse in this process: outcome + error location (from Display / Debug)
pub fn observe_here(scheme: &wirefilter::Scheme, input: &str, value: bool) -> Value {
    let r = std::panic::catch_unwind(std::panic::AssertUnwindSafe(|| {
        let res = if value {
            scheme.parse_value(input).map(|_| ()).map_err(|e| (format!("{e}"), format!("{e:?}")))
        } else {
            scheme.parse(input).map(|_| ()).map_err(|e| (format!("{e}"), format!("{e:?}")))
        };
        res
    }));
    match r {
        Err(_) => json!({"out": "panic"}),
        Ok(Ok(())) => json!({"out": "ast"}),
        Ok(Err((disp, dbg))) => {
            let num = |k: &str| -> i64 {
                dbg.rfind(k)
                    .map(|i| dbg[i + k.len()..].chars().take_while(|c| c.is_ascii_digit()).collect::<String>().parse().unwrap_or(-1))
                    .unwrap_or(-1)
            };
            // Display: "Filter parsing error (L:C):\n<line>\n<spaces>^^^ message\n"
            let mut it = disp.splitn(3, '\n');
            let head = it.next().unwrap_or("");
            let line = it.next().unwrap_or("");
            let rest = it.next().unwrap_or("");
            let carets = rest.chars().skip_while(|c| *c == ' ').take_while(|c| *c == '^').count();
            let spaces = rest.chars().take_while(|c| *c == ' ').count();
            json!({"out": "error", "line": num("line_number: "), "start": num("span_start: "), "len": num("span_len: "),
                   "linetext": line.as_bytes(), "head_ok": head.starts_with("Filter parsing error ("),
                   "carets": carets, "spaces": spaces})
        }
    }
}

pub fn worker_scheme() -> wirefilter::Scheme {
    crate::mk::build_scheme(&rich_scheme(true, true, true, &[("set", Ty::Int), ("set", Ty::Bytes)]))
}

/// child mode: read requests "<value 0/1> <thread 0/1> <len>\n<bytes>" and answer one JSON line each
pub fn worker_main() {
    crate::lang::quiet_panics();
    let scheme = worker_scheme();
    let stdin = std::io::stdin();
    let mut inp = stdin.lock();
    let out = std::io::stdout();
    loop {
        let mut head = String::new();
        if inp.read_line(&mut head).unwrap_or(0) == 0 {
            return;
        }
        let parts: Vec<usize> = head.split_whitespace().map(|x| x.parse().unwrap_or(0)).collect();
        if parts.len() < 3 {
            return;
        }
        let mut buf = vec![0u8; parts[2]];
        if inp.read_exact(&mut buf).is_err() {
            return;
        }
        let text = String::from_utf8_lossy(&buf).to_string();
        let value = parts[0] == 1;
        let o = if parts[1] == 1 {
            // secondary thread with a 2 MiB stack
            let s2 = scheme.clone();
            std::thread::Builder::new()
                .stack_size(2 << 20)
                .spawn(move || observe_here(&s2, &text, value))
                .unwrap()
                .join()
                .unwrap_or_else(|_| json!({"out": "thread-died"}))
        } else {
            observe_here(&scheme, &text, value)
        };
        let mut o2 = out.lock();
        serde_json::to_writer(&mut o2, &o).unwrap();
        o2.write_all(b"\n").unwrap();
        o2.flush().unwrap();
    }
}

pub struct Worker {
    child: Child,
    rd: BufReader<std::process::ChildStdout>,
}

impl Worker {
    pub fn spawn() -> Worker {
        let exe = std::env::current_exe().unwrap();
        let mut child = Command::new(exe)
            .arg("total-worker")
            .stdin(Stdio::piped())
            .stdout(Stdio::piped())
            .stderr(Stdio::null())
            .spawn()
            .unwrap();
        let rd = BufReader::new(child.stdout.take().unwrap());
        Worker { child, rd }
    }
    /// None if the worker died (crash) while handling the request
    pub fn ask(&mut self, text: &str, value: bool, thread: bool) -> Option<Value> {
        let stdin = self.child.stdin.as_mut()?;
        let head = format!("{} {} {}\n", value as u8, thread as u8, text.len());
        if stdin.write_all(head.as_bytes()).is_err() || stdin.write_all(text.as_bytes()).is_err() || stdin.flush().is_err() {
            return None;
        }
        let mut line = String::new();
        match self.rd.read_line(&mut line) {
            Ok(n) if n > 0 => serde_json::from_str(&line).ok(),
            _ => None,
        }
    }
    pub fn exit_status(&mut self) -> String {
        match self.child.wait() {
            Ok(s) => {
                use std::os::unix::process::ExitStatusExt;
                match s.signal() {
                    Some(sig) => format!("signal-{sig}"),
                    None => format!("exit-{}", s.code().unwrap_or(-1)),
                }
            }
            Err(_) => "unknown".into(),
        }
    }
}

fn corrupt(r: &mut StdRng, s: &str) -> String {
    let mut cs: Vec<char> = s.chars().collect();
    let n = r.random_range(1..4);
    for _ in 0..n {
        if cs.is_empty() {
            break;
        }
        let i = r.random_range(0..cs.len());
        match r.random_range(0..6) {
            0 => {
                cs.remove(i);
            }
            1 => {
                let c = cs[i];
                cs.insert(i, c);
            }
            2 => cs.insert(i, ['"', '\\', '#', '(', ')', '[', ']', '{', '}', '\u{e9}', '\u{4e16}', '\n', '\r', '$', '*', '.', ':', '/', '\u{1F600}', '\t', 'r'][r.random_range(0..21)]),
            3 => cs.truncate(i),
            4 => cs[i] = ['"', '\\', '#', '\u{e9}', '\n', '0', 'x', '~', '&', '|'][r.random_range(0..10)],
            _ => {
                let j = r.random_range(0..cs.len());
                cs.swap(i, j);
            }
        }
    }
    cs.into_iter().collect()
}

/// structural stress inputs (sizes scaled by `big`)
pub fn stress_inputs(big: usize) -> Vec<(String, String)> {
    let n = big;
    let mut v = Vec::new();
    v.push(("flat-and-chain".to_string(), vec!["b1"; n].join(" and ")));
    v.push(("flat-or-xor-chain".to_string(), (0..n).map(|i| if i % 2 == 0 { "b1 or" } else { "b2 xor" }).collect::<Vec<_>>().join(" ") + " b3"));
    v.push(("deep-parens".to_string(), "(".repeat(n) + "b1" + &")".repeat(n)));
    v.push(("deep-parens-unclosed".to_string(), "(".repeat(n)));
    v.push(("deep-not".to_string(), "not ".repeat(n) + "b1"));
    v.push(("deep-bang".to_string(), "!".repeat(n) + "b1"));
    v.push(("deep-any".to_string(), "any(".repeat(n) + "vb" + &")".repeat(n)));
    v.push(("deep-call".to_string(), "idb(".repeat(n) + "s" + &")".repeat(n) + " == \"a\""));
    v.push(("deep-index".to_string(), "aaai".to_string() + &"[0]".repeat(n) + " == 1"));
    v.push(("deep-brackets".to_string(), "ai".to_string() + &"[".repeat(n)));
    v.push(("deep-mixed".to_string(), "(not any(bb(".repeat(n / 4) + "b1"));
    v.push(("long-int-list".to_string(), format!("i in {{{}}}", (0..n).map(|i| i.to_string()).collect::<Vec<_>>().join(" "))));
    v.push(("long-bytes-list".to_string(), format!("s in {{{}}}", vec!["\"ab\""; n].join(" "))));
    v.push(("many-hashes".to_string(), format!("s == r{}\"x\"{}", "#".repeat(n), "#".repeat(n))));
    v.push(("255-hashes".to_string(), format!("s == r{}\"x\"{}", "#".repeat(255), "#".repeat(255))));
    v.push(("256-hashes".to_string(), format!("s == r{}\"x\"{}", "#".repeat(256), "#".repeat(256))));
    v.push(("long-string".to_string(), format!("s == \"{}\"", "a".repeat(n))));
    v.push(("long-escapes".to_string(), format!("s == \"{}\"", "\\x41".repeat(n))));
    v.push(("many-lines".to_string(), "b1 and\n".repeat(n) + "b2 ==="));
    v.push(("crlf-lines".to_string(), "b1 and\r\n".repeat(n.min(2000)) + "i == true"));
    v.push(("value-deep-call".to_string(), "idb(".repeat(n) + "s" + &")".repeat(n)));
    // nesting INSIDE a pattern literal never meets the parser's own nesting limit: the regex engine's limits must bound it
    v.push(("regex-deep-groups".to_string(), format!("s matches \"{}a{}\"", "(".repeat(n), ")".repeat(n))));
    v.push(("regex-deep-groups-raw".to_string(), format!("s matches r#\"{}a{}\"#", "(?:".repeat(n), ")".repeat(n))));
    v.push(("regex-deep-groups-2000".to_string(), format!("s matches \"{}a{}\"", "(".repeat(2000), ")".repeat(2000))));
    v.push(("regex-deep-classes".to_string(), format!("s matches \"{}a{}\"", "[a&&[".repeat(n.min(5000)), "]]".repeat(n.min(5000)))));
    v.push(("regex-deep-repeats".to_string(), format!("s matches \"a{}\"", "{2}".repeat(n.min(20000)))));
    v.push(("regex-long-alternation".to_string(), format!("s matches \"{}\"", vec!["ab"; n].join("|"))));
    v.push(("wildcard-many-stars".to_string(), format!("s wildcard \"{}\"", "*a".repeat(n))));
    v
}

/// a multi-byte character inserted right after a character at which some lexer makes a decision
/// (escape introducers, radix prefixes, delimiters, separators): spans and slices computed in bytes
/// must still fall on character boundaries
fn inject_multibyte(r: &mut StdRng, s: &str) -> String {
    let cs: Vec<char> = s.chars().collect();
    let sites: Vec<usize> = (0..cs.len()).filter(|&i| "\\x#\".:/$[{(~r-,*".contains(cs[i]) || cs[i].is_ascii_digit()).collect();
    // prefer the sites inside escape sequences: after a backslash and up to three characters later
    let esc: Vec<usize> = (0..cs.len()).filter(|&i| (i.saturating_sub(3)..=i).any(|j| cs[j] == '\\')).collect();
    let pool = if !esc.is_empty() && r.random_range(0..2) == 0 { &esc } else { &sites };
    if pool.is_empty() {
        return s.to_string();
    }
    let at = pool[r.random_range(0..pool.len())] + 1;
    let ins = ['\u{e9}', '\u{4e16}', '\u{1F600}', '\u{80}'][r.random_range(0..4)];
    let mut out: String = cs[..at].iter().collect();
    out.push(ins);
    if r.random_range(0..3) == 0 {
        // replace instead of insert
        out.extend(cs[(at + 1).min(cs.len())..].iter());
    } else {
        out.extend(cs[at..].iter());
    }
    out
}

pub fn random_input(r: &mut StdRng, spec: &SchemeSpec) -> (String, String) {
    match r.random_range(0..10) {
        0 => {
            let n = r.random_range(0..80);
            let b: Vec<u8> = (0..n).map(|_| r.random::<u8>()).collect();
            ("random-bytes".into(), String::from_utf8_lossy(&b).to_string())
        }
        1 => {
            // printable soup over the language's characters
            let alpha: Vec<char> = "()[]{}!=<>&|^~$*.,:/-\"\\#rx0179afz_ \n\r\t\u{e9}\u{4e16}".chars().collect();
            let n = r.random_range(0..60);
            ("char-soup".into(), (0..n).map(|_| alpha[r.random_range(0..alpha.len())]).collect())
        }
        2 => {
            let words = ["(", ")", "not", "!", "and", "&&", "or", "||", "xor", "^^", "any(", "all(", "b1", "vb", "i", "s", "ip", "==", "!=", "in", "{", "}", "1", "\"a\"", "[", "]", "*", "ai", "idb(", ",", "$l1", "1.2.3.4", "::1/8", "contains", "~", "matches", "wildcard", "strict wildcard", "r#\"", "\"#", "..", "0x", "-"];
            let n = r.random_range(0..25);
            let sep = ["", " ", " ", "\n", "\r\n"];
            ("token-soup".into(), (0..n).map(|_| format!("{}{}", words[r.random_range(0..words.len())], sep[r.random_range(0..sep.len())])).collect())
        }
        _ => {
            let mut g = FilterGen {
                r,
                spec,
                max_depth: 3,
                hints: vec![],
                call_pct: 30,
                list_pct: 10,
                set_pct: 20,
                set_max: 4,
                nest_pct: 35,
                badname_pct: 10,
                re_pct: 40,
            };
            let ts = g.filter();
            let src = random_layout(g.r, &ts);
            if g.r.random_range(0..3) == 0 {
                ("multibyte-injection".into(), inject_multibyte(g.r, &src))
            } else {
                ("corrupted-filter".into(), corrupt(g.r, &src))
            }
        }
    }
}
