//! `contains` on every code path (property C10): each case is compiled once per SIMD anchor
//! position (hook), once with the production random anchor, and executed; the active search
//! path is recorded.  The scalar fallback is exercised by running the same command in a
//! process started with WIREFILTER_USE_AVX2=0.
use crate::gen::*;
use rand::rngs::StdRng;
use rand::Rng;
use serde_json::{json, Value};
use std::panic::{catch_unwind, AssertUnwindSafe};
use std::sync::OnceLock;
use wirefilter::{ExecutionContext, Scheme};

fn scheme() -> &'static Scheme {
    static S: OnceLock<Scheme> = OnceLock::new();
    S.get_or_init(|| {
        let mut b = wirefilter::SchemeBuilder::new();
        b.add_field("s", wirefilter::Type::Bytes).unwrap();
        b.build()
    })
}

fn lit(r: &mut StdRng, needle: &[u8]) -> String {
    if needle.len() >= 2 && needle.len() <= 6 && r.random_range(0..4) == 0 {
        hex_text(r, needle).unwrap_or_else(|| quoted_text(r, needle))
    } else {
        quoted_text(r, needle)
    }
}

/// returns {"simd": bool, "runs": [{"anchor": k (0 = production random), "out": "ok"|"panic", "res": bool}]}
pub fn observe(r: &mut StdRng, hay: &[u8], needle: &[u8]) -> Value {
    observe_after(r, hay, needle, &[])
}

/// `prior`: patterns whose filters are compiled first and stay alive while the case runs; afterwards each of them is
/// executed as well (runs with anchor = 1000 + index)
pub fn observe_after(r: &mut StdRng, hay: &[u8], needle: &[u8], prior: &[Vec<u8>]) -> Value {
    let s = scheme();
    let src = format!("s contains {}", lit(r, needle));
    let mut ctx = ExecutionContext::<()>::new(s);
    ctx.set_field_value(s.get_field("s").unwrap(), hay.to_vec()).unwrap();
    wirefilter::verif::set_contains_anchor(None);
    let alive: Vec<Option<wirefilter::Filter>> = prior.iter().map(|p| {
        let src = format!("s contains {}", quoted_text(r, p));
        catch_unwind(AssertUnwindSafe(|| s.parse(&src).unwrap().compile())).ok()
    }).collect();
    let mut runs = Vec::new();
    let mut anchors: Vec<usize> = vec![0, 0];
    anchors.extend(1..needle.len().max(1));
    for a in anchors {
        wirefilter::verif::set_contains_anchor(if a == 0 { None } else { Some(a) });
        let rr = catch_unwind(AssertUnwindSafe(|| {
            let f = s.parse(&src).unwrap().compile();
            f.execute(&ctx).unwrap()
        }));
        runs.push(match rr {
            Ok(b) => json!({"anchor": a, "out": "ok", "res": b}),
            Err(_) => json!({"anchor": a, "out": "panic", "res": false}),
        });
    }
    wirefilter::verif::set_contains_anchor(None);
    for (k, f) in alive.iter().enumerate() {
        let rr = match f {
            Some(f) => catch_unwind(AssertUnwindSafe(|| f.execute(&ctx).unwrap())).ok(),
            None => None,
        };
        runs.push(match rr {
            Some(b) => json!({"anchor": 1000 + k, "out": "ok", "res": b}),
            None => json!({"anchor": 1000 + k, "out": "panic", "res": false}),
        });
    }
    json!({"simd": wirefilter::verif::simd_active(), "runs": runs, "src": src})
}

/// Structured long haystacks: lengths just above a power of two (1 KiB .. 64 KiB) with the pattern at the very end,
/// straddling the power of two, or nearly there - the places where a search that is split into blocks, windows or
/// a fast prefix plus a fallback has its seams.  96 cases, the first 96 events of every trace.
pub const LONG_CASES: u64 = 96;
fn long_case(k: u64) -> (Vec<u8>, Vec<u8>) {
    let k = k as usize;
    let l = [1024usize, 4096, 16384, 65536][k % 4];
    let n = [2usize, 16, 17, 33][(k / 4) % 4];
    let d = if (k / 16) % 2 == 0 { 1 } else { n - 1 };
    let shape = (k / 32) % 3;
    let needle: Vec<u8> = (0..n).map(|i| b'a' + (i % 23) as u8).collect();
    let mut hay = vec![b'-'; l + d];
    let off = match shape {
        0 => hay.len() - n, // at the very end, reaching past the power of two
        1 => l - 1,         // begins on the last byte before it (may not fit: then the haystack ends inside the pattern)
        _ => hay.len() - n,
    };
    let fit = n.min(hay.len() - off);
    hay[off..off + fit].copy_from_slice(&needle[..fit]);
    if shape == 2 {
        let last = hay.len() - 1;
        hay[last] = b'#'; // near miss: last byte differs
    }
    (hay, needle)
}

pub fn gen_event(r: &mut StdRng, id: u64) -> Value {
    if id < LONG_CASES {
        let (hay, needle) = long_case(id);
        let o = observe(r, &hay, &needle);
        return json!({"ev": "contains", "id": id, "hay": hay, "needle": needle, "obs": o});
    }
    let alpha: Vec<u8> = match r.random_range(0..4) {
        0 => b"ab".to_vec(),
        1 => b"abc".to_vec(),
        2 => (0..=255u8).collect(),
        _ => b"a\x00\xffz".to_vec(),
    };
    let pick = |r: &mut StdRng, n: usize| -> Vec<u8> { (0..n).map(|_| alpha[r.random_range(0..alpha.len())]).collect() };
    let plen = match r.random_range(0..8) {
        0 => 0,
        1 => 1,
        2 => r.random_range(2..17),
        3 => [15, 16, 17, 31, 32, 33][r.random_range(0..6)],
        _ => r.random_range(0..41),
    };
    let needle = pick(r, plen);
    let hlen = r.random_range(0..301);
    let mut hay = pick(r, hlen);
    match r.random_range(0..5) {
        0 => {} // probably absent
        1 | 2 => {
            // plant at a random offset (start, end, block edges)
            if needle.len() <= hay.len() {
                let max = hay.len() - needle.len();
                let off = match r.random_range(0..4) {
                    0 => 0,
                    1 => max,
                    2 => [15usize, 16, 17, 31, 32, 33, 63, 64][r.random_range(0..8)].min(max),
                    _ => r.random_range(0..=max),
                };
                hay[off..off + needle.len()].copy_from_slice(&needle);
            }
        }
        _ => {
            // near miss: plant with one byte changed
            if !needle.is_empty() && needle.len() <= hay.len() {
                let max = hay.len() - needle.len();
                let off = r.random_range(0..=max);
                hay[off..off + needle.len()].copy_from_slice(&needle);
                let k = [0, needle.len() - 1, needle.len() / 2][r.random_range(0..3)];
                hay[off + k] = hay[off + k].wrapping_add(1);
            }
        }
    }
    let o = observe(r, &hay, &needle);
    json!({"ev": "contains", "id": id, "hay": hay, "needle": needle, "obs": o})
}
