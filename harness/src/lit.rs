//! Literal lexing at character level (property C06): parse `<field> <op> T` for a candidate
//! literal text T and report verdict and decoded value.
use crate::gen::*;
use crate::model::*;
use rand::rngs::StdRng;
use rand::Rng;
use serde_json::{json, Value};
use std::panic::{catch_unwind, AssertUnwindSafe};
use std::sync::OnceLock;
use wirefilter::Scheme;

fn scheme() -> &'static Scheme {
    static S: OnceLock<Scheme> = OnceLock::new();
    S.get_or_init(|| {
        let mut b = wirefilter::SchemeBuilder::new();
        b.add_field("i", wirefilter::Type::Int).unwrap();
        b.add_field("s", wirefilter::Type::Bytes).unwrap();
        b.add_field("ai", wirefilter::Type::Array(wirefilter::Type::Int.into())).unwrap();
        b.add_field("mi", wirefilter::Type::Map(wirefilter::Type::Int.into())).unwrap();
        b.add_field("ip", wirefilter::Type::Ip).unwrap();
        b.build()
    })
}

pub fn text_of_chars(chars: &[u32]) -> Option<String> {
    chars.iter().map(|c| char::from_u32(*c)).collect()
}

/// observe: {"out": ok|err|panic, "v": decoded value}
pub fn observe_lit(kind: &str, text: &str) -> Value {
    let src = match kind {
        "int" => format!("i == {text}"),
        "bytes" => format!("s == {text}"),
        "index" => format!("ai[{text}] == 1"),
        "ipeq" => format!("ip == {text}"),
        "ipitem" => format!("ip in {{{text}}}"),
        _ => format!("mi[{text}] == 1"),
    };
    let r = catch_unwind(AssertUnwindSafe(|| scheme().parse(&src).map(|a| serde_json::to_value(&a).unwrap())));
    match r {
        Err(_) => json!({"out": "panic", "v": []}),
        Ok(Err(_)) => json!({"out": "err", "v": []}),
        Ok(Ok(j)) => {
            let v = match kind {
                "int" => j["rhs"].as_i64().map(|x| json!(limbs(x))).unwrap_or(json!("?")),
                "bytes" => match &j["rhs"] {
                    Value::String(s) => json!(s.as_bytes()),
                    Value::Array(a) => json!(a),
                    _ => json!("?"),
                },
                "index" => j["lhs"][1]["value"].as_i64().map(|x| json!(limbs(x))).unwrap_or(json!("?")),
                "ipeq" | "ipitem" => ip_item_obs(if kind == "ipeq" { &j["rhs"] } else { &j["rhs"][0] }),
                _ => j["lhs"][1]["value"].as_str().map(|s| json!(s.as_bytes())).unwrap_or(json!("?")),
            };
            json!({"out": "ok", "v": v})
        }
    }
}

/// an IP rhs (address / block / range) as {a, b, len}; see spec/WfLit.tla
fn ip_item_obs(v: &Value) -> Value {
    use std::net::IpAddr;
    use std::str::FromStr;
    let oct = |s: &str| IpAddr::from_str(s).ok().map(|ip| ip_octets(&ip));
    match v {
        Value::String(s) => {
            if let Some(o) = oct(s) {
                return json!({"a": o, "b": o, "len": o.len() * 8});
            }
            if let Some((a, l)) = s.split_once('/') {
                if let (Some(o), Ok(len)) = (oct(a), l.parse::<u32>()) {
                    return json!({"a": o, "b": o, "len": len});
                }
            }
            json!({"a": [], "b": [], "len": 999})
        }
        Value::Object(o) => match (o.get("start").and_then(|x| x.as_str()).and_then(oct), o.get("end").and_then(|x| x.as_str()).and_then(oct)) {
            (Some(a), Some(b)) => json!({"a": a, "b": b, "len": -1}),
            _ => json!({"a": [], "b": [], "len": 998}),
        },
        _ => json!({"a": [], "b": [], "len": 997}),
    }
}

pub fn judge(v: &Value, o: &Value) -> Vec<String> {
    let mut d = Vec::new();
    if v["exp"]["ok"] == "unspec" {
        // a form the documentation does not define (short IPv4): only a panic is a finding
        if o["out"] == "panic" {
            d.push("parser panicked".into());
        }
        return d;
    }
    let exp_ok = v["exp"]["ok"].as_bool().unwrap_or(v["exp"]["ok"] == "yes");
    match o["out"].as_str().unwrap() {
        "panic" => d.push("parser panicked".into()),
        "ok" => {
            if !exp_ok {
                d.push(format!("malformed literal accepted with value {}", o["v"]));
            } else if o["v"] != v["exp"]["v"] {
                d.push(format!("value: expected {} observed {}", v["exp"]["v"], o["v"]));
            }
        }
        _ => {
            if exp_ok {
                d.push(format!("well-formed literal rejected (expected value {})", v["exp"]["v"]));
            }
        }
    }
    d
}

fn cps(s: &str) -> Vec<u32> {
    s.chars().map(|c| c as u32).collect()
}

/// random literal texts: renderings of random values in every form, and corrupted variants
pub fn gen_lit(r: &mut StdRng, id: u64) -> Value {
    let (kind, mut text): (&str, String) = match r.random_range(0..10) {
        0..=2 => {
            let x = gen_int(r);
            let t = match r.random_range(0..4) {
                0 if x >= 0 => format!("0x{:x}", x),
                1 if x >= 0 => format!("0{:o}", x),
                2 if x >= 0 => format!("0x{:X}", x),
                _ => x.to_string(),
            };
            ("int", t)
        }
        3 => {
            // around the i64 boundaries, one beyond in each radix
            let t = ["9223372036854775807", "9223372036854775808", "-9223372036854775808", "-9223372036854775809",
                     "0x7fffffffffffffff", "0x8000000000000000", "0777777777777777777777", "01000000000000000000000",
                     "0xffffffffffffffff", "00", "-0", "0x0", "08", "0x", "-", "--1", "+1", "1_000"][r.random_range(0..18)];
            ("int", t.to_string())
        }
        4 => {
            let x: i64 = [0, 1, 2147483647, 2147483648, 4294967295, 4294967296, 4294967297, -1][r.random_range(0..8)];
            ("index", if r.random_range(0..3) == 0 { format!("0x{:x}", x.max(0)) } else { x.to_string() })
        }
        5 => {
            let b = gen_bytes(r);
            ("key", quoted_text(r, &b))
        }
        6 => {
            // addresses, blocks (every prefix length; with host bits), ranges (ordered, reversed, mixed family)
            let a = gen_ip(r);
            let tok = match r.random_range(0..7) {
                0 | 1 => ip_tok(r, &a),
                2 | 3 => cidr_tok(r, &a),
                4 => cidr_tok_hostbits(r, &a),
                5 => {
                    let b = gen_ip(r);
                    iprange_tok(r, &a, &b).unwrap_or_else(|| ip_tok(r, &a))
                }
                _ => {
                    let b = gen_ip(r);
                    iprange_tok_bad(r, &a, &b).unwrap_or_else(|| ip_tok(r, &a))
                }
            };
            let is_addr = matches!(tok, Tok::Ip { .. });
            let txt = match tok {
                Tok::Ip { txt, .. } | Tok::Cidr { txt, .. } | Tok::Iprange { txt, .. } => txt,
                _ => unreachable!(),
            };
            (if is_addr && r.random_range(0..2) == 0 { "ipeq" } else { "ipitem" }, txt)
        }
        _ => {
            let b = gen_bytes(r);
            let t = match r.random_range(0..3) {
                0 => raw_text(r, &b).unwrap_or_else(|| quoted_text(r, &b)),
                1 => hex_text(r, &b).unwrap_or_else(|| quoted_text(r, &b)),
                _ => quoted_text(r, &b),
            };
            ("bytes", t)
        }
    };
    // corrupt some
    if r.random_range(0..3) == 0 && !text.is_empty() {
        let mut cs: Vec<char> = text.chars().collect();
        let i = r.random_range(0..cs.len());
        match r.random_range(0..5) {
            0 => {
                cs.remove(i);
            }
            1 => {
                let c = cs[i];
                cs.insert(i, c);
            }
            2 => cs.insert(i, ['"', '\\', '#', 'x', '+', '8', 'g', ':', '0', '\u{e9}'][r.random_range(0..10)]),
            3 => cs.truncate(i),
            _ => cs[i] = ['"', '\\', '#', 'x', '+', '9', 'G', '-', '7'][r.random_range(0..9)],
        }
        text = cs.into_iter().collect();
    }
    // keep texts free of white space and of characters that could continue the filter
    if text.contains(' ') || text.contains('\n') || text.contains('\r') {
        text = text.replace([' ', '\n', '\r'], "_");
    }
    if text.is_empty() && kind.starts_with("ip") {
        text = ":".into();
    }
    let o = observe_lit(kind, &text);
    json!({"ev": "lit", "id": id, "kind": kind, "chars": cps(&text), "text": text, "obs": o})
}
