//! Execution-context histories (properties C08, C17): an interpreter that steps real
//! ExecutionContexts through abstract operations, and a random history generator.
use crate::gen::*;
use crate::lang::quiet_panics;
use crate::mk::*;
use crate::model::*;
use rand::rngs::StdRng;
use rand::Rng;
use serde_json::{json, Value};
use std::panic::{catch_unwind, AssertUnwindSafe};
use wirefilter::{ExecutionContext, Scheme, SetFieldValueError};

pub struct HWorld {
    pub specs: Vec<SchemeSpec>,
    pub schemes: Vec<Scheme>,
    pub ctxs: Vec<Option<ExecutionContext<'static>>>,
    pub sch_of: Vec<usize>,
}

/// A user function that returns a value of another type than it declares (Int where Bytes is declared), applied to
/// an element, to every element of a field's array (borrowed) and to every element of arrays the engine built itself
/// (owned).  Whatever the engine does with it - it panics - it must not hand out an array that says Array(Bytes) and
/// holds integers: "arrays can only be built homogeneous".
fn mistyped(k: usize) -> Value {
    use wirefilter::{FunctionArgs, LhsValue, SimpleFunctionArgKind, SimpleFunctionDefinition, SimpleFunctionImpl, SimpleFunctionParam, Type};
    fn liar<'a>(args: FunctionArgs<'_, 'a>) -> Option<LhsValue<'a>> {
        let mut n = 0i64;
        for a in args {
            if let Ok(LhsValue::Bytes(b)) = a { n += b.len() as i64 }
        }
        Some(LhsValue::Int(n))
    }
    fn echo<'a>(args: FunctionArgs<'_, 'a>) -> Option<LhsValue<'a>> {
        args.next()?.ok()
    }
    let def = |f: SimpleFunctionImpl| SimpleFunctionDefinition {
        params: vec![SimpleFunctionParam { arg_kind: SimpleFunctionArgKind::Field, val_type: Type::Bytes }],
        opt_params: vec![],
        return_type: Type::Bytes,
        implementation: f,
    };
    let mut b = wirefilter::SchemeBuilder::new();
    b.add_field("tags", Type::Array(Type::Bytes.into())).unwrap();
    b.add_function("liar", def(SimpleFunctionImpl::new(liar))).unwrap();
    b.add_function("echo", def(SimpleFunctionImpl::new(echo))).unwrap();
    b.add_function("concat", wirefilter::ConcatFunction::new()).unwrap();
    let scheme = b.build();
    let srcs = ["liar(tags[*])", "liar(echo(tags[*])[*])", "liar(concat(tags, tags)[*])", "liar(tags[0])", "echo(liar(tags[*])[*])", "concat(liar(tags[*]), tags)"];
    let src = srcs[k % srcs.len()];
    let mut ctx = wirefilter::ExecutionContext::<()>::new(&scheme);
    let tags = wirefilter::Array::try_from_iter(Type::Bytes, ["a", "bc", "def"].iter().map(|s| LhsValue::Bytes(s.as_bytes().into()))).unwrap();
    ctx.set_field_value_from_name("tags", tags).unwrap();
    let r = catch_unwind(AssertUnwindSafe(|| {
        let f = scheme.parse_value(src).map_err(|_| "ParseError")?.compile();
        match f.execute(&ctx).map_err(|_| "SchemeMismatch")? {
            Err(_) => Ok("absent"),
            Ok(v) => {
                fn honest(v: &Val) -> bool {
                    match v {
                        Val::Arr { e, v: items } => items.iter().all(|x| x.ty().as_ref() == Some(e) && honest(x)),
                        Val::Map { e, v: items } => items.iter().all(|x| x.v.ty().as_ref() == Some(e) && honest(&x.v)),
                        _ => true,
                    }
                }
                let v = Val::from_engine(&v);
                let declared_bytes = v.ty() == Some(Ty::Bytes) || v.ty() == Some(Ty::arr(Ty::Bytes));
                if honest(&v) && declared_bytes { Ok::<&str, &str>("well-typed") } else { Ok("ill-typed") }
            }
        }
    }));
    match r {
        Err(_) => res_err("panic"),
        Ok(Err(e)) => res_err(e),
        Ok(Ok(x)) => res_err(x),
    }
}

fn res_ok(v: Val) -> Value {
    json!({"out": "ok", "v": v})
}
fn res_err(e: &str) -> Value {
    json!({"out": e, "v": Val::nil()})
}

impl HWorld {
    pub fn new(specs: Vec<SchemeSpec>) -> HWorld {
        let schemes = specs.iter().map(build_scheme).collect();
        HWorld {
            specs,
            schemes,
            ctxs: vec![],
            sch_of: vec![],
        }
    }

    pub fn new_ctx(&mut self, sid: usize) -> usize {
        self.ctxs.push(Some(ExecutionContext::new(&self.schemes[sid - 1])));
        self.sch_of.push(sid);
        self.ctxs.len()
    }

    /// abs(), with a panic of the engine (for instance a handle that points nowhere) as data
    pub fn abs(&self, c: usize) -> Value {
        match catch_unwind(AssertUnwindSafe(|| self.abs_inner(c))) {
            Ok(v) => v,
            Err(_) => json!({"sch": self.sch_of.get(c - 1).copied().unwrap_or(0), "vals": [], "lists": [], "alive": true, "panic": true}),
        }
    }

    fn abs_inner(&self, c: usize) -> Value {
        match &self.ctxs[c - 1] {
            Some(ctx) => {
                let sid = self.sch_of[c - 1];
                let a = abs_ctx(&self.schemes[sid - 1], &self.specs[sid - 1], sid, ctx);
                json!({"sch": sid, "vals": a.vals, "lists": a.lists, "alive": true})
            }
            None => json!({"sch": self.sch_of[c - 1], "alive": false}),
        }
    }

    /// operations that act on one context (also usable on a borrow guard)
    fn apply_on(&self, ctx: &mut ExecutionContext<'static>, sid: usize, op: &Value) -> Value {
        let kind = op["op"].as_str().unwrap_or("");
        let spec = &self.specs[sid - 1];
        let scheme = &self.schemes[sid - 1];
        match kind {
            "set" => {
                let name = op["name"].as_str().unwrap();
                let v: Val = serde_json::from_value(op["v"].clone()).unwrap();
                let ev = match v.to_engine() {
                    Ok(x) => x,
                    Err(_) => return res_err("unbuildable-value"),
                };
                let r = if op["how"] == "field" {
                    let fsch = op["fsch"].as_u64().unwrap() as usize;
                    match self.schemes[fsch - 1].get_field(name) {
                        Ok(f) => ctx.set_field_value(f, ev),
                        Err(_) => return res_err("UnknownField"),
                    }
                } else {
                    ctx.set_field_value_from_name(name, ev)
                };
                match r {
                    Ok(prev) => res_ok(prev.map(|p| Val::from_engine(&p)).unwrap_or(Val::nil())),
                    Err(SetFieldValueError::TypeMismatch(_)) => res_err("TypeMismatch"),
                    Err(SetFieldValueError::SchemeMismatch(_)) => res_err("SchemeMismatch"),
                    Err(SetFieldValueError::UnknownField(_)) => res_err("UnknownField"),
                }
            }
            "get" => {
                let name = op["name"].as_str().unwrap();
                match scheme.get_field(name) {
                    Ok(f) => res_ok(ctx.get_field_value(f).map(Val::from_engine).unwrap_or(Val::nil())),
                    Err(_) => res_err("UnknownField"),
                }
            }
            "clear" => {
                ctx.clear();
                res_ok(Val::nil())
            }
            "setlist" => {
                let li = op["li"].as_u64().unwrap() as usize;
                let m: MatcherSpec = serde_json::from_value(op["m"].clone()).unwrap();
                let list = scheme.get_list(&spec.lists[li - 1].to_engine()).unwrap();
                let lm = ctx.get_list_matcher_mut(list);
                match lm.as_any_mut().downcast_mut::<SetMatcher>() {
                    Some(sm) => {
                        sm.sets = m.sets;
                        res_ok(Val::nil())
                    }
                    None => res_err("not-a-set-matcher"),
                }
            }
            "exec" => {
                let fsch = op["fsch"].as_u64().unwrap() as usize;
                let ts: Vec<Tok> = serde_json::from_value(op["ts"].clone()).unwrap();
                let src = render(&ts);
                let fscheme = &self.schemes[fsch - 1];
                let parsed = catch_unwind(AssertUnwindSafe(|| fscheme.parse(&src).map_err(|_| ())));
                match parsed {
                    Err(_) => res_err("panic"),
                    Ok(Err(_)) => res_err("ParseError"),
                    Ok(Ok(ast)) => {
                        let f = ast.compile();
                        match catch_unwind(AssertUnwindSafe(|| f.execute(ctx))) {
                            Ok(Ok(b)) => res_ok(Val::Bool { v: b }),
                            Ok(Err(_)) => res_err("SchemeMismatch"),
                            Err(_) => res_err("panic"),
                        }
                    }
                }
            }
            "execv" => {
                let fsch = op["fsch"].as_u64().unwrap() as usize;
                let ts: Vec<Tok> = serde_json::from_value(op["ts"].clone()).unwrap();
                let src = render(&ts);
                let fscheme = &self.schemes[fsch - 1];
                let parsed = catch_unwind(AssertUnwindSafe(|| fscheme.parse_value(&src).map_err(|_| ())));
                match parsed {
                    Err(_) => res_err("panic"),
                    Ok(Err(_)) => res_err("ParseError"),
                    Ok(Ok(ast)) => {
                        let f = ast.compile();
                        match catch_unwind(AssertUnwindSafe(|| f.execute(ctx).map(|r| match r {
                            Ok(v) => Val::from_engine(&v),
                            Err(t) => Val::Nil { ty: Some(Ty::from_engine(t)) },
                        }))) {
                            Ok(Ok(v)) => res_ok(v),
                            Ok(Err(_)) => res_err("SchemeMismatch"),
                            Err(_) => res_err("panic"),
                        }
                    }
                }
            }
            "mkval" => {
                // every public construction route must give the same verdict
                let v: Val = serde_json::from_value(op["v"].clone()).unwrap();
                let a = catch_unwind(AssertUnwindSafe(|| v.to_engine()));
                let b = catch_unwind(AssertUnwindSafe(|| v.to_engine_via_iter()));
                match (a, b) {
                    (Ok(Ok(x)), Ok(Ok(y))) => {
                        // the statically typed wrappers, where they can express the shape, give the same value
                        let typed = catch_unwind(AssertUnwindSafe(|| v.to_engine_typed()));
                        let typed_ok = match &typed {
                            Ok(Some(z)) => *z == x && wirefilter::GetType::get_type(z) == wirefilter::GetType::get_type(&x),
                            Ok(None) => true,
                            Err(_) => false,
                        };
                        if x == y && typed_ok { res_ok(Val::from_engine(&x)) } else { res_err("routes-disagree") }
                    }
                    (Ok(Err(_)), Ok(Err(_))) => res_err("TypeMismatch"),
                    (Err(_), _) | (_, Err(_)) => res_err("panic"),
                    _ => res_err("routes-disagree"),
                }
            }
            "mistyped" => mistyped(op["k"].as_u64().unwrap_or(0) as usize),
            _ => res_err("unknown-op"),
        }
    }

    pub fn apply(&mut self, op: &Value) -> Value {
        let kind = op["op"].as_str().unwrap_or("").to_string();
        match kind.as_str() {
            "new" => {
                let sid = op["sch"].as_u64().unwrap() as usize;
                let id = self.new_ctx(sid);
                res_ok(Val::int(id as i64))
            }
            "clone" => {
                let c = op["c"].as_u64().unwrap() as usize;
                let cl = self.ctxs[c - 1].as_ref().unwrap().clone_with(());
                self.ctxs.push(Some(cl));
                self.sch_of.push(self.sch_of[c - 1]);
                res_ok(Val::int(self.ctxs.len() as i64))
            }
            "roundtrip" => {
                use serde::de::DeserializeSeed;
                let c = op["c"].as_u64().unwrap() as usize;
                let sid = self.sch_of[c - 1];
                let text = serde_json::to_string(self.ctxs[c - 1].as_ref().unwrap()).unwrap_or_default();
                let mut fresh = ExecutionContext::<()>::new(&self.schemes[sid - 1]);
                let leaked: &'static str = Box::leak(text.into_boxed_str());
                let mut de = serde_json::Deserializer::from_str(leaked);
                let ok = (&mut fresh).deserialize(&mut de).is_ok();
                self.ctxs.push(Some(fresh));
                self.sch_of.push(sid);
                if ok { res_ok(Val::int(self.ctxs.len() as i64)) } else { res_err("roundtrip-failed") }
            }
            "take" => {
                let c = op["c"].as_u64().unwrap() as usize;
                let old = self.ctxs[c - 1].take().unwrap();
                let n = old.take_with(|_| ());
                self.ctxs.push(Some(n));
                self.sch_of.push(self.sch_of[c - 1]);
                res_ok(Val::int(self.ctxs.len() as i64))
            }
            "borrow" => {
                let c = op["c"].as_u64().unwrap() as usize;
                let sid = self.sch_of[c - 1];
                let mut ctx = self.ctxs[c - 1].take().unwrap();
                let mut sub = Vec::new();
                {
                    let mut g = ctx.borrow_with(0u8);
                    for o in op["ops"].as_array().unwrap() {
                        // the guard derefs to a context with different user data; operate through
                        // a context of the unit type by taking the guard's storage temporarily
                        sub.push(self.apply_on_guard(&mut g, sid, o));
                    }
                }
                self.ctxs[c - 1] = Some(ctx);
                json!({"out": "ok", "v": Val::nil(), "sub": sub})
            }
            _ => {
                let c = op["c"].as_u64().unwrap_or(0) as usize;
                if kind == "mkval" {
                    let mut tmp = ExecutionContext::new(&self.schemes[0]);
                    return self.apply_on(&mut tmp, 1, op);
                }
                let sid = self.sch_of[c - 1];
                let mut ctx = self.ctxs[c - 1].take().unwrap();
                let r = self.apply_on(&mut ctx, sid, op);
                self.ctxs[c - 1] = Some(ctx);
                r
            }
        }
    }

    fn apply_on_guard(
        &self,
        g: &mut wirefilter::ExecutionContextGuard<'_, 'static, (), u8>,
        sid: usize,
        op: &Value,
    ) -> Value {
        // ExecutionContext<'_, u8> has the same API; duplicate the few operations needed
        let kind = op["op"].as_str().unwrap_or("");
        let scheme = &self.schemes[sid - 1];
        match kind {
            "set" => {
                let name = op["name"].as_str().unwrap();
                let v: Val = serde_json::from_value(op["v"].clone()).unwrap();
                let ev = match v.to_engine() {
                    Ok(x) => x,
                    Err(_) => return res_err("unbuildable-value"),
                };
                let r = if op["how"] == "field" {
                    let fsch = op["fsch"].as_u64().unwrap() as usize;
                    match self.schemes[fsch - 1].get_field(name) {
                        Ok(f) => g.set_field_value(f, ev),
                        Err(_) => return res_err("UnknownField"),
                    }
                } else {
                    g.set_field_value_from_name(name, ev)
                };
                match r {
                    Ok(prev) => res_ok(prev.map(|p| Val::from_engine(&p)).unwrap_or(Val::nil())),
                    Err(SetFieldValueError::TypeMismatch(_)) => res_err("TypeMismatch"),
                    Err(SetFieldValueError::SchemeMismatch(_)) => res_err("SchemeMismatch"),
                    Err(SetFieldValueError::UnknownField(_)) => res_err("UnknownField"),
                }
            }
            "get" => {
                let name = op["name"].as_str().unwrap();
                match scheme.get_field(name) {
                    Ok(f) => res_ok(g.get_field_value(f).map(Val::from_engine).unwrap_or(Val::nil())),
                    Err(_) => res_err("UnknownField"),
                }
            }
            "clear" => {
                g.clear();
                res_ok(Val::nil())
            }
            "setlist" => {
                let li = op["li"].as_u64().unwrap() as usize;
                let m: MatcherSpec = serde_json::from_value(op["m"].clone()).unwrap();
                let list = scheme.get_list(&self.specs[sid - 1].lists[li - 1].to_engine()).unwrap();
                let lm = g.get_list_matcher_mut(list);
                match lm.as_any_mut().downcast_mut::<SetMatcher>() {
                    Some(sm) => {
                        sm.sets = m.sets;
                        res_ok(Val::nil())
                    }
                    None => res_err("not-a-set-matcher"),
                }
            }
            "exec" => {
                let ts: Vec<Tok> = serde_json::from_value(op["ts"].clone()).unwrap();
                let src = render(&ts);
                match catch_unwind(AssertUnwindSafe(|| scheme.parse(&src).map_err(|_| ()))) {
                    Err(_) => res_err("panic"),
                    Ok(Err(_)) => res_err("ParseError"),
                    Ok(Ok(ast)) => {
                        let f = ast.compile_with_compiler(&mut wirefilter::DefaultCompiler::<u8>::default());
                        match catch_unwind(AssertUnwindSafe(|| f.execute(&**g))) {
                            Ok(Ok(b)) => res_ok(Val::Bool { v: b }),
                            Ok(Err(_)) => res_err("SchemeMismatch"),
                            Err(_) => res_err("panic"),
                        }
                    }
                }
            }
            _ => res_err("unsupported-in-borrow"),
        }
    }
}

/// Replays one history vector: {"schs":[..], "init":[sid..], "ops":[..], "res":[..], "final":[..]}
pub fn replay_hist(v: &Value) -> (Value, Vec<String>) {
    quiet_panics();
    let specs: Vec<SchemeSpec> = serde_json::from_value(v["schs"].clone()).expect("schs");
    let mut w = HWorld::new(specs);
    for sid in v["init"].as_array().unwrap() {
        w.new_ctx(sid.as_u64().unwrap() as usize);
    }
    let mut diffs = Vec::new();
    let mut obs = Vec::new();
    let ops = v["ops"].as_array().unwrap();
    let exp = v["res"].as_array().cloned().unwrap_or_default();
    for (i, op) in ops.iter().enumerate() {
        let r = catch_unwind(AssertUnwindSafe(|| w.apply(op))).unwrap_or_else(|_| res_err("panic"));
        if i < exp.len() && exp[i] != r {
            diffs.push(format!("step {} {}: expected {} observed {}", i + 1, op["op"], exp[i], r));
        }
        obs.push(r);
    }
    let fin: Vec<Value> = (1..=w.ctxs.len()).map(|c| w.abs(c)).collect();
    if let Some(ef) = v.get("final").and_then(|f| f.as_array()) {
        for (i, e) in ef.iter().enumerate() {
            let o = fin.get(i).cloned().unwrap_or(Value::Null);
            let same = if e["alive"] == false { o["alive"] == false } else { *e == o };
            if !same {
                diffs.push(format!("final state of ctx {}: expected {} observed {}", i + 1, e, o));
            }
        }
    }
    (json!({"res": obs, "final": fin}), diffs)
}

// ---------------------------------------------------------------------------------------
// random histories (impl -> spec)

pub fn wrong_typed(r: &mut StdRng, ty: &Ty) -> Val {
    // a value close to `ty` but not of it
    match r.random_range(0..4) {
        0 => gen_val(r, &Ty::arr(ty.clone()), 0), // one level too deep
        1 => match ty.elem() {
            Some(e) => gen_val(r, e, 0), // one level too shallow
            None => gen_val(r, &Ty::arr(Ty::Bytes), 0),
        },
        2 => {
            // same shape, other primitive
            fn swap(t: &Ty) -> Ty {
                match t {
                    Ty::Array { e } => Ty::arr(swap(e)),
                    Ty::Map { e } => Ty::map(swap(e)),
                    Ty::Int => Ty::Bytes,
                    Ty::Bytes => Ty::Int,
                    Ty::Ip => Ty::Bool,
                    Ty::Bool => Ty::Ip,
                }
            }
            gen_val(r, &swap(ty), 0)
        }
        _ => match ty {
            Ty::Array { e } => gen_val(r, &Ty::map((**e).clone()), 0),
            Ty::Map { e } => gen_val(r, &Ty::arr((**e).clone()), 0),
            _ => gen_val(r, &Ty::Bool, 0),
        },
    }
}

/// makes a container value heterogeneous somewhere (for the construction checks)
pub fn spoil(r: &mut StdRng, v: &Val) -> Val {
    match v {
        Val::Arr { e, v: items } if !items.is_empty() => {
            let mut items = items.clone();
            let i = r.random_range(0..items.len());
            if r.random_range(0..2) == 0 && matches!(items[i], Val::Arr { .. } | Val::Map { .. }) {
                items[i] = spoil(r, &items[i]);
            } else {
                items[i] = wrong_typed(r, e);
            }
            Val::Arr { e: e.clone(), v: items }
        }
        Val::Map { e, v: items } if !items.is_empty() => {
            let mut items = items.clone();
            let i = r.random_range(0..items.len());
            items[i].v = wrong_typed(r, e);
            Val::Map { e: e.clone(), v: items }
        }
        other => other.clone(),
    }
}
