//! Builds real engine objects (scheme, function family, list definition, execution
//! contexts) from their abstract descriptions, and records function invocations.
use crate::model::*;
use serde::{Deserialize, Serialize};
use std::cell::RefCell;
use wirefilter::{
    AlwaysList, CompiledFunction, ConcatFunction, ExecutionContext, FunctionArgs,
    FunctionDefinition, FunctionDefinitionContext, FunctionParam, FunctionParamError, LhsValue,
    ListDefinition, ListMatcher, NeverList, ParserSettings, Scheme, SchemeBuilder,
    SimpleFunctionArgKind, SimpleFunctionDefinition, SimpleFunctionImpl, SimpleFunctionOptParam,
    SimpleFunctionParam, Type,
};

thread_local! {
    /// invocation log of the harness function family: (sem, args as abstract values)
    pub static CALLS: RefCell<Vec<(String, Vec<Val>)>> = const { RefCell::new(Vec::new()) };
    /// list matcher queries: (list name, value)
    pub static LISTQ: RefCell<Vec<(String, Val)>> = const { RefCell::new(Vec::new()) };
    pub static RECORD: RefCell<bool> = const { RefCell::new(false) };
}

fn collect(sem: &str, args: FunctionArgs<'_, '_>) -> Vec<Val> {
    let v: Vec<Val> = args
        .map(|a| match a {
            Ok(v) => Val::from_engine(&v),
            Err(t) => Val::Nil {
                ty: Some(Ty::from_engine(t)),
            },
        })
        .collect();
    if RECORD.with(|r| *r.borrow()) {
        CALLS.with(|c| c.borrow_mut().push((sem.to_string(), v.clone())));
    }
    v
}

fn ty_code(t: &Ty, out: &mut Vec<u8>) {
    match t {
        Ty::Bool => out.push(b'B'),
        Ty::Int => out.push(b'I'),
        Ty::Ip => out.push(b'P'),
        Ty::Bytes => out.push(b'Y'),
        Ty::Array { e } => {
            out.push(b'A');
            ty_code(e, out)
        }
        Ty::Map { e } => {
            out.push(b'M');
            ty_code(e, out)
        }
    }
}

fn show(v: &Val, out: &mut Vec<u8>) {
    match v {
        Val::Nil { ty } => {
            out.push(b'~');
            if let Some(t) = ty {
                ty_code(t, out)
            }
        }
        Val::Bytes { v } => out.extend_from_slice(v),
        _ => out.extend_from_slice(b"<?>"),
    }
}

fn low_byte(v: &Val, out: &mut Vec<u8>) {
    match v {
        Val::Int { v } => out.push((v[3] & 0xff) as u8),
        _ => out.push(b'~'),
    }
}

fn owned(v: Val) -> Option<LhsValue<'static>> {
    v.to_engine().ok()
}

fn f_id<'a>(args: FunctionArgs<'_, 'a>) -> Option<LhsValue<'a>> {
    // identity, passing the very value through (no copy)
    let first = args.next();
    let _rest: Vec<_> = args.collect();
    let r = match first {
        Some(Ok(v)) => Some(v),
        _ => None,
    };
    if RECORD.with(|r| *r.borrow()) {
        let a = match &r {
            Some(v) => Val::from_engine(v),
            None => Val::nil(),
        };
        CALLS.with(|c| c.borrow_mut().push(("id".to_string(), vec![a])));
    }
    r
}
fn f_drop_empty<'a>(args: FunctionArgs<'_, 'a>) -> Option<LhsValue<'a>> {
    let a = collect("drop_empty", args);
    match &a[0] {
        Val::Bytes { v } if !v.is_empty() => owned(a[0].clone()),
        _ => None,
    }
}
fn f_blen<'a>(args: FunctionArgs<'_, 'a>) -> Option<LhsValue<'a>> {
    let a = collect("blen", args);
    match &a[0] {
        Val::Bytes { v } => Some(LhsValue::Int(v.len() as i64)),
        _ => None,
    }
}
fn f_alen<'a>(args: FunctionArgs<'_, 'a>) -> Option<LhsValue<'a>> {
    let a = collect("alen", args);
    match &a[0] {
        Val::Arr { v, .. } => Some(LhsValue::Int(v.len() as i64)),
        _ => None,
    }
}
fn f_pair<'a>(args: FunctionArgs<'_, 'a>) -> Option<LhsValue<'a>> {
    let a = collect("pair", args);
    let mut out = Vec::new();
    show(&a[0], &mut out);
    out.push(b'|');
    show(&a[1], &mut out);
    Some(LhsValue::Bytes(out.into()))
}
fn f_join3<'a>(args: FunctionArgs<'_, 'a>) -> Option<LhsValue<'a>> {
    let a = collect("join3", args);
    let mut out = Vec::new();
    show(&a[0], &mut out);
    out.push(b'|');
    show(&a[1], &mut out);
    out.push(b'|');
    show(&a[2], &mut out);
    Some(LhsValue::Bytes(out.into()))
}
fn f_plen<'a>(args: FunctionArgs<'_, 'a>) -> Option<LhsValue<'a>> {
    let a = collect("plen", args);
    let mut out = Vec::new();
    show(&a[0], &mut out);
    let n = out.len();
    out.clear();
    show(&a[1], &mut out);
    Some(LhsValue::Int((n + out.len()) as i64))
}
fn f_opt2<'a>(args: FunctionArgs<'_, 'a>) -> Option<LhsValue<'a>> {
    let a = collect("opt2", args);
    let mut out = Vec::new();
    show(&a[0], &mut out);
    out.push(b'|');
    show(&a[1], &mut out);
    out.push(b'|');
    low_byte(&a[2], &mut out);
    Some(LhsValue::Bytes(out.into()))
}
fn f_lit_only<'a>(args: FunctionArgs<'_, 'a>) -> Option<LhsValue<'a>> {
    let a = collect("lit_only", args);
    let mut out = Vec::new();
    show(&a[0], &mut out);
    out.push(b'|');
    low_byte(&a[1], &mut out);
    Some(LhsValue::Bytes(out.into()))
}
fn f_ba<'a>(args: FunctionArgs<'_, 'a>) -> Option<LhsValue<'a>> {
    let a = collect("ba", args);
    match &a[0] {
        Val::Bool { .. } => owned(Val::Arr {
            e: Ty::Bool,
            v: vec![a[0].clone()],
        }),
        _ => None,
    }
}
fn f_ab<'a>(args: FunctionArgs<'_, 'a>) -> Option<LhsValue<'a>> {
    let a = collect("ab", args);
    match &a[0] {
        Val::Arr { v, .. } => Some(LhsValue::Bool(matches!(v.first(), Some(Val::Bool { v: true })))),
        _ => None,
    }
}
fn f_aa<'a>(args: FunctionArgs<'_, 'a>) -> Option<LhsValue<'a>> {
    let a = collect("aa", args);
    match &a[0] {
        Val::Arr { v, e } => owned(Val::Arr {
            e: e.clone(),
            v: v.iter().rev().cloned().collect(),
        }),
        _ => None,
    }
}

fn f_both<'a>(args: FunctionArgs<'_, 'a>) -> Option<LhsValue<'a>> {
    let a = collect("both", args);
    match (&a[0], &a[1]) {
        (Val::Bool { v: x }, Val::Bool { v: y }) => Some(LhsValue::Bool(*x && *y)),
        _ => None,
    }
}

fn kind(k: &str) -> SimpleFunctionArgKind {
    match k {
        "Literal" => SimpleFunctionArgKind::Literal,
        "Field" => SimpleFunctionArgKind::Field,
        _ => SimpleFunctionArgKind::Both,
    }
}

/// A function definition with a per-call definition context (property C03, last sentence).
/// check_param appends (index, kind, type) to the context through rotating accessors;
/// return_type and compile read it back through the other accessors.
#[derive(Debug, Clone, PartialEq, Default)]
pub struct CtxLog {
    pub entries: Vec<(usize, String, Ty)>,
}

thread_local! {
    /// what each phase saw: (phase, accessor, entries-or-None)
    pub static CTXOBS: RefCell<Vec<(String, String, Option<usize>)>> = const { RefCell::new(Vec::new()) };
}

#[derive(Debug)]
pub struct CtxFn;

fn ctx_obs(phase: &str, acc: &str, n: Option<usize>) {
    CTXOBS.with(|c| c.borrow_mut().push((phase.into(), acc.into(), n)));
}

impl FunctionDefinition for CtxFn {
    fn context(&self) -> Option<FunctionDefinitionContext> {
        Some(FunctionDefinitionContext::new(CtxLog::default()))
    }
    fn check_param(
        &self,
        _: &ParserSettings,
        params: &mut dyn ExactSizeIterator<Item = FunctionParam<'_>>,
        next: &FunctionParam<'_>,
        ctx: Option<&mut FunctionDefinitionContext>,
    ) -> Result<(), FunctionParamError> {
        let index = params.len();
        let k = match next {
            FunctionParam::Constant(_) => "Literal",
            FunctionParam::Variable(_) => "Field",
        };
        let ty = Ty::from_engine(wirefilter::GetType::get_type(next));
        let entry = (index, k.to_string(), ty);
        let Some(ctx) = ctx else {
            ctx_obs("check", "missing", None);
            return Ok(());
        };
        // rotating accessor: even index -> downcast_mut, odd -> as_any_mut().downcast_mut
        if index % 2 == 0 {
            match ctx.downcast_mut::<CtxLog>() {
                Some(l) => {
                    l.entries.push(entry);
                    ctx_obs("check", "downcast_mut", Some(l.entries.len()));
                }
                None => ctx_obs("check", "downcast_mut", None),
            }
        } else {
            match ctx.as_any_mut().downcast_mut::<CtxLog>() {
                Some(l) => {
                    l.entries.push(entry);
                    ctx_obs("check", "as_any_mut", Some(l.entries.len()));
                }
                None => {
                    ctx_obs("check", "as_any_mut", None);
                    // keep the log complete through the working accessor
                    if let Some(l) = ctx.downcast_mut::<CtxLog>() {
                        l.entries.push(entry);
                    }
                }
            }
        }
        Ok(())
    }
    fn return_type(
        &self,
        params: &mut dyn ExactSizeIterator<Item = FunctionParam<'_>>,
        ctx: Option<&FunctionDefinitionContext>,
    ) -> Type {
        let n = params.len();
        match ctx {
            None => ctx_obs("return_type", "missing", None),
            Some(c) => {
                ctx_obs(
                    "return_type",
                    "downcast_ref",
                    c.downcast_ref::<CtxLog>().map(|l| l.entries.len()),
                );
                ctx_obs(
                    "return_type",
                    "as_any_ref",
                    c.as_any_ref().downcast_ref::<CtxLog>().map(|l| l.entries.len()),
                );
            }
        }
        let _ = n;
        Type::Int
    }
    fn arg_count(&self) -> (usize, Option<usize>) {
        (0, Some(3))
    }
    fn compile(
        &self,
        params: &mut dyn ExactSizeIterator<Item = FunctionParam<'_>>,
        ctx: Option<FunctionDefinitionContext>,
    ) -> CompiledFunction {
        let n = params.len();
        let seen = match ctx {
            None => {
                ctx_obs("compile", "missing", None);
                None
            }
            Some(c) => {
                let cl = c.clone();
                ctx_obs(
                    "compile",
                    "clone+downcast_ref",
                    cl.downcast_ref::<CtxLog>().map(|l| l.entries.len()),
                );
                match c.downcast::<CtxLog>() {
                    Ok(l) => {
                        ctx_obs("compile", "downcast", Some(l.entries.len()));
                        Some(l.entries.len())
                    }
                    Err(_) => {
                        ctx_obs("compile", "downcast", None);
                        None
                    }
                }
            }
        };
        let _ = n;
        Box::new(move |args| {
            let _: Vec<_> = args.collect();
            seen.map(|s| LhsValue::Int(s as i64))
        })
    }
}

/// Harness list definition: named sets of values.
#[derive(Debug, Clone, PartialEq, Serialize, Deserialize, Default)]
pub struct SetMatcher {
    pub sets: Vec<NamedSet>,
}

impl ListMatcher for SetMatcher {
    fn match_value(&self, list_name: &str, val: &LhsValue<'_>) -> bool {
        let v = Val::from_engine(val);
        if RECORD.with(|r| *r.borrow()) {
            LISTQ.with(|c| c.borrow_mut().push((list_name.to_string(), v.clone())));
        }
        self.sets
            .iter()
            .any(|s| s.name == list_name.as_bytes() && s.vals.contains(&v))
    }
    fn clear(&mut self) {
        self.sets.clear();
    }
}

#[derive(Debug, Default)]
pub struct SetList;

impl ListDefinition for SetList {
    fn deserialize_matcher<'de>(
        &self,
        _: Type,
        deserializer: &mut dyn erased_serde::Deserializer<'de>,
    ) -> Result<Box<dyn ListMatcher>, erased_serde::Error> {
        let m = erased_serde::deserialize::<SetMatcher>(deserializer)?;
        Ok(Box::new(m))
    }
    fn new_matcher(&self) -> Box<dyn ListMatcher> {
        Box::new(SetMatcher::default())
    }
}

pub fn add_func(b: &mut SchemeBuilder, f: &FuncSpec) -> Result<(), String> {
    let imp: Option<SimpleFunctionImpl> = match f.sem.as_str() {
        "idb" | "idi" | "ida" | "fld_only" | "bb" | "idip" => Some(SimpleFunctionImpl::new(f_id)),
        "drop_empty" => Some(SimpleFunctionImpl::new(f_drop_empty)),
        "blen" => Some(SimpleFunctionImpl::new(f_blen)),
        "alen" => Some(SimpleFunctionImpl::new(f_alen)),
        "pair" => Some(SimpleFunctionImpl::new(f_pair)),
        "plen" => Some(SimpleFunctionImpl::new(f_plen)),
        "join3" => Some(SimpleFunctionImpl::new(f_join3)),
        "opt2" => Some(SimpleFunctionImpl::new(f_opt2)),
        "lit_only" => Some(SimpleFunctionImpl::new(f_lit_only)),
        "ba" => Some(SimpleFunctionImpl::new(f_ba)),
        "ab" => Some(SimpleFunctionImpl::new(f_ab)),
        "aa" => Some(SimpleFunctionImpl::new(f_aa)),
        "both" => Some(SimpleFunctionImpl::new(f_both)),
        _ => None,
    };
    match (f.sem.as_str(), imp) {
        ("concat", _) => b
            .add_function(&f.name, ConcatFunction::new())
            .map_err(|e| e.to_string()),
        ("ctxfn", _) => b.add_function(&f.name, CtxFn).map_err(|e| e.to_string()),
        (_, Some(imp)) => {
            let mut opts = Vec::new();
            for o in &f.opts {
                opts.push(SimpleFunctionOptParam {
                    arg_kind: kind(&o.kind),
                    default_value: o.def.to_engine()?,
                });
            }
            b.add_function(
                &f.name,
                SimpleFunctionDefinition {
                    params: f
                        .params
                        .iter()
                        .map(|p| SimpleFunctionParam {
                            arg_kind: kind(&p.kind),
                            val_type: p.ty.to_engine(),
                        })
                        .collect(),
                    opt_params: opts,
                    return_type: f.ret.to_engine(),
                    implementation: imp,
                },
            )
            .map_err(|e| e.to_string())
        }
        (s, None) => Err(format!("unknown function semantics {s}")),
    }
}

/// Builds the scheme the way a careless client would: every successful registration is followed by an attempt
/// to register the same name (or list type) again with something else.  The attempt must be refused and must
/// leave no trace - every check that uses the scheme afterwards is a witness of that.
pub fn build_scheme(s: &SchemeSpec) -> Scheme {
    build_scheme_route(s, 0)
}

/// The same scheme through the public construction routes: 0 = `SchemeBuilder::new()`, 1 = `SchemeBuilder::default()`
/// (also what the C API's builder is).  On both routes the nil-not-equal setting is only written when the
/// specification asks for the non-default one: "true by default" is part of the language (C01), so a scheme that
/// never touches the setter must behave like one that sets it to true.  Route 2 = `new()` with the default written
/// explicitly.
pub fn build_scheme_route(s: &SchemeSpec, route: usize) -> Scheme {
    if route == 3 {
        // a scheme of fields only, read back from its own JSON form (C15: names, order, types, optionality survive;
        // nothing else is part of the form, so every setting is the default)
        let plain = build_scheme_route(s, 0);
        if s.funcs.is_empty() && s.lists.is_empty() && s.nne {
            if let Ok(j) = serde_json::to_string(&plain) {
                if let Ok(back) = serde_json::from_str::<Scheme>(&j) {
                    return back;
                }
            }
        }
        return plain;
    }
    let mut b = if route == 1 { SchemeBuilder::default() } else { SchemeBuilder::new() };
    for f in &s.fields {
        if f.opt {
            b.add_optional_field(&f.name, f.ty.to_engine()).unwrap();
        } else {
            b.add_field(&f.name, f.ty.to_engine()).unwrap();
        }
        let other = if f.ty == Ty::Int { Type::Bytes } else { Type::Int };
        assert!(b.add_field(&f.name, other).is_err(), "a second field {} was accepted", f.name);
        assert!(b.add_function(&f.name, ConcatFunction::new()).is_err(), "a function named like field {} was accepted", f.name);
    }
    for f in &s.funcs {
        add_func(&mut b, f).unwrap();
        assert!(b.add_function(&f.name, ConcatFunction::new()).is_err(), "a second function {} was accepted", f.name);
        assert!(b.add_optional_field(&f.name, Type::Bool).is_err(), "a field named like function {} was accepted", f.name);
    }
    for (i, t) in s.lists.iter().enumerate() {
        let k = s.listkinds.get(i).map(|s| s.as_str()).unwrap_or("set");
        match k {
            "always" => b.add_list(t.to_engine(), AlwaysList::default()).unwrap(),
            "never" => b.add_list(t.to_engine(), NeverList::default()).unwrap(),
            _ => b.add_list(t.to_engine(), SetList).unwrap(),
        }
        // a second list for the same type, of the opposite built-in kind, is refused
        let again = if k == "always" { b.add_list(t.to_engine(), NeverList::default()) } else { b.add_list(t.to_engine(), AlwaysList::default()) };
        assert!(again.is_err(), "a second list for one type was accepted");
    }
    if !s.nne || route == 2 {
        b.set_nil_not_equal_behavior(s.nne);
    }
    b.build()
}

pub fn build_ctx<'s>(scheme: &'s Scheme, spec: &SchemeSpec, c: &CtxSpec) -> ExecutionContext<'static> {
    let mut ctx = ExecutionContext::<()>::new(scheme);
    for (i, v) in c.vals.iter().enumerate() {
        if v.is_nil() {
            continue;
        }
        let f = scheme.get_field(&spec.fields[i].name).unwrap();
        ctx.set_field_value(f, v.to_engine().unwrap()).unwrap();
    }
    for (i, m) in c.lists.iter().enumerate() {
        if m.kind == "set" {
            let list = scheme.get_list(&spec.lists[i].to_engine()).unwrap();
            let lm = ctx.get_list_matcher_mut(list);
            let any: &mut dyn std::any::Any = lm_as_any_mut(lm);
            let sm = any.downcast_mut::<SetMatcher>().unwrap();
            sm.sets = m.sets.clone();
        }
    }
    ctx
}

fn lm_as_any_mut(lm: &mut dyn ListMatcher) -> &mut dyn std::any::Any {
    lm.as_any_mut()
}

/// abs(ctx): project the real context to its abstract state
pub fn abs_ctx(scheme: &Scheme, spec: &SchemeSpec, sch_id: usize, ctx: &ExecutionContext<'_>) -> CtxSpec {
    let vals = spec
        .fields
        .iter()
        .map(|f| {
            let fr = scheme.get_field(&f.name).unwrap();
            match ctx.get_field_value(fr) {
                Some(v) => Val::from_engine(v),
                None => Val::nil(),
            }
        })
        .collect();
    let lists = spec
        .lists
        .iter()
        .enumerate()
        .map(|(i, t)| {
            let k = spec.listkinds.get(i).map(|s| s.as_str()).unwrap_or("set");
            let list = scheme.get_list(&t.to_engine()).unwrap();
            let lm = ctx.get_list_matcher(list);
            match lm.as_any().downcast_ref::<SetMatcher>() {
                Some(sm) => MatcherSpec {
                    kind: "set".into(),
                    sets: sm.sets.clone(),
                },
                None => {
                    // a built-in matcher: what it IS is read off its behaviour (always matches / never matches),
                    // not off the definition the scheme was built with
                    let probe = match t {
                        Ty::Int => wirefilter::LhsValue::Int(0),
                        Ty::Ip => wirefilter::LhsValue::Ip(std::net::IpAddr::from([0, 0, 0, 0])),
                        _ => wirefilter::LhsValue::Bytes((&b"probe"[..]).into()),
                    };
                    let _ = k;
                    MatcherSpec {
                        kind: if lm.match_value("probe", &probe) { "always".into() } else { "never".into() },
                        sets: vec![],
                    }
                }
            }
        })
        .collect();
    CtxSpec {
        sch: sch_id,
        vals,
        lists,
    }
}
