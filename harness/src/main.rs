mod conc;
mod contains;
mod ffi;
mod gen;
mod hist;
mod lang;
mod lit;
mod mk;
mod reg;
mod serde_ctx;
mod model;
mod panics;
mod tagjson;
mod total;
mod types;

use gen::*;
use lang::*;
use model::*;
use rand::Rng;
use serde_json::{json, Value};
use std::collections::HashMap;
use std::fs::File;
use std::io::{BufRead, BufReader, BufWriter, Write};

/// bytes handed out by the C API; a null pointer (what a failing call returns) reads as empty
pub fn ffi_bytes<'a>(p: *const u8, len: usize) -> &'a [u8] {
    if p.is_null() || len == 0 { &[] } else { unsafe { std::slice::from_raw_parts(p, len) } }
}

#[global_allocator]
static ALLOC: panics::PerturbAlloc = panics::PerturbAlloc;

fn arg_map(args: &[String]) -> HashMap<String, String> {
    let mut m = HashMap::new();
    let mut i = 0;
    while i < args.len() {
        if let Some(k) = args[i].strip_prefix("--") {
            if i + 1 < args.len() && !args[i + 1].starts_with("--") {
                m.insert(k.to_string(), args[i + 1].clone());
                i += 2;
                continue;
            }
            m.insert(k.to_string(), "1".into());
        }
        i += 1;
    }
    m
}

fn geti(a: &HashMap<String, String>, k: &str, d: u32) -> u32 {
    a.get(k).and_then(|s| s.parse().ok()).unwrap_or(d)
}

fn write_ndjson<T: serde::Serialize>(path: &str, items: &[T]) {
    let mut w = BufWriter::new(File::create(path).unwrap());
    for it in items {
        serde_json::to_writer(&mut w, it).unwrap();
        w.write_all(b"\n").unwrap();
    }
    w.flush().unwrap();
}

/// impl -> spec: drive the engine with random programs and contexts, record what it did.
fn gen_lang(a: &HashMap<String, String>) {
    let family = a.get("family").map(|s| s.as_str()).unwrap_or("rich");
    let seed: u64 = a.get("seed").and_then(|s| s.parse().ok()).unwrap_or(1);
    let n: usize = a.get("n").and_then(|s| s.parse().ok()).unwrap_or(1000);
    let out = a.get("out").cloned().unwrap_or_else(|| ".".into());
    let nctx: usize = a.get("nctx").and_then(|s| s.parse().ok()).unwrap_or(6);
    let mutate_pct: u32 = a.get("mutate").and_then(|s| s.parse().ok()).unwrap_or(0);
    let max_depth: usize = a.get("depth").and_then(|s| s.parse().ok()).unwrap_or(3);
    let mut r = rng_from(seed);
    quiet_panics();

    let specs: Vec<SchemeSpec> = match family {
        "c01" => vec![
            scalar_scheme(true, true),
            scalar_scheme(true, false),
            scalar_scheme(false, true),
            scalar_scheme(false, false),
        ],
        "c02" => vec![
            rich_scheme(true, true, false, &[]),
            rich_scheme(false, false, false, &[]),
        ],
        _ => vec![
            rich_scheme(true, true, true, &[("set", Ty::Int), ("set", Ty::Bytes), ("set", Ty::Ip)]),
            rich_scheme(true, false, true, &[("set", Ty::Ip), ("set", Ty::Int)]),
            rich_scheme(false, true, true, &[("always", Ty::Int), ("never", Ty::Bytes)]),
        ],
    };
    let mut ctxs: Vec<CtxSpec> = Vec::new();
    let mut by_scheme: Vec<Vec<usize>> = vec![vec![]; specs.len()];
    for (si, s) in specs.iter().enumerate() {
        for _ in 0..nctx {
            ctxs.push(gen_ctx(&mut r, si + 1, s));
            by_scheme[si].push(ctxs.len());
        }
    }
    if family == "c02" || family == "rich" {
        // long arrays in some contexts: an index of 8 and above (written 010, 0x8, 8, ...) finds an element
        for (k, c) in ctxs.iter_mut().enumerate() {
            if k % 2 == 0 {
                for v in c.vals.iter_mut() {
                    if let Val::Arr { e, v: items } = v {
                        if *e == Ty::Int && !items.is_empty() {
                            while items.len() < 13 {
                                let n = items.len() as i64;
                                items.push(Val::int(n * 3 - 7));
                            }
                        }
                    }
                }
            }
        }
    }
    if family == "c11" {
        // values over the pattern alphabet, so that patterns hit
        fn re_bytes(r: &mut rand::rngs::StdRng, v: &mut Val) {
            match v {
                Val::Bytes { v: b } => {
                    let alpha: [u8; 9] = [b'a', b'b', b'A', b'"', b']', 10, 0xff, b'*', b'\\'];
                    let n = r.random_range(0..5);
                    *b = (0..n).map(|_| alpha[r.random_range(0..alpha.len())]).collect();
                }
                Val::Arr { v: items, .. } => items.iter_mut().for_each(|x| re_bytes(r, x)),
                Val::Map { v: items, .. } => items.iter_mut().for_each(|x| re_bytes(r, &mut x.v)),
                _ => {}
            }
        }
        for c in ctxs.iter_mut() {
            for v in c.vals.iter_mut() {
                re_bytes(&mut r, v);
            }
        }
    }
    let w = World::new(specs.clone(), ctxs.clone());
    // the character-level specification needs the code points of every identifier (TLA+ strings have none)
    let with_idents: Vec<Value> = specs.iter().map(|s| {
        let mut v = serde_json::to_value(s).unwrap();
        let ids: Vec<Value> = s.fields.iter().map(|f| &f.name).chain(s.funcs.iter().map(|f| &f.name))
            .map(|n| json!({"name": n, "cp": n.chars().map(|c| c as u32).collect::<Vec<_>>()})).collect();
        v["idents"] = json!(ids);
        v
    }).collect();
    write_ndjson(&format!("{out}/schemes.ndjson"), &with_idents);
    write_ndjson(&format!("{out}/ctxs.ndjson"), &ctxs);

    let mut tw = BufWriter::new(File::create(format!("{out}/trace.ndjson")).unwrap());
    let mut stats: HashMap<String, u64> = HashMap::new();
    for k in 0..n {
        let si = r.random_range(0..specs.len());
        let spec = &specs[si];
        // hints: values from this scheme's contexts
        let mut hints = Vec::new();
        for &ci in &by_scheme[si] {
            collect_hints(&ctxs[ci - 1], &mut hints);
        }
        let value_mode = family != "c01" && family != "c13" && family != "c07" && family != "c11" && family != "soup" && r.random_range(0..6) == 0;
        let text_mode = family == "text";
        let mut g = FilterGen {
            r: &mut r,
            spec,
            max_depth,
            hints,
            call_pct: geti(a, "callpct", 25),
            list_pct: geti(a, "listpct", 10),
            set_pct: geti(a, "setpct", 15),
            set_max: geti(a, "setmax", 4) as usize,
            nest_pct: geti(a, "nestpct", 33),
            badname_pct: geti(a, "badname", 0),
            re_pct: geti(a, "repct", 50),
        };
        let mut max: u16 = 128;
        let mut star: i64 = -1;
        let mut ts = if family == "soup" {
            // token soup over the language's alphabet: the specification's parser decides the verdict
            let n = g.r.random_range(1..13);
            let mut t = Vec::new();
            for _ in 0..n {
                let x = g.r.random_range(0..24);
                t.push(match x {
                    0 => Tok::Lp,
                    1 => Tok::Rp,
                    2 => Tok::Not { a: 0 },
                    3 => Tok::Lop { v: "and".into(), a: 0 },
                    4 => Tok::Lop { v: "or".into(), a: 0 },
                    5 => Tok::Quant { v: "any".into() },
                    6 => Tok::Quant { v: "all".into() },
                    7 => Tok::Id { name: "b1".into() },
                    8 => Tok::Id { name: "vb".into() },
                    9 => Tok::Id { name: "i".into() },
                    10 => Tok::Id { name: "ai".into() },
                    11 => Tok::Ord { v: "eq".into(), a: 1 },
                    12 => Tok::Int { v: limbs(-7), txt: "-7".into() },
                    13 => Tok::Lb,
                    14 => Tok::Star,
                    15 => Tok::Rb,
                    16 => Tok::Comma,
                    17 => Tok::Id { name: "bb".into() },
                    18 => Tok::Id { name: "s".into() },
                    19 => Tok::Bytes { v: b"ab".to_vec(), form: "q".into(), txt: "\"ab\"".into() },
                    20 => Tok::In,
                    21 => Tok::Lbr,
                    22 => Tok::Rbr,
                    _ => Tok::Id { name: "vvb".into() },
                });
            }
            t
        } else if family == "c11" {
            // one pattern comparison, on a field, an index path or every element
            let lhs: Vec<Tok> = match g.r.random_range(0..5) {
                0 => vec![Tok::Id { name: "t.u".into() }],
                1 => vec![Tok::Id { name: "abytes".into() }, Tok::Lb, int_tok(g.r, 0), Tok::Rb],
                2 => vec![Tok::Id { name: "abytes".into() }, Tok::Lb, Tok::Star, Tok::Rb],
                3 => vec![Tok::Id { name: "mbytes".into() }, Tok::Lb, Tok::Star, Tok::Rb],
                _ => vec![Tok::Id { name: "s".into() }],
            };
            let each = lhs.len() > 1 && matches!(lhs[2], Tok::Star);
            let mut t = lhs;
            let hint = g.hints.iter().filter_map(|v| match v { Val::Bytes { v } => Some(v.clone()), _ => None }).next();
            match g.r.random_range(0..3) {
                0 => {
                    t.push(Tok::Bop { v: "matches".into(), a: g.r.random_range(0..2) });
                    let d = g.r.random_range(0..4);
                    let re = gen_re(g.r, d);
                    let bad = if g.r.random_range(0..15) == 0 {
                        ["unclosed-group", "unclosed-class", "dangling-star", "trailing-backslash", "bad-repeat"][g.r.random_range(0..5)]
                    } else { "none" };
                    t.push(regex_tok(g.r, re, bad));
                }
                k => {
                    t.push(Tok::Bop { v: if k == 1 { "wildcard".into() } else { "strict wildcard".into() }, a: 0 });
                    t.push(wild_tok(g.r, hint));
                    if g.r.random_range(0..2) == 0 {
                        star = g.r.random_range(0..5);
                    }
                }
            }
            if each {
                let mut w = vec![Tok::Quant { v: ["any", "all"][g.r.random_range(0..2)].into() }, Tok::Lp];
                w.extend(t);
                w.push(Tok::Rp);
                w
            } else {
                t
            }
        } else if family == "c13" {
            // nesting shapes: small depths against small limits, and the documented big ones
            let (n, m): (usize, u16) = if g.r.random_range(0..5) != 0 {
                let n = g.r.random_range(0..10);
                let m = if g.r.random_range(0..2) == 0 {
                    (n as i32 + g.r.random_range(-1..2)).max(0) as u16
                } else {
                    g.r.random_range(0..9)
                };
                (n, m)
            } else {
                let m = [16u16, 64, 128, 129, 200][g.r.random_range(0..5)];
                let n = (m as i32 + g.r.random_range(-1..2)) as usize;
                (n, m)
            };
            max = m;
            g.nested(n)
        } else if value_mode {
            g.value_expr()
        } else {
            g.filter()
        };
        let mutated = r.random_range(0..100) < mutate_pct;
        if mutated {
            ts = mutate(&mut r, &ts, spec);
            if r.random_range(0..4) == 0 {
                ts = mutate(&mut r, &ts, spec);
            }
        }
        let ts = alias_variant(&mut r, &ts);
        let src = if text_mode {
            // the text itself is the subject: white space of any kind in any gap (also none at all), then
            // possibly a few character-level corruptions
            let t = wild_layout(&mut r, &ts);
            if r.random_range(0..3) == 0 { corrupt_text(&mut r, &t) } else { t }
        } else if r.random_range(0..2) == 0 {
            render(&ts)
        } else {
            random_layout(&mut r, &ts)
        };
        let mut uses: Vec<String> = spec.fields.iter().map(|f| f.name.clone()).collect();
        uses.truncate(24);
        uses.push("nosuch".into());
        if let Some(f) = spec.funcs.first() {
            uses.push(f.name.clone());
        }
        lang::set_star_limit(star);
        let ev = if family == "c11" && k % 8 == 7 {
            // compiled-size limit: only monotone facts are specified
            let d = r.random_range(0..4);
            let re = gen_re(&mut r, d);
            let tok = regex_tok(&mut r, re, "none");
            let (pat, txt) = match &tok { Tok::Regex { pat, txt, .. } => (pat.clone(), txt.clone()), _ => unreachable!() };
            let mut res = Vec::new();
            for limit in [1usize, 64, 4096, 10 * (1 << 20)] {
                let mut p = wirefilter::FilterParser::new(&w.schemes[si]);
                p.regex_set_compiled_size_limit(limit);
                let ok = std::panic::catch_unwind(std::panic::AssertUnwindSafe(|| p.parse(&format!("s matches {txt}")).is_ok()));
                let nested = std::panic::catch_unwind(std::panic::AssertUnwindSafe(|| p.parse(&format!("not (s matches {txt})")).is_ok()));
                res.push(json!({"limit": [0, (limit >> 16) as u32, (limit & 0xffff) as u32], "out": if ok.is_ok() && nested.is_ok() { "ok" } else { "panic" },
                                "ok": ok.unwrap_or(false), "nested": nested.unwrap_or(false)}));
            }
            // history independence: after the pattern was compiled under the default limit, the smallest limit
            // must still give the verdict it gave first
            let again = {
                let mut p = wirefilter::FilterParser::new(&w.schemes[si]);
                p.regex_set_compiled_size_limit(1);
                std::panic::catch_unwind(std::panic::AssertUnwindSafe(|| p.parse(&format!("s matches {txt}")).is_ok())).unwrap_or(true)
            };
            json!({"ev": "relimit", "id": k, "pat": pat, "tok": tok, "res": res, "again": again})
        } else if family == "c07" {
            // alias / layout variants of one token sequence, and a structurally different partner
            let mut vars = Vec::new();
            let mut first: Option<wirefilter::FilterAst> = None;
            for vi in 0..4 {
                // the last variant also writes every regular expression in the other literal form
                let tv = if vi == 0 { ts.clone() } else if vi == 3 { let av = alias_variant(&mut r, &ts); flip_regex_forms(&mut r, &av) } else { alias_variant(&mut r, &ts) };
                let sv = if vi == 0 { src.clone() } else { random_layout(&mut r, &tv) };
                vars.push(observe_canon(&w, si + 1, max, &sv, &mut first));
            }
            let ts2 = {
                let t2 = mutate(&mut r, &ts, spec);
                alias_variant(&mut r, &t2)
            };
            let src2 = random_layout(&mut r, &ts2);
            let mut other: Option<wirefilter::FilterAst> = None;
            let o2 = observe_canon(&w, si + 1, max, &src2, &mut other);
            let eq12 = match (&first, &other) {
                (Some(x), Some(y)) => x == y,
                _ => false,
            };
            *stats.entry(format!("canon.{}", vars[0]["ok"])).or_default() += 1;
            json!({"ev": "canon", "id": k, "sch": si + 1, "max": max, "ts": ts, "src": src, "vars": vars,
                   "ts2": ts2, "other": o2, "eq12": eq12})
        } else if text_mode {
            let chars: Vec<u32> = src.chars().map(|c| c as u32).collect();
            let cids: Vec<usize> = by_scheme[si].iter().take(3).cloned().collect();
            if value_mode {
                let o = observe_value(&w, si + 1, max, &src, &cids, &[]);
                *stats.entry(format!("textvalue.{}", o.out)).or_default() += 1;
                json!({"ev": "text", "id": k, "sch": si + 1, "max": max, "star": star, "value": true, "chars": chars, "src": src,
                       "ok": o.ok, "out": o.out, "ast": o.ast, "vruns": o.runs, "runs": []})
            } else {
                let o = observe_filter(&w, si + 1, max, &src, &cids, &[]);
                *stats.entry(format!("text.{}", o.out)).or_default() += 1;
                json!({"ev": "text", "id": k, "sch": si + 1, "max": max, "star": star, "value": false, "chars": chars, "src": src,
                       "ok": o.ok, "out": o.out, "ast": o.ast, "runs": o.runs, "vruns": []})
            }
        } else if value_mode {
            // the invocation log of the harness functions is part of the observation (C03)
            mk::RECORD.with(|r| *r.borrow_mut() = true);
            let o = observe_value(&w, si + 1, max, &src, &by_scheme[si], &uses);
            mk::RECORD.with(|r| *r.borrow_mut() = false);
            *stats.entry(format!("value.{}", o.out)).or_default() += 1;
            let ncalls: usize = o.runs.iter().map(|r| r.calls.len()).sum();
            *stats.entry("value.invocations-recorded".to_string()).or_default() += ncalls as u64;
            json!({"ev": "value", "id": k, "sch": si + 1, "max": max, "ts": ts, "src": src, "rec": true,
                   "ok": o.ok, "out": o.out, "ast": o.ast, "runs": o.runs, "uses": o.uses})
        } else {
            let o = observe_filter(&w, si + 1, max, &src, &by_scheme[si], &uses);
            *stats.entry(format!("filter.{}", o.out)).or_default() += 1;
            if o.ok {
                for run in &o.runs {
                    *stats.entry(format!("run.{}.{}", run.out, run.res)).or_default() += 1;
                }
            }
            json!({"ev": "filter", "id": k, "sch": si + 1, "max": max, "star": star, "ts": ts, "src": src,
                   "ok": o.ok, "out": o.out, "ast": o.ast, "runs": o.runs, "uses": o.uses, "err": o.err, "ctxobs": o.ctxobs})
        };
        serde_json::to_writer(&mut tw, &ev).unwrap();
        tw.write_all(b"\n").unwrap();
    }
    tw.flush().unwrap();
    println!("{}", serde_json::to_string(&json!({"events": n, "stats": stats})).unwrap());
}

pub fn collect_hints(c: &CtxSpec, out: &mut Vec<Val>) {
    fn rec(v: &Val, out: &mut Vec<Val>) {
        match v {
            Val::Nil { .. } => {}
            Val::Arr { v: items, .. } => {
                for x in items {
                    rec(x, out)
                }
            }
            Val::Map { v: items, .. } => {
                for kv in items {
                    rec(&kv.v, out)
                }
            }
            other => out.push(other.clone()),
        }
    }
    for v in &c.vals {
        rec(v, out);
    }
    for m in &c.lists {
        for s in &m.sets {
            for v in &s.vals {
                rec(v, out);
            }
        }
    }
}

/// spec -> impl: execute TLC-generated vectors against the engine and compare.
/// Input: ndjson; lines {"hdr":"scheme","sch":..} / {"hdr":"ctx","ctx":..} define tables
/// (in order), other lines are vectors in the event format with expected observations.
fn replay(a: &HashMap<String, String>) -> i32 {
    let path = a.get("in").expect("--in");
    let out = a.get("out").cloned().unwrap_or_else(|| "/dev/null".into());
    quiet_panics();
    let f = BufReader::new(File::open(path).unwrap());
    let mut specs: Vec<SchemeSpec> = Vec::new();
    let mut ctxs: Vec<CtxSpec> = Vec::new();
    let mut vectors: Vec<Value> = Vec::new();
    for line in f.lines() {
        let line = line.unwrap();
        if line.trim().is_empty() {
            continue;
        }
        let v: Value = serde_json::from_str(&line).expect("vector json");
        match v.get("hdr").and_then(|h| h.as_str()) {
            Some("scheme") => specs.push(serde_json::from_value(v["sch"].clone()).expect("scheme")),
            Some("ctx") => ctxs.push(serde_json::from_value(v["ctx"].clone()).expect("ctx")),
            _ => vectors.push(v),
        }
    }
    let w = World::new(specs, ctxs);
    let mut ow = BufWriter::new(File::create(&out).unwrap());
    let mut bad = 0u64;
    let mut n = 0u64;
    let mut accepted = 0u64;
    let mut runs = 0u64;
    for v in &vectors {
        n += 1;
        let ev = v["ev"].as_str().unwrap_or("filter");
        if ev == "scan" {
            // a quoted regex literal against the raw literal of the pattern the scanner model extracts from it
            let body: Vec<u8> = serde_json::from_value(v["body"].clone()).unwrap_or_default();
            let pat: Vec<u8> = serde_json::from_value(v["pat"].clone()).unwrap_or_default();
            let body_s = String::from_utf8_lossy(&body).to_string();
            let pat_s = String::from_utf8_lossy(&pat).to_string();
            let scheme = &w.schemes[v["sch"].as_u64().unwrap_or(1) as usize - 1];
            let quoted = std::panic::catch_unwind(std::panic::AssertUnwindSafe(|| scheme.parse(&format!("s matches \"{body_s}")).ok().map(|a| serde_json::to_value(&a).unwrap())));
            let hashes = "#".repeat(8);
            let raw = std::panic::catch_unwind(std::panic::AssertUnwindSafe(|| scheme.parse(&format!("s matches r{hashes}\"{pat_s}\"{hashes}")).ok().map(|a| serde_json::to_value(&a).unwrap())));
            let mut diffs: Vec<String> = Vec::new();
            match (&quoted, &raw) {
                (Err(_), _) | (_, Err(_)) => diffs.push("the parser panicked".into()),
                (Ok(q), Ok(r)) => {
                    if v["exp"] == "reject" {
                        if q.is_some() {
                            diffs.push(format!("the literal \"{body_s} was accepted: {}", q.as_ref().unwrap()["rhs"]));
                        }
                    } else {
                        if q.is_some() != r.is_some() {
                            diffs.push(format!("quoted literal accepted = {}, raw literal of the scanned pattern {:?} accepted = {}", q.is_some(), pat_s, r.is_some()));
                        } else if let (Some(qa), Some(ra)) = (q, r) {
                            if qa["rhs"] != ra["rhs"] || qa["rhs"] != serde_json::Value::String(pat_s.clone()) {
                                diffs.push(format!("pattern reaching the engine: quoted {} raw {} model {:?}", qa["rhs"], ra["rhs"], pat_s));
                            }
                            accepted += 1;
                        }
                    }
                }
            }
            runs += 2;
            if !diffs.is_empty() {
                bad += 1;
                let rec = json!({"vector": v, "src": format!("s matches \"{body_s}"), "observed": json!(null), "diffs": diffs});
                serde_json::to_writer(&mut ow, &rec).unwrap();
                ow.write_all(b"\n").unwrap();
            }
            continue;
        }
        let mut ts: Vec<Tok> = if v.get("ts").is_some() { serde_json::from_value(v["ts"].clone()).expect("tokens") } else { vec![] };
        fill_txt(&mut ts);
        // a text vector of the character-level model: code points instead of tokens
        let from_chars: Option<String> = v.get("chars").and_then(|c| serde_json::from_value::<Vec<u32>>(c.clone()).ok())
            .map(|cs| cs.into_iter().filter_map(char::from_u32).collect());
        let src = match (from_chars.as_deref().or(v.get("src").and_then(|s| s.as_str())), v.get("sep").and_then(|s| s.as_str())) {
            (Some(s), _) => s.to_string(),
            // a layout chosen by the model: the same white space in every gap that admits one
            (None, Some(sep)) => {
                let w = match sep { "lf" => "\n", "crlf" => "\r\n", "cr" => "\r", "wide" => " \n  ", _ => " " };
                render_with(&ts, |_, c| if c == 0 || (sep == "tight" && c == 1) { String::new() } else { w.to_string() })
            }
            (None, None) => render(&ts),
        };
        let sch = v["sch"].as_u64().unwrap() as usize;
        let max = v["max"].as_u64().unwrap_or(128) as u16;
        let star = v.get("star").and_then(|s| s.as_i64()).unwrap_or(-1);
        lang::set_star_limit(star);
        let exp_runs = v["runs"].as_array().cloned().unwrap_or_default();
        let cids: Vec<usize> = exp_runs.iter().map(|r| r["ctx"].as_u64().unwrap() as usize).collect();
        let exp_uses = v["uses"].as_array().cloned().unwrap_or_default();
        let unames: Vec<String> = exp_uses.iter().map(|u| u["f"].as_str().unwrap().to_string()).collect();
        let mut diffs: Vec<String> = Vec::new();
        let observed: Value;
        if ev == "value" {
            let want_calls = v.get("calls").and_then(|c| c.as_array()).map(|a| !a.is_empty()).unwrap_or(false);
            mk::RECORD.with(|r| *r.borrow_mut() = want_calls);
            let o = observe_value(&w, sch, max, &src, &cids, &unames);
            mk::RECORD.with(|r| *r.borrow_mut() = false);
            if want_calls && o.ok {
                // the invocations of the called function: one argument tuple each, in order (property C03)
                let sem = v["callfn"].as_str().unwrap_or("");
                let sem = if ["idb", "idi", "ida", "fld_only", "bb", "idip"].contains(&sem) { "id" } else { sem };
                for (i, run) in o.runs.iter().enumerate() {
                    let got: Vec<&Vec<Val>> = run.calls.iter().filter(|(s, _)| s == sem).map(|(_, a)| a).collect();
                    let exp: Vec<Vec<Val>> = serde_json::from_value(v["calls"][i].clone()).unwrap_or_default();
                    let same = got.len() == exp.len() && got.iter().zip(exp.iter()).all(|(g, e)| {
                        g.len() == e.len() && g.iter().zip(e.iter()).all(|(x, y)| match (x, y) {
                            // an absence: the model's untyped Nil stands for "absent, whatever the tag"
                            (Val::Nil { ty: tx }, Val::Nil { ty: ty_ }) => tx.is_none() || ty_.is_none() || tx == ty_,
                            _ => x == y,
                        })
                    });
                    if !same {
                        diffs.push(format!("invocations of {} on ctx {}: expected {} observed {}", sem, run.ctx,
                                           serde_json::to_string(&exp).unwrap(), serde_json::to_string(&got).unwrap()));
                    }
                }
            }
            observed = serde_json::to_value(&o).unwrap();
        } else {
            let o = observe_filter(&w, sch, max, &src, &cids, &unames);
            observed = serde_json::to_value(&o).unwrap();
        }
        let ok = observed["ok"].as_bool().unwrap();
        if ok {
            accepted += 1;
        }
        if observed["out"] == "panic" {
            diffs.push("parse panicked".into());
        }
        if observed["out"] == "settings-routes-disagree" {
            diffs.push("a parser configured through ParserSettings and one configured through the setters disagree".into());
        }
        if v["ok"].as_bool() != Some(ok) {
            diffs.push(format!("parse verdict: expected ok={} observed ok={}", v["ok"], ok));
        } else if ok {
            if v.get("ast").is_some() && v["ast"] != observed["ast"] {
                diffs.push("ast json differs".into());
            }
            let oruns = observed["runs"].as_array().unwrap();
            for (i, er) in exp_runs.iter().enumerate() {
                runs += 1;
                if oruns[i]["out"] != er["out"] || oruns[i]["res"] != er["res"] {
                    diffs.push(format!(
                        "run on ctx {}: expected {}/{} observed {}/{}",
                        er["ctx"], er["out"], er["res"], oruns[i]["out"], oruns[i]["res"]
                    ));
                }
            }
            let ouses = observed["uses"].as_array().unwrap();
            for (i, eu) in exp_uses.iter().enumerate() {
                if &ouses[i] != eu {
                    diffs.push(format!("uses({}): expected {} observed {}", eu["f"], eu, ouses[i]));
                }
            }
        }
        if !diffs.is_empty() {
            bad += 1;
            let rec = json!({"vector": v, "src": src, "observed": observed, "diffs": diffs});
            serde_json::to_writer(&mut ow, &rec).unwrap();
            ow.write_all(b"\n").unwrap();
        }
    }
    ow.flush().unwrap();
    println!(
        "{}",
        serde_json::to_string(&json!({"vectors": n, "mismatches": bad, "accepted": accepted, "runs": runs})).unwrap()
    );
    if bad > 0 {
        1
    } else {
        0
    }
}

/// Re-observe recorded events: same inputs, fresh observation (used by --replay).
fn reobserve(a: &HashMap<String, String>) -> i32 {
    let dir = a.get("dir").expect("--dir");
    let inp = a.get("in").expect("--in");
    let out = a.get("out").expect("--out");
    quiet_panics();
    let read = |p: String| -> Vec<Value> {
        match File::open(&p) {
            Ok(f) => BufReader::new(f)
                .lines()
                .map(|l| l.unwrap())
                .filter(|l| !l.trim().is_empty())
                .map(|l| serde_json::from_str(&l).unwrap())
                .collect(),
            Err(_) => vec![],
        }
    };
    let specs: Vec<SchemeSpec> = read(format!("{dir}/schemes.ndjson"))
        .into_iter()
        .map(|v| serde_json::from_value(v).unwrap())
        .collect();
    let ctxs: Vec<CtxSpec> = read(format!("{dir}/ctxs.ndjson"))
        .into_iter()
        .map(|v| serde_json::from_value(v).unwrap())
        .collect();
    let w = World::new(specs, ctxs);
    let mut tw = BufWriter::new(File::create(out).unwrap());
    let mut hw: Option<hist::HWorld> = None;
    let mut rb: Option<wirefilter::SchemeBuilder> = None;
    for mut e in read(inp.clone()) {
        let kind = e["ev"].as_str().unwrap_or("").to_string();
        match kind.as_str() {
            "filter" | "value" => {
                let src = e["src"].as_str().unwrap().to_string();
                let sch = e["sch"].as_u64().unwrap() as usize;
                let max = e["max"].as_u64().unwrap_or(128) as u16;
                lang::set_star_limit(e.get("star").and_then(|s| s.as_i64()).unwrap_or(-1));
                let cids: Vec<usize> = e["runs"]
                    .as_array()
                    .map(|r| r.iter().map(|x| x["ctx"].as_u64().unwrap() as usize).collect())
                    .unwrap_or_default();
                let cids = if cids.is_empty() {
                    w.ctxs.iter().enumerate().filter(|(_, c)| c.sch == sch).map(|(i, _)| i + 1).collect()
                } else {
                    cids
                };
                let unames: Vec<String> = e["uses"]
                    .as_array()
                    .map(|u| u.iter().map(|x| x["f"].as_str().unwrap().to_string()).collect())
                    .unwrap_or_default();
                let o = if kind == "value" {
                    serde_json::to_value(observe_value(&w, sch, max, &src, &cids, &unames)).unwrap()
                } else {
                    serde_json::to_value(observe_filter(&w, sch, max, &src, &cids, &unames)).unwrap()
                };
                for k in ["ok", "out", "ast", "runs", "uses", "ctxobs"] {
                    if !o[k].is_null() {
                        e[k] = o[k].clone();
                    }
                }
            }
            "text" => {
                let src = e["src"].as_str().unwrap().to_string();
                let sch = e["sch"].as_u64().unwrap() as usize;
                let max = e["max"].as_u64().unwrap_or(128) as u16;
                lang::set_star_limit(e.get("star").and_then(|s| s.as_i64()).unwrap_or(-1));
                let value = e["value"] == true;
                let key = if value { "vruns" } else { "runs" };
                let cids: Vec<usize> = e[key].as_array().map(|r| r.iter().map(|x| x["ctx"].as_u64().unwrap() as usize).collect()).unwrap_or_default();
                let cids: Vec<usize> = if cids.is_empty() {
                    w.ctxs.iter().enumerate().filter(|(_, c)| c.sch == sch).map(|(i, _)| i + 1).take(3).collect()
                } else {
                    cids
                };
                let o = if value {
                    serde_json::to_value(observe_value(&w, sch, max, &src, &cids, &[])).unwrap()
                } else {
                    serde_json::to_value(observe_filter(&w, sch, max, &src, &cids, &[])).unwrap()
                };
                e["ok"] = o["ok"].clone();
                e["out"] = o["out"].clone();
                e["ast"] = o["ast"].clone();
                e[key] = o["runs"].clone();
            }
            "script" if e["race"] == true => {
                // a schedule-dependent observation: run the race again (up to 200 fresh processes) and report the
                // first observation that is not the nominal one, else the last nominal one
                let exe = std::env::current_exe().unwrap();
                'outer: for k in 0..200 {
                    let mut args = vec!["gen-panic", "--race-child"];
                    if k % 3 != 2 {
                        args.push("--blocker");
                    }
                    let o = std::process::Command::new(&exe).args(&args).output().unwrap();
                    for line in String::from_utf8_lossy(&o.stdout).lines() {
                        if let Ok(x) = serde_json::from_str::<Value>(line) {
                            let t = x["t"].as_u64().unwrap_or(0);
                            let nominal = x["script"].as_array().map(|s| s.len() == 1).unwrap_or(false)
                                || (x["obs"][0]["m"] == json!(100 * t + 4) && x["obs"][1]["m"] == json!(100 * t + 8) && x["status"] == "run");
                            for key in ["t", "script", "obs", "levels", "sent", "status"] {
                                e[key] = x[key].clone();
                            }
                            if !nominal {
                                break 'outer;
                            }
                        }
                    }
                }
            }
            "script" => {
                let ops: Vec<String> = serde_json::from_value(e["script"].clone()).unwrap();
                let t = e["t"].as_u64().unwrap() as usize;
                let mut evs = Vec::new();
                panics::rerun_script(t, ops, &mut evs);
                for k in ["obs", "levels", "sent", "status"] {
                    e[k] = evs[0][k].clone();
                }
            }
            "reset" if e.get("init").is_some() => {
                hw = Some(hist::HWorld::new(w.specs.clone()));
                for sid in e["init"].as_array().unwrap() {
                    hw.as_mut().unwrap().new_ctx(sid.as_u64().unwrap() as usize);
                }
            }
            "op" => {
                if let Some(h) = hw.as_mut() {
                    let op = e["op"].clone();
                    let res = std::panic::catch_unwind(std::panic::AssertUnwindSafe(|| h.apply(&op)))
                        .unwrap_or_else(|_| json!({"out": "panic", "v": Val::nil()}));
                    let c = e["c"].as_u64().unwrap() as usize;
                    e["res"] = res;
                    if c <= h.ctxs.len() {
                        e["after"] = h.abs(c);
                    }
                }
            }
            "reset" => {
                rb = Some(wirefilter::SchemeBuilder::new());
            }
            "add" => {
                if let Some(b) = rb.as_mut() {
                    let op = e["op"].clone();
                    e["res"] = json!(reg::apply_reg(b, &op));
                }
            }
            "built" => {
                if let Some(b) = rb.take() {
                    let s = b.build();
                    let names: Vec<String> = e["probes"].as_array().unwrap().iter().map(|p| p["name"].as_str().unwrap().to_string()).collect();
                    let probes: Vec<Value> = names.iter().map(|p| {
                        std::panic::catch_unwind(std::panic::AssertUnwindSafe(|| reg::probe(&s, p)))
                            .unwrap_or_else(|_| json!({"name": p, "panic": true}))
                    }).collect();
                    e["probes"] = json!(probes);
                    e["summary"] = reg::summary(&s);
                    let cl = s.clone();
                    e["eq_clone"] = json!(s == cl);
                }
            }
            "type" => {
                let lay: Vec<u8> = serde_json::from_value(e["lay"].clone()).unwrap();
                let p: Vec<String> = serde_json::from_value(e["path"].clone()).unwrap();
                e["obs"] = types::observe_type(e["prim"].as_str().unwrap(), &lay, &p);
            }
            "scheme" => {
                let o = types::reobserve_scheme(&e);
                e["de"] = o["de"].clone();
                e["built"] = o["built"].clone();
            }
            "total" | "total-big" => {
                let text = if kind == "total" {
                    let b: Vec<u8> = serde_json::from_value(e["input"].clone()).unwrap();
                    String::from_utf8_lossy(&b).to_string()
                } else {
                    let class = e["class"].as_str().unwrap().to_string();
                    total::stress_inputs(100000).into_iter().find(|(c, _)| *c == class).map(|(_, t)| t).unwrap_or_default()
                };
                let mut wk = total::Worker::spawn();
                let obs = match wk.ask(&text, e["value"] == true, e["thread2m"] == true) {
                    Some(o) => o,
                    None => json!({"out": format!("crash-{}", wk.exit_status())}),
                };
                if kind == "total-big" {
                    let line = obs.get("line").and_then(|l| l.as_i64()).unwrap_or(-1);
                    let nl = text.matches('\n').count();
                    e["actual_line"] = json!(if line >= 0 { text.split('\n').nth(line as usize).map(|s| s.as_bytes().to_vec()).unwrap_or_default() } else { vec![] });
                    e["line_exists"] = json!(line >= 0 && (line as usize) <= nl);
                }
                e["obs"] = obs;
            }
            "contains" => {
                let hay: Vec<u8> = serde_json::from_value(e["hay"].clone()).unwrap();
                let needle: Vec<u8> = serde_json::from_value(e["needle"].clone()).unwrap();
                let mut r = rng_from(11);
                e["obs"] = contains::observe(&mut r, &hay, &needle);
            }
            "lit" => {
                let chars: Vec<u32> = serde_json::from_value(e["chars"].clone()).unwrap();
                let text = lit::text_of_chars(&chars).unwrap_or_default();
                e["obs"] = lit::observe_lit(e["kind"].as_str().unwrap(), &text);
            }
            "ser" | "rt" | "de" | "trunc" => {
                serde_ctx::reobserve(&w.specs, &w.schemes, &mut e);
            }
            _ => {}
        }
        serde_json::to_writer(&mut tw, &e).unwrap();
        tw.write_all(b"\n").unwrap();
    }
    tw.flush().unwrap();
    println!("{{}}");
    0
}

/// impl -> spec for execution-context histories (C08, C17)
fn gen_hist(a: &HashMap<String, String>) {
    use hist::*;
    let seed: u64 = a.get("seed").and_then(|s| s.parse().ok()).unwrap_or(1);
    let n: usize = a.get("n").and_then(|s| s.parse().ok()).unwrap_or(50);
    let len: usize = a.get("len").and_then(|s| s.parse().ok()).unwrap_or(40);
    let out = a.get("out").cloned().unwrap_or_else(|| ".".into());
    let listy = geti(a, "listpct", 15);
    let mut r = rng_from(seed);
    quiet_panics();
    let lists = [("set", Ty::Int), ("set", Ty::Bytes), ("always", Ty::Ip)];
    let specs = vec![
        rich_scheme(true, true, true, &lists),
        rich_scheme(true, true, true, &lists), // structurally identical, distinct scheme
    ];
    write_ndjson(&format!("{out}/schemes.ndjson"), &specs);
    write_ndjson::<Value>(&format!("{out}/ctxs.ndjson"), &[]);
    let mut tw = BufWriter::new(File::create(format!("{out}/trace.ndjson")).unwrap());
    let mut nev = 0u64;
    let mut stats: HashMap<String, u64> = HashMap::new();
    let mut emit = |tw: &mut BufWriter<File>, v: Value| {
        serde_json::to_writer(&mut *tw, &v).unwrap();
        tw.write_all(b"\n").unwrap();
    };
    for h in 0..n {
        let mut w = HWorld::new(specs.clone());
        let init = vec![1usize, 2usize];
        for &sid in &init {
            w.new_ctx(sid);
        }
        emit(&mut tw, json!({"ev": "reset", "id": nev, "h": h, "init": init}));
        nev += 1;
        for _ in 0..len {
            let alive: Vec<usize> = (1..=w.ctxs.len()).filter(|&c| w.ctxs[c - 1].is_some()).collect();
            let c = alive[r.random_range(0..alive.len())];
            let sid = w.sch_of[c - 1];
            let spec = &specs[sid - 1];
            let f = &spec.fields[r.random_range(0..spec.fields.len())];
            let mk_set = |r: &mut rand::rngs::StdRng| -> Value {
                let f = &spec.fields[r.random_range(0..spec.fields.len())];
                let v = if r.random_range(0..10) < 7 { gen_val(r, &f.ty, 0) } else { wrong_typed(r, &f.ty) };
                let name_unknown = r.random_range(0..12) == 0;
                // a FieldRef can only exist for a declared field
                let how = if !name_unknown && r.random_range(0..3) == 0 { "field" } else { "name" };
                let fsch = if r.random_range(0..6) == 0 { 3 - sid } else { sid };
                let name = if name_unknown { "nosuch".to_string() } else { f.name.clone() };
                json!({"op": "set", "c": c, "how": how, "fsch": fsch, "name": name, "v": v})
            };
            let x = r.random_range(0..100);
            let op: Value = if x < 45 {
                mk_set(&mut r)
            } else if x < 55 {
                json!({"op": "get", "c": c, "name": f.name})
            } else if x < 58 {
                json!({"op": "clear", "c": c})
            } else if x < 63 && w.ctxs.len() < 7 {
                json!({"op": "clone", "c": c})
            } else if x < 65 && w.ctxs.len() < 7 {
                json!({"op": "take", "c": c})
            } else if x < 70 {
                let k = r.random_range(1..4);
                let mut ops = Vec::new();
                for _ in 0..k {
                    ops.push(match r.random_range(0..5) {
                        0 => json!({"op": "get", "c": c, "name": f.name}),
                        1 => json!({"op": "clear", "c": c}),
                        _ => mk_set(&mut r),
                    });
                }
                json!({"op": "borrow", "c": c, "ops": ops})
            } else if x < 70 + listy {
                let li = r.random_range(0..2) + 1;
                let m = gen_matcher(&mut r, &spec.lists[li - 1], "set");
                json!({"op": "setlist", "c": c, "li": li, "m": m})
            } else if x < 95 {
                // execute a filter parsed with this or the twin scheme
                let mut hints = Vec::new();
                let snapshot: CtxSpec = serde_json::from_value(w.abs(c)).unwrap_or(CtxSpec { sch: sid, vals: vec![], lists: vec![] });
                collect_hints(&snapshot, &mut hints);
                let mut g = FilterGen {
                    r: &mut r,
                    spec,
                    max_depth: 2,
                    hints,
                    call_pct: 15,
                    list_pct: 35,
                    set_pct: 10,
                    set_max: 3,
                    nest_pct: 20,
                    badname_pct: 0,
                    re_pct: 30,
                };
                let value = g.r.random_range(0..4) == 0;
                let ts = if value { g.value_expr() } else { g.filter() };
                let fsch = if r.random_range(0..8) == 0 { 3 - sid } else { sid };
                json!({"op": if value { "execv" } else { "exec" }, "c": c, "fsch": fsch, "ts": ts})
            } else if x < 96 {
                json!({"op": "roundtrip", "c": c})
            } else if x < 97 {
                json!({"op": "mistyped", "c": c, "k": r.random_range(0..6)})
            } else {
                let v = gen_val(&mut r, &f.ty, 0);
                let v = if r.random_range(0..2) == 0 { spoil(&mut r, &v) } else { v };
                json!({"op": "mkval", "c": c, "v": v})
            };
            let res = std::panic::catch_unwind(std::panic::AssertUnwindSafe(|| w.apply(&op)))
                .unwrap_or_else(|_| json!({"out": "panic", "v": Val::nil()}));
            *stats.entry(format!("{}.{}", op["op"].as_str().unwrap(), res["out"].as_str().unwrap())).or_default() += 1;
            let touched = match op["op"].as_str().unwrap() {
                "clone" | "take" | "new" | "roundtrip" => w.ctxs.len(),
                _ => c,
            };
            emit(&mut tw, json!({"ev": "op", "id": nev, "h": h, "op": op, "res": res, "c": touched, "after": w.abs(touched)}));
            nev += 1;
        }
    }
    tw.flush().unwrap();
    println!("{}", serde_json::to_string(&json!({"events": nev, "histories": n, "stats": stats})).unwrap());
}

/// spec -> impl for histories
fn replay_hist_cmd(a: &HashMap<String, String>) -> i32 {
    let path = a.get("in").expect("--in");
    let out = a.get("out").cloned().unwrap_or_else(|| "/dev/null".into());
    let f = BufReader::new(File::open(path).unwrap());
    let mut ow = BufWriter::new(File::create(&out).unwrap());
    let (mut n, mut bad, mut steps) = (0u64, 0u64, 0u64);
    let mut schs: Option<Value> = None;
    for line in f.lines() {
        let line = line.unwrap();
        if line.trim().is_empty() {
            continue;
        }
        let mut v: Value = serde_json::from_str(&line).expect("vector json");
        if v.get("hdr").is_some() {
            schs = Some(v["schs"].clone());
            continue;
        }
        if v.get("schs").is_none() {
            v["schs"] = schs.clone().expect("schemes header");
        }
        n += 1;
        steps += v["ops"].as_array().map(|o| o.len() as u64).unwrap_or(0);
        let (obs, diffs) = std::panic::catch_unwind(std::panic::AssertUnwindSafe(|| hist::replay_hist(&v)))
            .unwrap_or_else(|_| (json!("panic"), vec!["the code under test panicked".to_string()]));
        if !diffs.is_empty() {
            bad += 1;
            let src = serde_json::to_string(&v["ops"]).unwrap();
            serde_json::to_writer(&mut ow, &json!({"vector": v, "src": src, "observed": obs, "diffs": diffs})).unwrap();
            ow.write_all(b"\n").unwrap();
        }
    }
    ow.flush().unwrap();
    println!("{}", serde_json::to_string(&json!({"vectors": n, "mismatches": bad, "runs": steps})).unwrap());
    if bad > 0 { 1 } else { 0 }
}

fn replay_reg_cmd(a: &HashMap<String, String>) -> i32 {
    let path = a.get("in").expect("--in");
    let out = a.get("out").cloned().unwrap_or_else(|| "/dev/null".into());
    quiet_panics();
    let f = BufReader::new(File::open(path).unwrap());
    let mut ow = BufWriter::new(File::create(&out).unwrap());
    let (mut n, mut bad, mut steps) = (0u64, 0u64, 0u64);
    for line in f.lines() {
        let line = line.unwrap();
        if line.trim().is_empty() {
            continue;
        }
        let v: Value = serde_json::from_str(&line).expect("vector json");
        if v.get("hdr").is_some() {
            continue;
        }
        n += 1;
        steps += v["ops"].as_array().map(|o| o.len() as u64).unwrap_or(0);
        let (obs, diffs) = std::panic::catch_unwind(std::panic::AssertUnwindSafe(|| reg::replay_reg(&v)))
            .unwrap_or_else(|_| (json!("panic"), vec!["the code under test panicked".to_string()]));
        if !diffs.is_empty() {
            bad += 1;
            let src = serde_json::to_string(&v["ops"]).unwrap();
            serde_json::to_writer(&mut ow, &json!({"vector": v, "src": src, "observed": obs, "diffs": diffs})).unwrap();
            ow.write_all(b"\n").unwrap();
        }
    }
    ow.flush().unwrap();
    println!("{}", serde_json::to_string(&json!({"vectors": n, "mismatches": bad, "runs": steps})).unwrap());
    if bad > 0 { 1 } else { 0 }
}

/// impl -> spec: random registration histories over a pool of colliding names
fn gen_reg(a: &HashMap<String, String>) {
    let seed: u64 = a.get("seed").and_then(|s| s.parse().ok()).unwrap_or(1);
    let n: usize = a.get("n").and_then(|s| s.parse().ok()).unwrap_or(50);
    let len: usize = a.get("len").and_then(|s| s.parse().ok()).unwrap_or(60);
    let out = a.get("out").cloned().unwrap_or_else(|| ".".into());
    let mut r = rng_from(seed);
    quiet_panics();
    let mut pool: Vec<String> = Vec::new();
    for base in ["x", "X", "xy", "x_y", "http", "a1", "_", "0"] {
        pool.push(base.to_string());
        for suf in [".y", ".y.z", ".Y", "y"] {
            pool.push(format!("{base}{suf}"));
        }
    }
    let types = [Ty::Int, Ty::Bytes, Ty::Ip, Ty::Bool, Ty::arr(Ty::Int), Ty::map(Ty::arr(Ty::Bytes))];
    write_ndjson::<Value>(&format!("{out}/schemes.ndjson"), &[]);
    write_ndjson::<Value>(&format!("{out}/ctxs.ndjson"), &[]);
    let mut tw = BufWriter::new(File::create(format!("{out}/trace.ndjson")).unwrap());
    let mut nev = 0u64;
    for h in 0..n {
        let mut b = wirefilter::SchemeBuilder::new();
        serde_json::to_writer(&mut tw, &json!({"ev": "reset", "id": nev, "h": h})).unwrap();
        tw.write_all(b"\n").unwrap();
        nev += 1;
        for _ in 0..len {
            let name = pool[r.random_range(0..pool.len())].clone();
            let op = match r.random_range(0..10) {
                0..=5 => json!({"op": "field", "name": name, "ty": types[r.random_range(0..types.len())], "opt": r.random_range(0..2) == 0}),
                6..=8 => json!({"op": "func", "name": name}),
                _ => json!({"op": "list", "ty": types[r.random_range(0..types.len())]}),
            };
            let res = reg::apply_reg(&mut b, &op);
            serde_json::to_writer(&mut tw, &json!({"ev": "add", "id": nev, "h": h, "op": op, "res": res})).unwrap();
            tw.write_all(b"\n").unwrap();
            nev += 1;
        }
        let s = b.build();
        let guarded = |p: &str| -> Value {
            std::panic::catch_unwind(std::panic::AssertUnwindSafe(|| reg::probe(&s, p)))
                .unwrap_or_else(|_| json!({"name": p, "panic": true}))
        };
        let mut probes: Vec<Value> = pool.iter().map(|p| guarded(p)).collect();
        for extra in ["x.y.z.w", "nosuch", "XY"] {
            probes.push(guarded(extra));
        }
        let cl = s.clone();
        serde_json::to_writer(&mut tw, &json!({"ev": "built", "id": nev, "h": h, "probes": probes,
            "summary": reg::summary(&s), "eq_clone": s == cl})).unwrap();
        tw.write_all(b"\n").unwrap();
        nev += 1;
    }
    // one large registry: more fields and more functions than fit into 16 bits, registered in bulk (one event each),
    // a few ordinary registrations before, between and after (also of names the bulk took), probes at both ends and
    // around 2^8 and 2^16
    let big: usize = a.get("big").and_then(|s| s.parse().ok()).unwrap_or(66000);
    if big > 0 {
        let mut b = wirefilter::SchemeBuilder::new();
        let mut ev = |tw: &mut BufWriter<File>, v: Value| {
            serde_json::to_writer(&mut *tw, &v).unwrap();
            tw.write_all(b"\n").unwrap();
        };
        ev(&mut tw, json!({"ev": "reset", "id": nev, "h": n}));
        nev += 1;
        let single = |b: &mut wirefilter::SchemeBuilder, op: Value, nev: &mut u64| -> Value {
            let res = reg::apply_reg(b, &op);
            *nev += 1;
            json!({"ev": "add", "id": *nev - 1, "h": n, "op": op, "res": res})
        };
        let e = single(&mut b, json!({"op": "field", "name": "first", "ty": Ty::Int, "opt": false}), &mut nev);
        ev(&mut tw, e);
        for (kind, prefix, ty, opt) in [("field", "f", Ty::Bytes, true), ("func", "fn", Ty::Int, false)] {
            let mut nok = 0usize;
            for i in 0..big {
                let op = if kind == "field" {
                    json!({"op": "field", "name": format!("{prefix}{i}"), "ty": ty, "opt": opt})
                } else {
                    json!({"op": "func", "name": format!("{prefix}{i}")})
                };
                if reg::apply_reg(&mut b, &op) == "ok" {
                    nok += 1;
                }
            }
            ev(&mut tw, json!({"ev": "bulk", "id": nev, "h": n, "nok": nok,
                               "op": {"kind": kind, "prefix": prefix, "n": big, "ty": ty, "opt": opt}}));
            nev += 1;
            let taken = format!("{prefix}{}", big - 1);
            let e = single(&mut b, json!({"op": "field", "name": taken, "ty": Ty::Ip, "opt": false}), &mut nev);
            ev(&mut tw, e);
            let e = single(&mut b, json!({"op": "field", "name": format!("after.{kind}"), "ty": Ty::Ip, "opt": false}), &mut nev);
            ev(&mut tw, e);
        }
        let s = b.build();
        let mut names: Vec<String> = vec!["first".into(), "after.field".into(), "after.func".into(), "f".into(), "fn".into(), "nosuch".into()];
        for i in [0usize, 1, 255, 256, 257, 65534, 65535, 65536, 65537, big - 1, big] {
            if i <= big {
                names.push(format!("f{i}"));
                names.push(format!("fn{i}"));
            }
        }
        let probes: Vec<Value> = names.iter().map(|p| {
            std::panic::catch_unwind(std::panic::AssertUnwindSafe(|| reg::probe(&s, p))).unwrap_or_else(|_| json!({"name": p, "panic": true}))
        }).collect();
        let cl = s.clone();
        ev(&mut tw, json!({"ev": "built", "id": nev, "h": n, "probes": probes, "summary": reg::summary(&s), "eq_clone": s == cl}));
        nev += 1;
    }
    tw.flush().unwrap();
    println!("{}", serde_json::to_string(&json!({"events": nev, "histories": n, "big": big})).unwrap());
}

fn replay_panic_cmd(a: &HashMap<String, String>) -> i32 {
    let path = a.get("in").expect("--in");
    let out = a.get("out").cloned().unwrap_or_else(|| "/dev/null".into());
    let f = BufReader::new(File::open(path).unwrap());
    let mut ow = BufWriter::new(File::create(&out).unwrap());
    let (mut n, mut bad, mut steps) = (0u64, 0u64, 0u64);
    for line in f.lines() {
        let line = line.unwrap();
        if line.trim().is_empty() {
            continue;
        }
        let v: Value = serde_json::from_str(&line).expect("vector json");
        if v.get("hdr").is_some() {
            continue;
        }
        n += 1;
        steps += v["sched"].as_array().map(|s| s.len() as u64).unwrap_or(0);
        let (obs, diffs) = panics::replay_panic(&v);
        if !diffs.is_empty() {
            bad += 1;
            let src = format!("scripts={} sched={}", v["scripts"], v["sched"]);
            serde_json::to_writer(&mut ow, &json!({"vector": v, "src": src, "observed": obs, "diffs": diffs})).unwrap();
            ow.write_all(b"\n").unwrap();
        }
    }
    ow.flush().unwrap();
    println!("{}", serde_json::to_string(&json!({"vectors": n, "mismatches": bad, "runs": steps})).unwrap());
    if bad > 0 { 1 } else { 0 }
}

fn replay_lit_cmd(a: &HashMap<String, String>) -> i32 {
    let path = a.get("in").expect("--in");
    let out = a.get("out").cloned().unwrap_or_else(|| "/dev/null".into());
    quiet_panics();
    let f = BufReader::new(File::open(path).unwrap());
    let mut ow = BufWriter::new(File::create(&out).unwrap());
    let (mut n, mut bad, mut acc) = (0u64, 0u64, 0u64);
    for line in f.lines() {
        let line = line.unwrap();
        if line.trim().is_empty() {
            continue;
        }
        let v: Value = serde_json::from_str(&line).expect("vector json");
        n += 1;
        let chars: Vec<u32> = serde_json::from_value(v["chars"].clone()).unwrap();
        let text = lit::text_of_chars(&chars).unwrap_or_default();
        let o = lit::observe_lit(v["kind"].as_str().unwrap(), &text);
        if o["out"] == "ok" {
            acc += 1;
        }
        let diffs = lit::judge(&v, &o);
        if !diffs.is_empty() {
            bad += 1;
            serde_json::to_writer(&mut ow, &json!({"vector": v, "src": format!("{}:{}", v["kind"], text), "observed": o, "diffs": diffs})).unwrap();
            ow.write_all(b"\n").unwrap();
        }
    }
    ow.flush().unwrap();
    println!("{}", serde_json::to_string(&json!({"vectors": n, "mismatches": bad, "accepted": acc, "runs": n})).unwrap());
    if bad > 0 { 1 } else { 0 }
}

fn replay_contains_cmd(a: &HashMap<String, String>) -> i32 {
    let path = a.get("in").expect("--in");
    let out = a.get("out").cloned().unwrap_or_else(|| "/dev/null".into());
    quiet_panics();
    let mut r = rng_from(7);
    let f = BufReader::new(File::open(path).unwrap());
    let mut ow = BufWriter::new(File::create(&out).unwrap());
    let (mut n, mut bad, mut runs, mut simd) = (0u64, 0u64, 0u64, 0u64);
    for line in f.lines() {
        let line = line.unwrap();
        if line.trim().is_empty() {
            continue;
        }
        let v: Value = serde_json::from_str(&line).expect("vector json");
        n += 1;
        let hay: Vec<u8> = serde_json::from_value(v["hay"].clone()).unwrap();
        let needle: Vec<u8> = serde_json::from_value(v["needle"].clone()).unwrap();
        let prior: Vec<Vec<u8>> = v["prior"].as_array().map(|a| a.iter().map(|p| serde_json::from_value(p["needle"].clone()).unwrap()).collect()).unwrap_or_default();
        let o = contains::observe_after(&mut r, &hay, &needle, &prior);
        if o["simd"] == true {
            simd += 1;
        }
        let mut diffs = Vec::new();
        for run in o["runs"].as_array().unwrap() {
            runs += 1;
            let a = run["anchor"].as_u64().unwrap_or(0) as usize;
            if run["out"] != "ok" {
                diffs.push(format!("anchor {}: panic", run["anchor"]));
            } else if a >= 1000 {
                if run["res"] != v["prior"][a - 1000]["exp"] {
                    diffs.push(format!("filter compiled earlier (pattern {}): expected {} observed {} (simd={})", v["prior"][a - 1000]["needle"], v["prior"][a - 1000]["exp"], run["res"], o["simd"]));
                }
            } else if run["res"] != v["exp"] {
                diffs.push(format!("anchor {}: expected {} observed {} (simd={})", run["anchor"], v["exp"], run["res"], o["simd"]));
            }
        }
        if !diffs.is_empty() {
            bad += 1;
            serde_json::to_writer(&mut ow, &json!({"vector": v, "src": format!("needle-len={} hay-len={}", needle.len(), hay.len()), "observed": o, "diffs": diffs})).unwrap();
            ow.write_all(b"\n").unwrap();
        }
    }
    ow.flush().unwrap();
    println!("{}", serde_json::to_string(&json!({"vectors": n, "mismatches": bad, "runs": runs, "simd_cases": simd})).unwrap());
    if bad > 0 { 1 } else { 0 }
}

fn replay_ffiseq_cmd(a: &HashMap<String, String>) -> i32 {
    let path = a.get("in").expect("--in");
    let out = a.get("out").cloned().unwrap_or_else(|| "/dev/null".into());
    quiet_panics();
    let f = BufReader::new(File::open(path).unwrap());
    let mut ow = BufWriter::new(File::create(&out).unwrap());
    let (mut n, mut bad, mut steps) = (0u64, 0u64, 0u64);
    for line in f.lines() {
        let line = line.unwrap();
        if line.trim().is_empty() {
            continue;
        }
        let v: Value = serde_json::from_str(&line).expect("vector json");
        n += 1;
        steps += v["hist"].as_array().map(|h| h.len() as u64).unwrap_or(0);
        let (obs, diffs) = std::panic::catch_unwind(std::panic::AssertUnwindSafe(|| ffi::replay_ffiseq(&v)))
            .unwrap_or_else(|_| (json!(null), vec!["the harness panicked while replaying the history (an engine result it cannot work with)".to_string()]));
        if !diffs.is_empty() {
            bad += 1;
            serde_json::to_writer(&mut ow, &json!({"vector": v, "src": "ffi call history", "observed": obs, "diffs": diffs})).unwrap();
            ow.write_all(b"\n").unwrap();
        }
    }
    ow.flush().unwrap();
    println!("{}", serde_json::to_string(&json!({"vectors": n, "mismatches": bad, "runs": steps})).unwrap());
    if bad > 0 { 1 } else { 0 }
}

/// WfFfiCatch histories: executed by child processes (`--child-from K` prints one line per vector, starting at
/// vector K); a child that dies is the observation for the vector it was working on.
fn replay_fficatch_cmd(a: &HashMap<String, String>) -> i32 {
    let path = a.get("in").expect("--in");
    let out = a.get("out").cloned().unwrap_or_else(|| "/dev/null".into());
    quiet_panics();
    let lines: Vec<String> = BufReader::new(File::open(path).unwrap()).lines().map(|l| l.unwrap()).filter(|l| !l.trim().is_empty()).collect();
    if let Some(from) = a.get("child-from").and_then(|s| s.parse::<usize>().ok()) {
        wirefilter_ffi::panic::wirefilter_set_panic_catcher_hook();
        let mut so = std::io::stdout().lock();
        for (k, line) in lines.iter().enumerate().skip(from) {
            let v: Value = serde_json::from_str(line).expect("vector json");
            writeln!(so, "{}", serde_json::to_string(&json!({"k": k, "start": true})).unwrap()).unwrap();
            so.flush().unwrap();
            let (obs, diffs) = std::panic::catch_unwind(std::panic::AssertUnwindSafe(|| ffi::replay_fficatch(&v)))
                .unwrap_or_else(|_| (json!(null), vec!["the harness panicked while replaying the history".to_string()]));
            writeln!(so, "{}", serde_json::to_string(&json!({"k": k, "observed": obs, "diffs": diffs})).unwrap()).unwrap();
            so.flush().unwrap();
        }
        return 0;
    }
    let mut ow = BufWriter::new(File::create(&out).unwrap());
    let (mut bad, mut steps) = (0u64, 0u64);
    let exe = std::env::current_exe().unwrap();
    let mut from = 0usize;
    let mut done = vec![false; lines.len()];
    while from < lines.len() {
        let o = std::process::Command::new(&exe).args(["replay-fficatch", "--in", path, "--child-from", &from.to_string()]).output().unwrap();
        let mut started: Option<usize> = None;
        for l in String::from_utf8_lossy(&o.stdout).lines() {
            let Ok(r) = serde_json::from_str::<Value>(l) else { continue };
            let k = r["k"].as_u64().unwrap_or(0) as usize;
            if r.get("start").is_some() { started = Some(k); continue; }
            started = None;
            done[k] = true;
            let v: Value = serde_json::from_str(&lines[k]).unwrap();
            steps += v["hist"].as_array().map(|h| h.len() as u64).unwrap_or(0);
            if r["diffs"].as_array().map(|d| !d.is_empty()).unwrap_or(true) {
                bad += 1;
                serde_json::to_writer(&mut ow, &json!({"vector": v, "src": "C API history with panicking functions", "observed": r["observed"], "diffs": r["diffs"]})).unwrap();
                ow.write_all(b"\n").unwrap();
            }
        }
        match started {
            Some(k) => {
                // the child died while executing vector k
                done[k] = true;
                bad += 1;
                let v: Value = serde_json::from_str(&lines[k]).unwrap();
                serde_json::to_writer(&mut ow, &json!({"vector": v, "src": "C API history with panicking functions", "observed": "process died",
                    "diffs": [format!("the process died while executing this history ({:?}): a panic was not reported as a status", o.status)]})).unwrap();
                ow.write_all(b"\n").unwrap();
                from = k + 1;
            }
            None => {
                match done.iter().position(|d| !d) {
                    Some(k) if !o.status.success() => { from = k.max(from + 1); }
                    _ => break,
                }
            }
        }
    }
    ow.flush().unwrap();
    println!("{}", serde_json::to_string(&json!({"vectors": lines.len(), "mismatches": bad, "runs": steps})).unwrap());
    if bad > 0 { 1 } else { 0 }
}

fn replay_serde_cmd(a: &HashMap<String, String>) -> i32 {
    let path = a.get("in").expect("--in");
    let out = a.get("out").cloned().unwrap_or_else(|| "/dev/null".into());
    quiet_panics();
    let f = BufReader::new(File::open(path).unwrap());
    let mut ow = BufWriter::new(File::create(&out).unwrap());
    let (mut n, mut bad) = (0u64, 0u64);
    for line in f.lines() {
        let line = line.unwrap();
        if line.trim().is_empty() {
            continue;
        }
        let v: Value = serde_json::from_str(&line).expect("vector json");
        if v.get("hdr").is_some() {
            continue;
        }
        n += 1;
        let (obs, diffs) = match std::panic::catch_unwind(std::panic::AssertUnwindSafe(|| serde_ctx::replay_vector(&v))) {
            Ok(r) => r,
            Err(_) => (json!(null), vec!["the harness panicked while replaying the vector".to_string()]),
        };
        if !diffs.is_empty() {
            bad += 1;
            let src = if v["ev"] == "val" { format!("val ty={} node={}", v["ty"], v["node"]) } else { format!("doc entries={}", v["entries"]) };
            serde_json::to_writer(&mut ow, &json!({"vector": v, "src": src, "observed": obs, "diffs": diffs})).unwrap();
            ow.write_all(b"\n").unwrap();
        }
    }
    ow.flush().unwrap();
    println!("{}", serde_json::to_string(&json!({"vectors": n, "mismatches": bad, "runs": n * 6})).unwrap());
    if bad > 0 { 1 } else { 0 }
}

fn replay_types_cmd(a: &HashMap<String, String>) -> i32 {
    let path = a.get("in").expect("--in");
    let out = a.get("out").cloned().unwrap_or_else(|| "/dev/null".into());
    quiet_panics();
    let f = BufReader::new(File::open(path).unwrap());
    let mut ow = BufWriter::new(File::create(&out).unwrap());
    let (mut n, mut bad) = (0u64, 0u64);
    for line in f.lines() {
        let line = line.unwrap();
        if line.trim().is_empty() {
            continue;
        }
        let v: Value = serde_json::from_str(&line).expect("vector json");
        if v.get("hdr").is_some() {
            continue;
        }
        n += 1;
        let (obs, diffs) = match v["ev"].as_str().unwrap_or("") {
            "type" => {
                let lay: Vec<u8> = serde_json::from_value(v["lay"].clone()).unwrap();
                let p: Vec<String> = serde_json::from_value(v["json"].clone()).unwrap();
                let o = types::observe_type(v["prim"].as_str().unwrap(), &lay, &p);
                let d = types::judge_type(&v, &o);
                (o, d)
            }
            _ => (json!(null), vec!["unknown vector".to_string()]),
        };
        if !diffs.is_empty() {
            bad += 1;
            let src = format!("type depth={} prim={} lay={}", v["depth"], v["prim"], v["lay"]);
            serde_json::to_writer(&mut ow, &json!({"vector": v, "src": src, "observed": obs, "diffs": diffs})).unwrap();
            ow.write_all(b"\n").unwrap();
        }
    }
    ow.flush().unwrap();
    println!("{}", serde_json::to_string(&json!({"vectors": n, "mismatches": bad, "runs": n * 9})).unwrap());
    if bad > 0 { 1 } else { 0 }
}

fn gen_types(a: &HashMap<String, String>) {
    let seed: u64 = a.get("seed").and_then(|s| s.parse().ok()).unwrap_or(1);
    let n: usize = a.get("n").and_then(|s| s.parse().ok()).unwrap_or(500);
    let out = a.get("out").cloned().unwrap_or_else(|| ".".into());
    let mut r = rng_from(seed);
    quiet_panics();
    write_ndjson::<Value>(&format!("{out}/schemes.ndjson"), &[]);
    write_ndjson::<Value>(&format!("{out}/ctxs.ndjson"), &[]);
    let mut tw = BufWriter::new(File::create(format!("{out}/trace.ndjson")).unwrap());
    for k in 0..n {
        let e = if k % 2 == 0 { types::gen_type_event(&mut r, k as u64) } else { types::gen_scheme_event(&mut r, k as u64) };
        serde_json::to_writer(&mut tw, &e).unwrap();
        tw.write_all(b"\n").unwrap();
    }
    tw.flush().unwrap();
    println!("{}", serde_json::to_string(&json!({"events": n})).unwrap());
}

fn gen_serde(a: &HashMap<String, String>) {
    let seed: u64 = a.get("seed").and_then(|s| s.parse().ok()).unwrap_or(1);
    let n: usize = a.get("n").and_then(|s| s.parse().ok()).unwrap_or(300);
    let out = a.get("out").cloned().unwrap_or_else(|| ".".into());
    let mut r = rng_from(seed);
    quiet_panics();
    let specs = vec![
        rich_scheme(true, true, false, &[("set", Ty::Int), ("set", Ty::Bytes), ("always", Ty::Ip)]),
        rich_scheme(true, true, false, &[]),
        SchemeSpec { fields: vec![], funcs: vec![], lists: vec![Ty::Int], listkinds: vec!["set".into()], nne: true },
    ];
    let schemes: Vec<wirefilter::Scheme> = specs.iter().map(mk::build_scheme).collect();
    write_ndjson(&format!("{out}/schemes.ndjson"), &specs);
    write_ndjson::<Value>(&format!("{out}/ctxs.ndjson"), &[]);
    let mut tw = BufWriter::new(File::create(format!("{out}/trace.ndjson")).unwrap());
    let mut nev = 0u64;
    while (nev as usize) < n {
        let mut evs = Vec::new();
        serde_ctx::gen_serde_events(&mut r, &specs, &schemes, nev, &mut evs);
        for (i, mut e) in evs.into_iter().enumerate() {
            e["id"] = json!(nev + i as u64);
            serde_json::to_writer(&mut tw, &e).unwrap();
            tw.write_all(b"\n").unwrap();
        }
        nev += 4;
    }
    tw.flush().unwrap();
    println!("{}", serde_json::to_string(&json!({"events": nev})).unwrap());
}

/// impl -> spec for C05: every input is parsed in a child process
fn gen_total(a: &HashMap<String, String>) {
    let seed: u64 = a.get("seed").and_then(|s| s.parse().ok()).unwrap_or(1);
    let n: usize = a.get("n").and_then(|s| s.parse().ok()).unwrap_or(1000);
    let big: usize = a.get("big").and_then(|s| s.parse().ok()).unwrap_or(100000);
    let out = a.get("out").cloned().unwrap_or_else(|| ".".into());
    let mut r = rng_from(seed);
    let spec = rich_scheme(true, true, true, &[("set", Ty::Int), ("set", Ty::Bytes)]);
    write_ndjson::<Value>(&format!("{out}/schemes.ndjson"), &[]);
    write_ndjson::<Value>(&format!("{out}/ctxs.ndjson"), &[]);
    let mut tw = BufWriter::new(File::create(format!("{out}/trace.ndjson")).unwrap());
    let mut w = total::Worker::spawn();
    let mut stats: HashMap<String, u64> = HashMap::new();
    let mut inputs: Vec<(String, String)> = Vec::new();
    if seed % 1000 == 0 || a.contains_key("stress") {
        inputs.extend(total::stress_inputs(big));
    }
    while inputs.len() < n {
        inputs.push(total::random_input(&mut r, &spec));
    }
    for (k, (class, text)) in inputs.iter().enumerate() {
        let value = class.starts_with("value") || (k % 7 == 3);
        let thread = k % 5 == 1;
        let obs = match w.ask(text, value, thread) {
            Some(o) => o,
            None => {
                let st = w.exit_status();
                w = total::Worker::spawn();
                json!({"out": format!("crash-{st}")})
            }
        };
        *stats.entry(format!("{}.{}", class, obs["out"].as_str().unwrap_or("?"))).or_default() += 1;
        // inputs are logged as bytes; huge inputs are logged by their line structure only
        let bytes = text.as_bytes();
        let ev = if bytes.len() <= 20000 {
            json!({"ev": "total", "id": k, "class": class, "value": value, "thread2m": thread, "size": bytes.len(), "input": bytes, "obs": obs})
        } else {
            // positions of line feeds and the reported line's text are enough to check the error location
            let lfs: Vec<usize> = bytes.iter().enumerate().filter(|(_, b)| **b == 10).map(|(i, _)| i + 1).collect();
            let line = obs.get("line").and_then(|l| l.as_i64()).unwrap_or(-1);
            let lt: Vec<u8> = if line >= 0 { text.split('\n').nth(line as usize).map(|s| s.as_bytes().to_vec()).unwrap_or_default() } else { vec![] };
            json!({"ev": "total-big", "id": k, "class": class, "value": value, "thread2m": thread, "size": bytes.len(),
                   "nlines": lfs.len() + 1, "actual_line": lt, "line_exists": line >= 0 && (line as usize) <= lfs.len(), "obs": obs})
        };
        serde_json::to_writer(&mut tw, &ev).unwrap();
        tw.write_all(b"\n").unwrap();
    }
    tw.flush().unwrap();
    println!("{}", serde_json::to_string(&json!({"events": inputs.len(), "stats": stats})).unwrap());
}

/// impl -> spec for C18.  `--child` mode: one fresh process that races the first use of the lazily
/// initialised state from all threads at once and prints its events.
fn gen_conc(a: &HashMap<String, String>) {
    let seed: u64 = a.get("seed").and_then(|s| s.parse().ok()).unwrap_or(1);
    let n: usize = a.get("n").and_then(|s| s.parse().ok()).unwrap_or(4);
    let out = a.get("out").cloned().unwrap_or_else(|| ".".into());
    let rounds: usize = a.get("rounds").and_then(|s| s.parse().ok()).unwrap_or(20);
    quiet_panics();
    let simd_expected = std::env::var("WIREFILTER_USE_AVX2").map(|v| !["0", "no", "false"].contains(&v.as_str())).unwrap_or(true)
        && std::is_x86_feature_detected!("avx2");
    let p = conc::plan(seed, 12, 5);
    if a.contains_key("child") {
        let mut evs = Vec::new();
        let mut id = 0u64;
        let threads: usize = a.get("threads").and_then(|s| s.parse().ok()).unwrap_or(16);
        conc::run(&p, threads, 2, simd_expected, &mut id, &mut evs);
        for e in evs {
            println!("{}", serde_json::to_string(&e).unwrap());
        }
        return;
    }
    write_ndjson(&format!("{out}/schemes.ndjson"), &p.specs);
    write_ndjson(&format!("{out}/ctxs.ndjson"), &p.ctxs);
    let fl: Vec<Value> = p.filters.iter().map(|(s, ts, src)| json!({"sch": s, "ts": ts, "src": src})).collect();
    write_ndjson(&format!("{out}/filters.ndjson"), &fl);
    let mut evs = Vec::new();
    let mut id = 0u64;
    // n = number of (T in 2,4,16,64) sweeps in this process
    for k in 0..n {
        for t in [2usize, 4, 16, 64] {
            conc::run(&p, t, if t == 64 { rounds / 4 + 1 } else { rounds }, simd_expected, &mut id, &mut evs);
        }
        let _ = k;
    }
    // fresh processes racing the first use
    let exe = std::env::current_exe().unwrap();
    let nproc: usize = a.get("procs").and_then(|s| s.parse().ok()).unwrap_or(10);
    for k in 0..nproc {
        let o = std::process::Command::new(&exe)
            .args(["gen-conc", "--child", "--seed", &seed.to_string(), "--threads", if k % 2 == 0 { "16" } else { "64" }])
            .output()
            .unwrap();
        if !o.status.success() {
            evs.push(json!({"ev": "conc", "id": id, "th": 0, "threads": 0, "rounds": 0, "f": 1, "c": 1,
                            "results": [true, false, true], "simd": false, "simd_expected": simd_expected, "child_failed": true}));
            id += 1;
            continue;
        }
        for line in String::from_utf8_lossy(&o.stdout).lines() {
            if let Ok(mut e) = serde_json::from_str::<Value>(line) {
                e["id"] = json!(id);
                e["proc"] = json!(k + 1);
                id += 1;
                evs.push(e);
            }
        }
    }
    write_ndjson(&format!("{out}/trace.ndjson"), &evs);
    println!("{}", serde_json::to_string(&json!({"events": evs.len(), "filters": p.filters.len(), "simd": simd_expected})).unwrap());
}

fn main() {
    let args: Vec<String> = std::env::args().collect();
    if args.len() < 2 {
        eprintln!("usage: wfh <gen-lang|replay> [--key value]...");
        std::process::exit(2);
    }
    let a = arg_map(&args[2..]);
    let code = match args[1].as_str() {
        "gen-lang" => {
            gen_lang(&a);
            0
        }
        "replay" => replay(&a),
        "reobserve" => reobserve(&a),
        "gen-hist" => {
            gen_hist(&a);
            0
        }
        "replay-hist" => replay_hist_cmd(&a),
        "replay-reg" => replay_reg_cmd(&a),
        "replay-types" => replay_types_cmd(&a),
        "replay-serde" => replay_serde_cmd(&a),
        "replay-lit" => replay_lit_cmd(&a),
        "replay-ffiseq" => replay_ffiseq_cmd(&a),
        "replay-fficatch" => replay_fficatch_cmd(&a),
        "replay-contains" => replay_contains_cmd(&a),
        "gen-contains" => {
            let seed: u64 = a.get("seed").and_then(|s| s.parse().ok()).unwrap_or(1);
            let n: usize = a.get("n").and_then(|s| s.parse().ok()).unwrap_or(1000);
            let out = a.get("out").cloned().unwrap_or_else(|| ".".into());
            let mut r = rng_from(seed);
            quiet_panics();
            let evs: Vec<Value> = (0..n).map(|k| contains::gen_event(&mut r, k as u64)).collect();
            write_ndjson::<Value>(&format!("{out}/schemes.ndjson"), &[]);
            write_ndjson::<Value>(&format!("{out}/ctxs.ndjson"), &[]);
            write_ndjson(&format!("{out}/trace.ndjson"), &evs);
            println!("{}", serde_json::to_string(&json!({"events": n})).unwrap());
            0
        }
        "gen-lit" => {
            let seed: u64 = a.get("seed").and_then(|s| s.parse().ok()).unwrap_or(1);
            let n: usize = a.get("n").and_then(|s| s.parse().ok()).unwrap_or(1000);
            let out = a.get("out").cloned().unwrap_or_else(|| ".".into());
            let mut r = rng_from(seed);
            quiet_panics();
            let evs: Vec<Value> = (0..n).map(|k| lit::gen_lit(&mut r, k as u64)).collect();
            write_ndjson::<Value>(&format!("{out}/schemes.ndjson"), &[]);
            write_ndjson::<Value>(&format!("{out}/ctxs.ndjson"), &[]);
            write_ndjson(&format!("{out}/trace.ndjson"), &evs);
            println!("{}", serde_json::to_string(&json!({"events": n})).unwrap());
            0
        }
        "replay-panic" => replay_panic_cmd(&a),
        "gen-serde" => {
            gen_serde(&a);
            0
        }
        "gen-panic" => {
            let seed: u64 = a.get("seed").and_then(|s| s.parse().ok()).unwrap_or(1);
            let n: usize = a.get("n").and_then(|s| s.parse().ok()).unwrap_or(10);
            let len: usize = a.get("len").and_then(|s| s.parse().ok()).unwrap_or(200);
            let out = a.get("out").cloned().unwrap_or_else(|| ".".into());
            if a.contains_key("race-child") {
                for e in panics::race_child(a.get("threads").and_then(|s| s.parse().ok()).unwrap_or(8), a.contains_key("blocker")) {
                    println!("{}", serde_json::to_string(&e).unwrap());
                }
                return;
            }
            if let Some(d) = a.get("deep-child").and_then(|s| s.parse::<usize>().ok()) {
                panics::install_hooks();
                let mut evs = Vec::new();
                let script = panics::deep_script(d);
                panics::rerun_script(1, script.clone(), &mut evs);
                for res in evs {
                    let e = json!({"ev": "script", "t": 1, "script": script, "obs": res["obs"], "levels": res["levels"], "sent": res["sent"], "status": res["status"], "deep": d});
                    println!("{}", serde_json::to_string(&e).unwrap());
                }
                return;
            }
            let mut evs = Vec::new();
            // `--raceonly`: --n counts fresh processes racing the first installation of the hook
            let raceonly = a.contains_key("raceonly");
            if !raceonly {
                panics::gen_panic(seed, n, len, &mut evs);
                // "at any nesting depth": deeply nested frames, each depth in a process of its own (a process that dies
                // is the observation)
                let exe = std::env::current_exe().unwrap();
                for d in [64usize, 255, 256, 257, 300, 1000] {
                    let o = std::process::Command::new(&exe).args(["gen-panic", "--deep-child", &d.to_string()]).output().unwrap();
                    let mut got = false;
                    for line in String::from_utf8_lossy(&o.stdout).lines() {
                        if let Ok(e) = serde_json::from_str::<Value>(line) {
                            evs.push(e);
                            got = true;
                        }
                    }
                    if !got || !o.status.success() {
                        evs.push(json!({"ev": "script", "t": 1, "script": panics::deep_script(d), "obs": [], "levels": [], "sent": 0, "status": "process-died", "deep": d}));
                    }
                }
            }
            let nrace: usize = if raceonly { n } else { a.get("race").and_then(|s| s.parse().ok()).unwrap_or(0) };
            let exe = std::env::current_exe().unwrap();
            for k in 0..nrace {
                // two children out of three have a blocker thread (see panics::Gate)
                let mut args = vec!["gen-panic", "--race-child", "--threads", a.get("threads").map(|s| s.as_str()).unwrap_or("8")];
                if k % 3 != 2 {
                    args.push("--blocker");
                }
                let o = std::process::Command::new(&exe).args(&args).output().unwrap();
                for line in String::from_utf8_lossy(&o.stdout).lines() {
                    if let Ok(e) = serde_json::from_str::<Value>(line) {
                        evs.push(e);
                    }
                }
                if !o.status.success() {
                    evs.push(json!({"ev": "script", "t": 1, "script": ["panic"], "obs": [], "levels": [], "sent": 0, "status": "process-died", "race": true}));
                }
            }
            for (k, e) in evs.iter_mut().enumerate() {
                e["id"] = json!(k);
            }
            write_ndjson::<Value>(&format!("{out}/schemes.ndjson"), &[]);
            write_ndjson::<Value>(&format!("{out}/ctxs.ndjson"), &[]);
            write_ndjson(&format!("{out}/trace.ndjson"), &evs);
            println!("{}", serde_json::to_string(&json!({"events": evs.len()})).unwrap());
            0
        }
        "total-worker" => {
            total::worker_main();
            0
        }
        "gen-total" => {
            gen_total(&a);
            0
        }
        "gen-conc" => {
            gen_conc(&a);
            0
        }
        "gen-ffi" => {
            let seed: u64 = a.get("seed").and_then(|s| s.parse().ok()).unwrap_or(1);
            let n: usize = a.get("n").and_then(|s| s.parse().ok()).unwrap_or(4);
            let steps: usize = a.get("steps").and_then(|s| s.parse().ok()).unwrap_or(60);
            let out = a.get("out").cloned().unwrap_or_else(|| ".".into());
            quiet_panics();
            // install the catcher's hook once, before any thread exists (its first installation is racy)
            wirefilter_ffi::panic::wirefilter_set_panic_catcher_hook();
            // n rounds of 4 concurrent threads, one session each; per-thread sequence numbers order the events.
            // Every round runs in a process of its own: a panic that escapes an extern "C" function aborts the
            // process, and that must be an observation, not the end of the harness.
            if let Some(round) = a.get("round-child").and_then(|s| s.parse::<usize>().ok()) {
                let hs: Vec<_> = (0..4usize).map(|t| {
                    let sd = seed * 1000 + (round * 4 + t) as u64;
                    std::thread::spawn(move || {
                        let mut r = rng_from(sd);
                        ffi::random_session(&mut r, round * 4 + t + 1, steps)
                    })
                }).collect();
                let mut outp = std::io::stdout().lock();
                for h in hs {
                    for e in h.join().unwrap() {
                        writeln!(outp, "{}", serde_json::to_string(&e).unwrap()).unwrap();
                    }
                }
                std::process::exit(0);
            }
            let mut evs: Vec<Value> = Vec::new();
            let mut id = 0u64;
            let exe = std::env::current_exe().unwrap();
            for round in 0..n {
                let o = std::process::Command::new(&exe)
                    .args(["gen-ffi", "--round-child", &round.to_string(), "--seed", &seed.to_string(), "--steps", &steps.to_string()])
                    .output()
                    .unwrap();
                for line in String::from_utf8_lossy(&o.stdout).lines() {
                    if let Ok(mut e) = serde_json::from_str::<Value>(line) {
                        e["id"] = json!(id);
                        id += 1;
                        evs.push(e);
                    }
                }
                if !o.status.success() {
                    let nl = json!({"null": true, "b": []});
                    evs.push(json!({"id": id, "ev": "ffi", "fn": "process", "th": 0, "le_before": nl.clone(), "le_after": nl, "status": "process-died",
                                    "rust_status": "ok", "same": false, "rust_err": {"have": false, "b": []}, "args": {"round": round}}));
                    id += 1;
                }
            }
            write_ndjson::<Value>(&format!("{out}/schemes.ndjson"), &[]);
            write_ndjson::<Value>(&format!("{out}/ctxs.ndjson"), &[]);
            write_ndjson(&format!("{out}/trace.ndjson"), &evs);
            println!("{}", serde_json::to_string(&json!({"events": evs.len()})).unwrap());
            0
        }
        "gen-types" => {
            gen_types(&a);
            0
        }
        "gen-reg" => {
            gen_reg(&a);
            0
        }
        other => {
            eprintln!("unknown subcommand {other}");
            2
        }
    };
    std::process::exit(code);
}
