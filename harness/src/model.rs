//! Data model shared with the TLA+ specification (spec/WfBase.tla, WfSyntax.tla).
//! Everything here is plain data with a JSON form that TLC's Json module can read
//! (objects -> records, arrays -> sequences, 32-bit integers only).
use serde::{Deserialize, Serialize};
use serde_json::Value;
use std::net::IpAddr;

pub type Limbs = [i32; 4];

pub fn limbs(x: i64) -> Limbs {
    [
        (x >> 48) as i16 as i32,
        ((x >> 32) & 0xffff) as i32,
        ((x >> 16) & 0xffff) as i32,
        (x & 0xffff) as i32,
    ]
}

pub fn unlimbs(l: &Limbs) -> i64 {
    ((l[0] as i64) << 48) | ((l[1] as i64) << 32) | ((l[2] as i64) << 16) | (l[3] as i64)
}

#[derive(Clone, Debug, PartialEq, Eq, Hash, Serialize, Deserialize)]
#[serde(tag = "k")]
pub enum Ty {
    Bool,
    Int,
    Ip,
    Bytes,
    Array { e: Box<Ty> },
    Map { e: Box<Ty> },
}

impl Ty {
    pub fn arr(e: Ty) -> Ty {
        Ty::Array { e: Box::new(e) }
    }
    pub fn map(e: Ty) -> Ty {
        Ty::Map { e: Box::new(e) }
    }
    pub fn elem(&self) -> Option<&Ty> {
        match self {
            Ty::Array { e } | Ty::Map { e } => Some(e),
            _ => None,
        }
    }
    pub fn to_engine(&self) -> wirefilter::Type {
        use wirefilter::Type as T;
        match self {
            Ty::Bool => T::Bool,
            Ty::Int => T::Int,
            Ty::Ip => T::Ip,
            Ty::Bytes => T::Bytes,
            Ty::Array { e } => T::Array(e.to_engine().into()),
            Ty::Map { e } => T::Map(e.to_engine().into()),
        }
    }
    pub fn from_engine(t: wirefilter::Type) -> Ty {
        use wirefilter::Type as T;
        match t {
            T::Bool => Ty::Bool,
            T::Int => Ty::Int,
            T::Ip => Ty::Ip,
            T::Bytes => Ty::Bytes,
            T::Array(e) => Ty::arr(Ty::from_engine(e.into())),
            T::Map(e) => Ty::map(Ty::from_engine(e.into())),
        }
    }
    pub fn depth(&self) -> usize {
        match self {
            Ty::Array { e } | Ty::Map { e } => 1 + e.depth(),
            _ => 0,
        }
    }
}

#[derive(Clone, Debug, PartialEq, Eq, Serialize, Deserialize)]
pub struct KV {
    pub k: Vec<u8>,
    pub v: Val,
}

#[derive(Clone, Debug, PartialEq, Eq, Serialize, Deserialize)]
#[serde(tag = "t", rename_all = "lowercase")]
pub enum Val {
    Nil {
        #[serde(skip_serializing_if = "Option::is_none", default)]
        ty: Option<Ty>,
    },
    Bool {
        v: bool,
    },
    Int {
        v: Limbs,
    },
    Bytes {
        v: Vec<u8>,
    },
    Ip {
        v: Vec<u8>,
    },
    Arr {
        e: Ty,
        v: Vec<Val>,
    },
    Map {
        e: Ty,
        v: Vec<KV>,
    },
}

pub fn ip_octets(ip: &IpAddr) -> Vec<u8> {
    match ip {
        IpAddr::V4(a) => a.octets().to_vec(),
        IpAddr::V6(a) => a.octets().to_vec(),
    }
}

pub fn octets_ip(o: &[u8]) -> IpAddr {
    if o.len() == 4 {
        IpAddr::from([o[0], o[1], o[2], o[3]])
    } else {
        let mut a = [0u8; 16];
        a.copy_from_slice(o);
        IpAddr::from(a)
    }
}

impl Val {
    pub fn nil() -> Val {
        Val::Nil { ty: None }
    }
    pub fn int(x: i64) -> Val {
        Val::Int { v: limbs(x) }
    }
    pub fn bytes(b: &[u8]) -> Val {
        Val::Bytes { v: b.to_vec() }
    }
    pub fn is_nil(&self) -> bool {
        matches!(self, Val::Nil { .. })
    }
    pub fn ty(&self) -> Option<Ty> {
        Some(match self {
            Val::Nil { .. } => return None,
            Val::Bool { .. } => Ty::Bool,
            Val::Int { .. } => Ty::Int,
            Val::Bytes { .. } => Ty::Bytes,
            Val::Ip { .. } => Ty::Ip,
            Val::Arr { e, .. } => Ty::arr(e.clone()),
            Val::Map { e, .. } => Ty::map(e.clone()),
        })
    }
    /// abs(.): real engine value -> abstract value
    pub fn from_engine(v: &wirefilter::LhsValue<'_>) -> Val {
        use wirefilter::LhsValue as L;
        match v {
            L::Bool(b) => Val::Bool { v: *b },
            L::Int(i) => Val::int(*i),
            L::Bytes(b) => Val::Bytes { v: b.to_vec() },
            L::Ip(ip) => Val::Ip { v: ip_octets(ip) },
            L::Array(a) => Val::Arr {
                e: Ty::from_engine(a.value_type()),
                v: a.iter().map(Val::from_engine).collect(),
            },
            L::Map(m) => Val::Map {
                e: Ty::from_engine(m.value_type()),
                v: m.iter()
                    .map(|(k, v)| KV {
                        k: k.to_vec(),
                        v: Val::from_engine(v),
                    })
                    .collect(),
            },
        }
    }
    /// abstract value -> real engine value; Err if the engine refuses to build it
    pub fn to_engine(&self) -> Result<wirefilter::LhsValue<'static>, String> {
        use wirefilter::LhsValue as L;
        Ok(match self {
            Val::Nil { .. } => return Err("nil".into()),
            Val::Bool { v } => L::Bool(*v),
            Val::Int { v } => L::Int(unlimbs(v)),
            Val::Bytes { v } => L::Bytes(v.clone().into()),
            Val::Ip { v } => L::Ip(octets_ip(v)),
            Val::Arr { e, v } => {
                let mut items = Vec::new();
                for x in v {
                    items.push(x.to_engine()?);
                }
                L::Array(
                    wirefilter::Array::try_from_vec(e.to_engine(), items)
                        .map_err(|e| e.to_string())?,
                )
            }
            Val::Map { e, v } => {
                let mut items: Vec<Result<(Box<[u8]>, L<'static>), wirefilter::TypeMismatchError>> =
                    Vec::new();
                for kv in v {
                    items.push(Ok((kv.k.clone().into_boxed_slice(), kv.v.to_engine()?)));
                }
                L::Map(
                    wirefilter::Map::try_from_iter(e.to_engine(), items)
                        .map_err(|e: wirefilter::TypeMismatchError| e.to_string())?,
                )
            }
        })
    }
}

impl Val {
    /// the other public construction route: Array::try_from_iter (Map has only one)
    pub fn to_engine_via_iter(&self) -> Result<wirefilter::LhsValue<'static>, String> {
        use wirefilter::LhsValue as L;
        Ok(match self {
            Val::Arr { e, v } => {
                let mut items = Vec::new();
                for x in v {
                    items.push(x.to_engine_via_iter()?);
                }
                L::Array(wirefilter::Array::try_from_iter(e.to_engine(), items).map_err(|e| e.to_string())?)
            }
            Val::Map { e, v } => {
                let mut items: Vec<Result<(Box<[u8]>, L<'static>), wirefilter::TypeMismatchError>> = Vec::new();
                for kv in v {
                    items.push(Ok((kv.k.clone().into_boxed_slice(), kv.v.to_engine_via_iter()?)));
                }
                L::Map(wirefilter::Map::try_from_iter(e.to_engine(), items).map_err(|e: wirefilter::TypeMismatchError| e.to_string())?)
            }
            other => other.to_engine()?,
        })
    }
}

impl Val {
    /// third construction route: the statically typed wrappers (TypedArray / TypedMap), for the shapes over Int
    /// that they can express at depth <= 2; None for other shapes or values that are not well typed
    pub fn to_engine_typed(&self) -> Option<wirefilter::LhsValue<'static>> {
        use wirefilter::{Array, LhsValue as L, Map, TypedArray, TypedMap};
        fn ints(v: &[Val]) -> Option<Vec<i64>> {
            v.iter().map(|x| match x { Val::Int { v } => Some(unlimbs(v)), _ => None }).collect()
        }
        fn int_map(v: &[KV]) -> Option<Vec<(Box<[u8]>, i64)>> {
            v.iter().map(|kv| match &kv.v { Val::Int { v } => Some((kv.k.clone().into_boxed_slice(), unlimbs(v))), _ => None }).collect()
        }
        match self {
            Val::Arr { e: Ty::Int, v } => Some(L::Array(Array::from(TypedArray::<i64>::from_iter(ints(v)?)))),
            Val::Map { e: Ty::Int, v } => Some(L::Map(Map::from(TypedMap::<i64>::from_iter(int_map(v)?)))),
            Val::Arr { e: Ty::Array { e: inner }, v } if **inner == Ty::Int => {
                let rows: Option<Vec<TypedArray<i64>>> = v.iter().map(|x| match x {
                    Val::Arr { e: Ty::Int, v } => ints(v).map(TypedArray::<i64>::from_iter),
                    _ => None,
                }).collect();
                Some(L::Array(Array::from(TypedArray::from_iter(rows?))))
            }
            Val::Arr { e: Ty::Map { e: inner }, v } if **inner == Ty::Int => {
                let rows: Option<Vec<TypedMap<i64>>> = v.iter().map(|x| match x {
                    Val::Map { e: Ty::Int, v } => int_map(v).map(TypedMap::<i64>::from_iter),
                    _ => None,
                }).collect();
                Some(L::Array(Array::from(TypedArray::from_iter(rows?))))
            }
            Val::Map { e: Ty::Array { e: inner }, v } if **inner == Ty::Int => {
                let rows: Option<Vec<(Box<[u8]>, TypedArray<i64>)>> = v.iter().map(|kv| match &kv.v {
                    Val::Arr { e: Ty::Int, v } => ints(v).map(|i| (kv.k.clone().into_boxed_slice(), TypedArray::<i64>::from_iter(i))),
                    _ => None,
                }).collect();
                Some(L::Map(Map::from(TypedMap::from_iter(rows?))))
            }
            Val::Map { e: Ty::Map { e: inner }, v } if **inner == Ty::Int => {
                let rows: Option<Vec<(Box<[u8]>, TypedMap<i64>)>> = v.iter().map(|kv| match &kv.v {
                    Val::Map { e: Ty::Int, v } => int_map(v).map(|m| (kv.k.clone().into_boxed_slice(), TypedMap::<i64>::from_iter(m))),
                    _ => None,
                }).collect();
                Some(L::Map(Map::from(TypedMap::from_iter(rows?))))
            }
            _ => None,
        }
    }
}

#[derive(Clone, Debug, PartialEq, Serialize, Deserialize)]
pub struct FieldSpec {
    pub name: String,
    pub ty: Ty,
    pub opt: bool,
}

#[derive(Clone, Debug, PartialEq, Serialize, Deserialize)]
pub struct ParamSpec {
    pub kind: String, // Literal | Field | Both
    pub ty: Ty,
}

#[derive(Clone, Debug, PartialEq, Serialize, Deserialize)]
pub struct OptSpec {
    pub kind: String,
    pub def: Val,
}

#[derive(Clone, Debug, PartialEq, Serialize, Deserialize)]
pub struct FuncSpec {
    pub name: String,
    pub sem: String,
    pub params: Vec<ParamSpec>,
    pub opts: Vec<OptSpec>,
    pub ret: Ty,
}

#[derive(Clone, Debug, PartialEq, Serialize, Deserialize)]
pub struct SchemeSpec {
    pub fields: Vec<FieldSpec>,
    pub funcs: Vec<FuncSpec>,
    pub lists: Vec<Ty>,
    /// kind of list definition per entry of `lists`: "set" | "always" | "never"
    #[serde(default)]
    pub listkinds: Vec<String>,
    pub nne: bool,
}

impl SchemeSpec {
    pub fn field(&self, name: &str) -> Option<&FieldSpec> {
        self.fields.iter().find(|f| f.name == name)
    }
    pub fn func(&self, name: &str) -> Option<&FuncSpec> {
        self.funcs.iter().find(|f| f.name == name)
    }
}

#[derive(Clone, Debug, PartialEq, Serialize, Deserialize)]
pub struct NamedSet {
    pub name: Vec<u8>,
    pub vals: Vec<Val>,
}

#[derive(Clone, Debug, PartialEq, Serialize, Deserialize)]
pub struct MatcherSpec {
    pub kind: String, // set | always | never
    pub sets: Vec<NamedSet>,
}

#[derive(Clone, Debug, PartialEq, Serialize, Deserialize)]
pub struct CtxSpec {
    pub sch: usize, // 1-based index into the scheme table
    pub vals: Vec<Val>,
    pub lists: Vec<MatcherSpec>,
}

#[derive(Clone, Debug, PartialEq, Serialize, Deserialize)]
#[serde(tag = "k", rename_all = "lowercase")]
pub enum Tok {
    Lp,
    Rp,
    Comma,
    Lb,
    Rb,
    Lbr,
    Rbr,
    Star,
    Not {
        a: u8,
    },
    Lop {
        v: String,
        a: u8,
    },
    Quant {
        v: String,
    },
    Ord {
        v: String,
        a: u8,
    },
    In,
    Band {
        a: u8,
    },
    Bop {
        v: String,
        a: u8,
    },
    Id {
        name: String,
    },
    List {
        name: Vec<u8>,
        #[serde(default)]
        valid: bool,
        #[serde(default)]
        txt: String,
    },
    Int {
        v: Limbs,
        txt: String,
    },
    Irange {
        lo: Limbs,
        hi: Limbs,
        txt: String,
    },
    Bytes {
        v: Vec<u8>,
        form: String,
        txt: String,
    },
    Ip {
        v: Vec<u8>,
        txt: String,
    },
    Cidr {
        v: Vec<u8>,
        len: u8,
        txt: String,
    },
    Iprange {
        lo: Vec<u8>,
        hi: Vec<u8>,
        txt: String,
    },
    Regex {
        pat: Vec<u8>,
        form: String,
        bad: String,
        re: Value,
        /// quoted form: the characters after the opening quote, including the closing quote
        body: Vec<u8>,
        #[serde(default)]
        txt: String,
    },
    Wild {
        v: Vec<u8>,
        form: String,
        #[serde(default)]
        txt: String,
    },
}

pub fn ord_spellings(v: &str) -> [&'static str; 2] {
    match v {
        "eq" => ["eq", "=="],
        "ne" => ["ne", "!="],
        "ge" => ["ge", ">="],
        "le" => ["le", "<="],
        "gt" => ["gt", ">"],
        _ => ["lt", "<"],
    }
}

impl Tok {
    /// spelling of the token (alias table of the language; literals carry their own text)
    pub fn text(&self) -> String {
        match self {
            Tok::Lp => "(".into(),
            Tok::Rp => ")".into(),
            Tok::Comma => ",".into(),
            Tok::Lb => "[".into(),
            Tok::Rb => "]".into(),
            Tok::Lbr => "{".into(),
            Tok::Rbr => "}".into(),
            Tok::Star => "*".into(),
            Tok::Not { a } => ["not", "!"][(*a as usize) % 2].into(),
            Tok::Lop { v, a } => match v.as_str() {
                "and" => ["and", "&&"][(*a as usize) % 2].into(),
                "or" => ["or", "||"][(*a as usize) % 2].into(),
                _ => ["xor", "^^"][(*a as usize) % 2].into(),
            },
            Tok::Quant { v } => v.clone(),
            Tok::Ord { v, a } => ord_spellings(v)[(*a as usize) % 2].into(),
            Tok::In => "in".into(),
            Tok::Band { a } => ["bitwise_and", "&"][(*a as usize) % 2].into(),
            Tok::Bop { v, a } => match v.as_str() {
                "matches" => ["matches", "~"][(*a as usize) % 2].into(),
                other => other.to_string(),
            },
            Tok::Id { name } => name.clone(),
            Tok::List { txt, .. }
            | Tok::Int { txt, .. }
            | Tok::Irange { txt, .. }
            | Tok::Bytes { txt, .. }
            | Tok::Ip { txt, .. }
            | Tok::Cidr { txt, .. }
            | Tok::Iprange { txt, .. }
            | Tok::Regex { txt, .. }
            | Tok::Wild { txt, .. } => txt.clone(),
        }
    }
    pub fn has_alias(&self) -> bool {
        matches!(
            self,
            Tok::Not { .. } | Tok::Lop { .. } | Tok::Ord { .. } | Tok::Band { .. }
        ) || matches!(self, Tok::Bop{v, ..} if v == "matches")
    }
    pub fn set_alias(&mut self, x: u8) {
        match self {
            Tok::Not { a } | Tok::Lop { a, .. } | Tok::Ord { a, .. } | Tok::Band { a } => *a = x,
            Tok::Bop { a, .. } => *a = x,
            _ => {}
        }
    }
}

fn is_sym_char(c: char) -> bool {
    "()[]{},=!<>&|^~*".contains(c)
}

/// Gap classes between adjacent tokens: 0 = must be empty, 1 = may be empty, 2 = needs white space
pub fn gap_class(l: &Tok, r: &Tok) -> u8 {
    if matches!(r, Tok::Lb) {
        return 0; // index brackets are glued to what they index
    }
    let lt = l.text();
    let rt = r.text();
    let le = lt.chars().last().unwrap();
    let rs = rt.chars().next().unwrap();
    let opch = |c: char| "=!<>&|^~".contains(c);
    if opch(le) && opch(rs) {
        2
    } else if is_sym_char(le) || is_sym_char(rs) {
        1
    } else {
        2
    }
}

/// Render tokens to source text. `layout(i, class)` returns the white space for gap i.
pub fn render_with(ts: &[Tok], mut layout: impl FnMut(usize, u8) -> String) -> String {
    let mut s = String::new();
    for (i, t) in ts.iter().enumerate() {
        if i > 0 {
            let c = gap_class(&ts[i - 1], t);
            s.push_str(&layout(i, c));
        }
        s.push_str(&t.text());
    }
    s
}

/// tokens emitted by TLC carry no literal text for patterns: spell them here
pub fn fill_txt(ts: &mut [Tok]) {
    for t in ts.iter_mut() {
        match t {
            Tok::Regex { pat, form, body, txt, .. } if txt.is_empty() => {
                if form == "q" {
                    *txt = format!("\"{}", String::from_utf8_lossy(body));
                } else {
                    let p = String::from_utf8_lossy(pat).to_string();
                    let mut need = 0usize;
                    let b = p.as_bytes();
                    for i in 0..b.len() {
                        if b[i] == b'"' {
                            let mut k = 0;
                            while i + 1 + k < b.len() && b[i + 1 + k] == b'#' {
                                k += 1;
                            }
                            need = need.max(k + 1);
                        }
                    }
                    let h = "#".repeat(need);
                    *txt = format!("r{h}\"{p}\"{h}");
                }
            }
            Tok::List { name, txt, .. } if txt.is_empty() => {
                *txt = format!("${}", String::from_utf8_lossy(name));
            }
            Tok::Wild { v, txt, .. } if txt.is_empty() => {
                let mut s = String::from("\"");
                for c in v.iter() {
                    match *c {
                        b'"' => s.push_str("\\\""),
                        b'\\' => s.push_str("\\\\"),
                        0x20..=0x7e => s.push(*c as char),
                        other => s.push_str(&format!("\\x{:02x}", other)),
                    }
                }
                s.push('"');
                *txt = s;
            }
            _ => {}
        }
    }
}

pub fn render(ts: &[Tok]) -> String {
    render_with(ts, |_, c| if c == 0 { String::new() } else { " ".into() })
}
