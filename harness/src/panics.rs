//! Panic catcher (property C19): runs scripts of catcher operations for real, one fresh OS
//! thread per script, optionally in lock-step with a schedule produced by TLC.
use serde_json::{json, Value};
use std::cell::Cell;
use std::panic::{catch_unwind, AssertUnwindSafe};
use std::sync::{Arc, Condvar, Mutex, Once};
use wirefilter::{
    catch_panic, panic_catcher_disable, panic_catcher_enable, panic_catcher_get_backtrace,
    panic_catcher_set_fallback_mode, panic_catcher_set_hook, verif_panic_catcher_level,
    PanicCatcherFallbackMode,
};

thread_local! {
    static SENTINEL: Cell<u64> = const { Cell::new(0) };
    /// number of upcoming heap allocations of this thread that are delayed (schedule perturbation)
    static SLOW_ALLOCS: Cell<u32> = const { Cell::new(0) };
}

/// Global allocator of the harness: identical to the system allocator, except that a thread can ask
/// for its next few allocations to take ~100 microseconds each.  The race stage uses it to stretch the
/// code between two library calls inside `panic_catcher_set_hook` (the closure is boxed between
/// `take_hook` and `set_hook`); slower allocation is legal behaviour of an allocator, so nothing that
/// holds on the unperturbed program can fail because of it.
pub struct PerturbAlloc;
unsafe impl std::alloc::GlobalAlloc for PerturbAlloc {
    unsafe fn alloc(&self, l: std::alloc::Layout) -> *mut u8 {
        if let Ok(n) = SLOW_ALLOCS.try_with(|c| c.get()) {
            if n > 0 {
                let _ = SLOW_ALLOCS.try_with(|c| c.set(n - 1));
                let t0 = std::time::Instant::now();
                while t0.elapsed().as_micros() < 100 {
                    std::hint::spin_loop();
                }
            }
        }
        std::alloc::System.alloc(l)
    }
    unsafe fn dealloc(&self, p: *mut u8, l: std::alloc::Layout) {
        std::alloc::System.dealloc(p, l)
    }
}
static INSTALL: Once = Once::new();

/// the "previously installed hook": counts the panics that reach it, per thread
pub fn install_hooks() {
    INSTALL.call_once(|| {
        std::panic::set_hook(Box::new(|_| SENTINEL.with(|c| c.set(c.get() + 1))));
        panic_catcher_set_hook();
    });
}

enum Node {
    Op(String, usize),
    /// body, position, whether the body owns a clean-up guard ("genter")
    Catch(Vec<Node>, usize, bool),
}

/// clean-up guard of a "genter" frame: when the frame is left - normally or by unwinding - it runs a nested
/// catch_panic that returns normally, and the thread records what that call returned
struct Guard(*mut Vec<Value>);
impl Drop for Guard {
    fn drop(&mut self) {
        let r = catch_panic(|| 7u32);
        // SAFETY: the observation log outlives every frame of the script and is only touched by this thread
        let obs = unsafe { &mut *self.0 };
        match r {
            Ok(7) => obs.push(json!({"k": "gok", "m": 0})),
            Ok(_) => obs.push(json!({"k": "gwrong", "m": 0})),
            Err(text) => obs.push(json!({"k": "gerr", "m": msg_id(&text)})),
        }
    }
}

fn parse(ops: &[String], i: &mut usize) -> Vec<Node> {
    let mut out = Vec::new();
    while *i < ops.len() {
        let pos = *i + 1;
        match ops[*i].as_str() {
            "enter" | "genter" => {
                let guard = ops[*i] == "genter";
                *i += 1;
                let body = parse(ops, i);
                out.push(Node::Catch(body, pos, guard));
            }
            "ret" => {
                *i += 1;
                return out;
            }
            o => {
                out.push(Node::Op(o.to_string(), pos));
                *i += 1;
            }
        }
    }
    out
}

struct Turn {
    sched: Vec<usize>,
    idx: Mutex<usize>,
    cv: Condvar,
}

struct Th<'a> {
    t: usize,
    turn: Option<&'a Turn>,
    /// delay this many allocations made inside the `sethook` operation
    slow_install: u32,
    obs: Vec<Value>,
    levels: Vec<u64>,
}

fn msg_id(text: &str) -> u64 {
    match text.find("msg-") {
        Some(i) => text[i + 4..].chars().take_while(|c| c.is_ascii_digit()).collect::<String>().parse().unwrap_or(0),
        None => 0,
    }
}

impl Th<'_> {
    fn wait_turn(&self) {
        if let Some(tn) = self.turn {
            let mut g = tn.idx.lock().unwrap();
            while *g < tn.sched.len() && tn.sched[*g] != self.t {
                g = tn.cv.wait(g).unwrap();
            }
        }
    }
    fn done_step(&mut self) {
        self.levels.push(verif_panic_catcher_level());
        if let Some(tn) = self.turn {
            let mut g = tn.idx.lock().unwrap();
            *g += 1;
            tn.cv.notify_all();
        }
    }
    fn run(&mut self, body: &[Node]) {
        for n in body {
            match n {
                Node::Op(o, pos) => {
                    self.wait_turn();
                    match o.as_str() {
                        "enable" => panic_catcher_enable(),
                        "disable" => panic_catcher_disable(),
                        "sethook" => {
                            SLOW_ALLOCS.with(|c| c.set(self.slow_install));
                            panic_catcher_set_hook();
                            SLOW_ALLOCS.with(|c| c.set(0));
                        }
                        "cont" => {
                            panic_catcher_set_fallback_mode(PanicCatcherFallbackMode::Continue);
                        }
                        "bt" => {
                            let m = panic_catcher_get_backtrace().map(|s| msg_id(&s)).unwrap_or(0);
                            self.obs.push(json!({"k": "bt", "m": m}));
                        }
                        "swallow" => {
                            // a panic the body recovers from by itself (plain catch_unwind, no catcher frame)
                            let m = 100 * self.t + pos;
                            let _ = std::panic::catch_unwind(move || panic!("msg-{}", m));
                        }
                        "panic" => panic!("msg-{}", 100 * self.t + pos),
                        _ => {}
                    }
                    self.done_step();
                }
                Node::Catch(inner, _pos, guard) => {
                    self.wait_turn();
                    let me: *mut Th<'_> = self;
                    let obs_ptr: *mut Vec<Value> = &mut self.obs;
                    let guard = *guard;
                    let r = catch_panic(AssertUnwindSafe(|| {
                        let _g = if guard { Some(Guard(obs_ptr)) } else { None };
                        // SAFETY: the closure runs synchronously on this thread
                        let s = unsafe { &mut *me };
                        s.done_step(); // the "enter" step
                        s.run(inner);
                        s.wait_turn(); // the "ret" step
                    }));
                    match r {
                        Ok(()) => {
                            self.obs.push(json!({"k": "ok", "m": 0}));
                            self.done_step();
                        }
                        Err(text) => {
                            self.obs.push(json!({"k": "err", "m": msg_id(&text)}));
                            self.done_step(); // the "panic" step ends here
                        }
                    }
                }
            }
        }
    }
}

fn run_thread(t: usize, ops: Vec<String>, turn: Option<Arc<Turn>>) -> Value {
    run_thread_gated(t, ops, turn, None, 0)
}

/// Start gate of the race stage.  Script threads count `ready` down and spin until the blocker thread
/// is inside the previously installed (sentinel) hook; the blocker waits for `ready == 0`, then panics
/// outside catch_panic.  std runs a panic hook under the read lock of the global hook, so every script
/// thread reaches `take_hook` (a write lock) while it is held and they all leave it at the same moment.
pub struct Gate {
    ready: std::sync::atomic::AtomicUsize,
    blocker: bool,
}
static IN_HOOK: std::sync::atomic::AtomicBool = std::sync::atomic::AtomicBool::new(false);
thread_local! {
    static IS_BLOCKER: Cell<bool> = const { Cell::new(false) };
}

fn run_thread_gated(t: usize, ops: Vec<String>, turn: Option<Arc<Turn>>, gate: Option<(Arc<Gate>, bool)>, slow_install: u32) -> Value {
    use std::sync::atomic::Ordering;
    let h = std::thread::Builder::new()
        .name(format!("script-{t}"))
        .stack_size((2usize << 20).max(ops.len() * (64 << 10)))
        .spawn(move || {
            let mut i = 0;
            let tree = parse(&ops, &mut i);
            let tref = turn.as_deref();
            let mut th = Th { t, turn: tref, obs: Vec::with_capacity(16), levels: Vec::with_capacity(64), slow_install };
            if let Some((g, is_blocker)) = gate {
                if is_blocker {
                    IS_BLOCKER.with(|c| c.set(true));
                    while g.ready.load(Ordering::SeqCst) > 0 {
                        std::hint::spin_loop();
                    }
                } else {
                    g.ready.fetch_sub(1, Ordering::SeqCst);
                    while g.blocker && !IN_HOOK.load(Ordering::SeqCst) || g.ready.load(Ordering::SeqCst) > 0 {
                        std::hint::spin_loop();
                    }
                }
            }
            let r = catch_unwind(AssertUnwindSafe(|| th.run(&tree)));
            let mut status = "run";
            if let Err(p) = r {
                let text = p.downcast_ref::<String>().cloned().or_else(|| p.downcast_ref::<&str>().map(|s| s.to_string())).unwrap_or_default();
                th.obs.push(json!({"k": "escaped", "m": msg_id(&text)}));
                status = "escaped";
                th.done_step();
            }
            json!({"obs": th.obs, "levels": th.levels, "sent": SENTINEL.with(|c| c.get()), "status": status})
        })
        .unwrap();
    h.join().unwrap_or_else(|_| json!({"obs": [], "levels": [], "sent": 0, "status": "thread-died"}))
}

/// returns (observed, diffs)
pub fn replay_panic(v: &Value) -> (Value, Vec<String>) {
    install_hooks();
    let scripts: Vec<Vec<String>> = serde_json::from_value(v["scripts"].clone()).unwrap();
    let sched: Vec<usize> = serde_json::from_value(v["sched"].clone()).unwrap_or_default();
    let turn = if scripts.len() > 1 {
        Some(Arc::new(Turn { sched, idx: Mutex::new(0), cv: Condvar::new() }))
    } else {
        None
    };
    let mut handles = Vec::new();
    for (i, s) in scripts.iter().enumerate() {
        let s = s.clone();
        let tn = turn.clone();
        handles.push(std::thread::spawn(move || run_thread(i + 1, s, tn)));
    }
    let res: Vec<Value> = handles.into_iter().map(|h| h.join().unwrap()).collect();
    let mut diffs = Vec::new();
    for (i, r) in res.iter().enumerate() {
        for k in ["obs", "sent", "status", "levels"] {
            let e = &v[k][i];
            if k == "levels" && v.get("levels").is_none() {
                continue;
            }
            if &r[k] != e {
                diffs.push(format!("thread {} {}: expected {} observed {}", i + 1, k, e, r[k]));
            }
        }
    }
    (json!(res), diffs)
}

/// one deeply nested script (fresh process): enable, `depth` nested frames (every 7th with a clean-up guard), a panic
/// in the innermost one, then every frame returns
pub fn deep_script(depth: usize) -> Vec<String> {
    let mut s = vec!["enable".to_string()];
    for k in 0..depth {
        s.push(if k % 7 == 3 { "genter" } else { "enter" }.to_string());
    }
    s.push("panic".to_string());
    s.push("bt".to_string());
    for _ in 0..depth {
        s.push("ret".to_string());
    }
    s
}

/// impl -> spec: `n` rounds of 8 threads running random well-bracketed scripts concurrently
pub fn gen_panic(seed: u64, rounds: usize, len: usize, out: &mut Vec<Value>) {
    use rand::Rng;
    install_hooks();
    let mut r = crate::gen::rng_from(seed);
    let mut id = 0u64;
    for _ in 0..rounds {
        let mut handles = Vec::new();
        let mut scripts = Vec::new();
        for t in 1..=8usize {
            let mut s: Vec<String> = Vec::new();
            let mut depth = 0usize;
            while s.len() < len {
                let o = match r.random_range(0..17) {
                    16 => "swallow",
                    0 | 1 => "enable",
                    2 => "disable",
                    3 | 4 => "enter",
                    5 => "genter",
                    6..=8 => "ret",
                    9 | 10 => "panic",
                    11 => "sethook",
                    12 => "cont",
                    _ => "bt",
                };
                if o == "ret" {
                    if depth == 0 {
                        continue;
                    }
                    depth -= 1;
                }
                if o == "enter" || o == "genter" {
                    if depth >= 6 {
                        continue;
                    }
                    depth += 1;
                }
                // keep escapes rare so that scripts run long: panic mostly inside frames
                if o == "panic" && depth == 0 && r.random_range(0..4) != 0 {
                    continue;
                }
                s.push(o.to_string());
            }
            for _ in 0..depth {
                s.push("ret".to_string());
            }
            scripts.push(s.clone());
            handles.push(std::thread::spawn(move || run_thread(t, s, None)));
        }
        for (i, h) in handles.into_iter().enumerate() {
            let res = h.join().unwrap();
            out.push(json!({"ev": "script", "id": id, "t": i + 1, "script": scripts[i], "obs": res["obs"],
                            "levels": res["levels"], "sent": res["sent"], "status": res["status"]}));
            id += 1;
        }
    }
}

pub fn rerun_script(t: usize, ops: Vec<String>, out: &mut Vec<Value>) {
    install_hooks();
    let res = std::thread::spawn(move || run_thread(t, ops, None)).join().unwrap();
    out.push(res);
}

/// First-installation race (observation O1 / property C19 across threads): in a fresh process
/// without an installed hook, `threads` threads simultaneously install the hook, enable catching
/// and panic inside catch_panic.  Each thread's observation is judged like any other script.
pub fn race_child(threads: usize, with_blocker: bool) -> Vec<Value> {
    use std::sync::atomic::{AtomicUsize, Ordering};
    // the previously installed hook; on the blocker thread it takes 300 microseconds
    std::panic::set_hook(Box::new(|_| {
        SENTINEL.with(|c| c.set(c.get() + 1));
        if IS_BLOCKER.with(|c| c.get()) {
            IN_HOOK.store(true, Ordering::SeqCst);
            let t0 = std::time::Instant::now();
            while t0.elapsed().as_micros() < 300 {
                std::hint::spin_loop();
            }
        }
    }));
    let gate = Arc::new(Gate { ready: AtomicUsize::new(threads), blocker: with_blocker });
    let script: Vec<String> = ["sethook", "enable", "enter", "panic", "ret", "enter", "enter", "panic", "ret", "ret"].iter().map(|s| s.to_string()).collect();
    let mut scripts = vec![script; threads];
    if with_blocker {
        scripts.push(vec!["panic".to_string()]);
    }
    let hs: Vec<_> = scripts
        .iter()
        .enumerate()
        .map(|(i, sc)| {
            let t = i + 1;
            let g = gate.clone();
            let sc = sc.clone();
            // odd threads install slowly (their allocations inside set_hook are delayed), even ones at full speed
            let slow = if t % 2 == 1 { 4 } else { 0 };
            std::thread::spawn(move || (t, run_thread_gated(t, sc, None, Some((g, t > threads)), slow)))
        })
        .collect();
    hs.into_iter()
        .map(|h| {
            let (t, res) = h.join().unwrap();
            json!({"ev": "script", "t": t, "script": scripts[t - 1], "obs": res["obs"], "levels": res["levels"], "sent": res["sent"], "status": res["status"], "race": true})
        })
        .collect()
}
