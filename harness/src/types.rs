//! Type and scheme encodings (property C15): recursive form, packed forms (engine CompoundType
//! and C-API CType), JSON form, through the serde_json entry points and the C API.
use crate::model::*;
use serde_json::{json, Value};
use std::panic::{catch_unwind, AssertUnwindSafe};
use wirefilter::{CompoundType, Type};
use wirefilter_ffi::*;

fn prim_ty(p: &str) -> Ty {
    match p {
        "Bool" => Ty::Bool,
        "Int" => Ty::Int,
        "Ip" => Ty::Ip,
        _ => Ty::Bytes,
    }
}

/// model type from (primitive, layers outermost first)
pub fn ty_from_layers(prim: &str, lay: &[u8]) -> Ty {
    let mut t = prim_ty(prim);
    for l in lay.iter().rev() {
        t = if *l == 0 { Ty::arr(t) } else { Ty::map(t) };
    }
    t
}

/// JSON text of the linear document path (keys outermost first, primitive last)
pub fn json_text_from_path(path: &[String]) -> String {
    let n = path.len() - 1;
    let mut s = String::new();
    for k in &path[..n] {
        s.push_str(&format!("{{\"{}\":", k));
    }
    s.push_str(&format!("\"{}\"", path[n]));
    for _ in 0..n {
        s.push('}');
    }
    s
}

fn bits_of(layers: u32, len: u8) -> Value {
    // sequence whose last element is the least significant bit
    let mut v = Vec::new();
    for i in (0..len.min(32)).rev() {
        v.push((layers >> i) & 1);
    }
    let high_clear = if len >= 32 { true } else { layers >> len == 0 };
    json!({"bits": v, "high_clear": high_clear})
}

fn parse_ct_debug(s: &str) -> Option<(u32, u8, String)> {
    // CompoundType { layers: 5, len: 3, primitive: Int }
    let g = |k: &str| -> Option<String> {
        let i = s.find(k)? + k.len();
        let rest = &s[i..];
        let e = rest.find([',', ' ', '}']).unwrap_or(rest.len());
        Some(rest[..e].trim().to_string())
    };
    Some((g("layers: ")?.parse().ok()?, g("len: ")?.parse().ok()?, g("primitive: ")?))
}

fn de_outcome(r: std::thread::Result<Result<Type, serde_json::Error>>) -> Value {
    match r {
        Err(_) => json!({"out": "panic"}),
        Ok(Err(_)) => json!({"out": "err"}),
        Ok(Ok(t)) => {
            let back = catch_unwind(AssertUnwindSafe(|| serde_json::to_string(&t).unwrap_or_default()))
                .unwrap_or_else(|_| "panic".into());
            json!({"out": "ok", "text": back})
        }
    }
}

pub fn observe_type(prim: &str, lay: &[u8], path: &[String]) -> Value {
    let text = json_text_from_path(path);
    let depth = lay.len();
    let mut o = serde_json::Map::new();
    // JSON entry points
    let de = json!({
        "str": de_outcome(catch_unwind(AssertUnwindSafe(|| serde_json::from_str::<Type>(&text)))),
        "slice": de_outcome(catch_unwind(AssertUnwindSafe(|| serde_json::from_slice::<Type>(text.as_bytes())))),
        "reader": de_outcome(catch_unwind(AssertUnwindSafe(|| serde_json::from_reader::<_, Type>(text.as_bytes())))),
        "value": if depth < 120 {
            match serde_json::from_str::<Value>(&text) {
                Ok(v) => de_outcome(catch_unwind(AssertUnwindSafe(|| serde_json::from_value::<Type>(v)))),
                Err(_) => json!({"out": "skipped"}),
            }
        } else { json!({"out": "skipped"}) },
    });
    o.insert("text".into(), json!(text));
    o.insert("de".into(), de);
    if depth <= 33 {
        // the recursive form exists for <= 33 layers; conversions are observed through catch_unwind
        let r = catch_unwind(AssertUnwindSafe(|| {
            let ty = ty_from_layers(prim, lay).to_engine();
            let ser = serde_json::to_string(&ty).unwrap_or_default();
            let ct: CompoundType = ty.into();
            let dbg = format!("{ct:?}");
            let back: Type = ct.into();
            let cty = CType::from(ty);
            let cback = Type::from(cty);
            // C API chain from the primitive
            let mut chain = wirefilter_create_primitive_type(match prim {
                "Ip" => CPrimitiveType::Ip,
                "Bytes" => CPrimitiveType::Bytes,
                "Int" => CPrimitiveType::Int,
                _ => CPrimitiveType::Bool,
            });
            for l in lay.iter().rev() {
                chain = if *l == 0 { wirefilter_create_array_type(chain) } else { wirefilter_create_map_type(chain) };
            }
            let ffi_json = {
                let r = wirefilter_serialize_type_to_json(cty);
                if r.json.ptr.is_null() || r.json.len == 0 {
                    "<the C API returned no JSON>".to_string()
                } else {
                    let s = unsafe { std::slice::from_raw_parts(r.json.ptr as *const u8, r.json.len) };
                    String::from_utf8_lossy(s).to_string()
                }
            };
            let (l, n, p) = parse_ct_debug(&dbg).unwrap_or((0, 255, "?".into()));
            json!({
                "state": "ok",
                "ser": ser,
                "ct": {"prim": p, "len": n, "pack": bits_of(l, n)},
                "ct_rt": back == ty,
                "cty": {"prim": match cty.primitive {1 => "Ip", 2 => "Bytes", 3 => "Int", 4 => "Bool", _ => "?"}, "len": cty.len, "pack": bits_of(cty.layers, cty.len)},
                "cty_rt": cback == ty,
                "chain_eq": chain == cty,
                "ffi_json": ffi_json,
                "display_rt": true,
            })
        }));
        o.insert("conv".into(), r.unwrap_or_else(|_| json!({"state": "panic"})));
    } else {
        o.insert("conv".into(), json!({"state": "unrepresentable"}));
    }
    Value::Object(o)
}

/// compare an observation with the specification's vector; returns diffs
pub fn judge_type(v: &Value, o: &Value) -> Vec<String> {
    let mut d = Vec::new();
    let depth = v["depth"].as_u64().unwrap() as usize;
    let exp_de = v["de"]["out"].as_str().unwrap();
    for k in ["str", "slice", "reader", "value"] {
        let got = &o["de"][k];
        let out = got["out"].as_str().unwrap();
        if out == "skipped" {
            continue;
        }
        if out == "panic" {
            d.push(format!("deserializing a {depth}-layer type descriptor via {k} panicked"));
            continue;
        }
        match exp_de {
            "ok" => {
                if out != "ok" {
                    d.push(format!("{k}: a representable type ({depth} layers) was refused"));
                } else if got["text"] != o["text"] {
                    d.push(format!("{k}: JSON round trip changed the type: {} -> {}", o["text"], got["text"]));
                }
            }
            "err" => {
                if out != "err" {
                    d.push(format!("{k}: a {depth}-layer descriptor was accepted as {}", got["text"]));
                }
            }
            _ => {
                // 33 layers: no panic; if accepted it must re-serialize to the same document
                if out == "ok" && got["text"] != o["text"] {
                    d.push(format!("{k}: 33-layer descriptor accepted as a different type"));
                }
            }
        }
    }
    if depth <= 32 {
        let c = &o["conv"];
        if c["state"] == "panic" {
            d.push("conversion between encodings panicked for a representable type".into());
            return d;
        }
        let p = &v["pack"];
        for which in ["ct", "cty"] {
            let g = &c[which];
            if g["prim"] != p["prim"] || g["len"] != p["len"] || g["pack"]["bits"] != p["bits"] || g["pack"]["high_clear"] != true {
                d.push(format!("{which}: packed form {} differs from the specification's {}", g, p));
            }
        }
        for b in ["ct_rt", "cty_rt", "chain_eq"] {
            if c[b] != true {
                d.push(format!("{b} is false"));
            }
        }
        if c["ser"] != o["text"] {
            d.push(format!("serialized JSON {} differs from the canonical {}", c["ser"], o["text"]));
        }
        if c["ffi_json"] != o["text"] {
            d.push(format!("C API JSON {} differs from {}", c["ffi_json"], o["text"]));
        }
    }
    d
}

// ---------------------------------------------------------------------------------------
// schemes

use rand::rngs::StdRng;
use rand::Rng;
use wirefilter::{Scheme, SchemeBuilder};

fn layers_of(t: &Ty) -> (String, Vec<u8>) {
    let mut lay = Vec::new();
    let mut c = t;
    loop {
        match c {
            Ty::Array { e } => {
                lay.push(0);
                c = e;
            }
            Ty::Map { e } => {
                lay.push(1);
                c = e;
            }
            Ty::Bool => return ("Bool".into(), lay),
            Ty::Int => return ("Int".into(), lay),
            Ty::Ip => return ("Ip".into(), lay),
            Ty::Bytes => return ("Bytes".into(), lay),
        }
    }
}

fn ty_json_text(t: &Ty) -> String {
    let (p, lay) = layers_of(t);
    let mut path: Vec<String> = lay.iter().map(|l| if *l == 0 { "Array".to_string() } else { "Map".to_string() }).collect();
    path.push(p);
    json_text_from_path(&path)
}

fn esc_name(r: &mut StdRng, n: &str) -> String {
    // JSON string for a name; sometimes with \u escapes (same string, different spelling)
    if r.random_range(0..3) == 0 {
        let mut s = String::from("\"");
        for c in n.chars() {
            if (r.random_range(0..2) == 0 && (c as u32) < 0x10000) || (c as u32) < 0x20 {
                s.push_str(&format!("\\u{:04x}", c as u32));
            } else if c == '"' {
                s.push_str("\\\"");
            } else if c == '\\' {
                s.push_str("\\\\");
            } else {
                s.push(c);
            }
        }
        s.push('"');
        s
    } else {
        serde_json::to_string(n).unwrap()
    }
}

fn describe(s: &Scheme) -> Value {
    json!(s.fields().map(|f| {
        let (p, lay) = layers_of(&Ty::from_engine(wirefilter::GetType::get_type(&f)));
        json!({"nb": f.name().as_bytes(), "prim": p, "lay": lay, "opt": f.optional()})
    }).collect::<Vec<_>>())
}

fn scheme_outcome(r: std::thread::Result<Result<Scheme, serde_json::Error>>) -> Value {
    match r {
        Err(_) => json!({"out": "panic"}),
        Ok(Err(e)) => json!({"out": "err", "msg": e.to_string()}),
        Ok(Ok(s)) => json!({"out": "ok", "fields": describe(&s)}),
    }
}

pub fn gen_scheme_event(r: &mut StdRng, id: u64) -> Value {
    let pool = ["", "a", "a.b", "a.b.c", "x_1", "http.request.uri", "0", "A", "\u{fc}ber", "k\u{4e16}", "q\"uote", "back\\slash", "tab\there", "sp ace"];
    let n = match r.random_range(0..6) {
        0 => 0,
        1 => 1,
        2 => 40,
        _ => r.random_range(2..12),
    };
    let dup = r.random_range(0..4) == 0 && n >= 2;
    let mut names: Vec<String> = Vec::new();
    while names.len() < n {
        let mut nm = pool[r.random_range(0..pool.len())].to_string();
        if r.random_range(0..3) != 0 {
            nm.push_str(&format!(".{}", r.random_range(0..1000)));
        }
        if r.random_range(0..40) == 0 {
            nm.push_str(&"z".repeat(300));
        }
        if !names.contains(&nm) {
            names.push(nm);
        }
    }
    if dup {
        let i = r.random_range(0..names.len());
        let j = (i + 1 + r.random_range(0..names.len() - 1)) % names.len();
        names[j] = names[i].clone();
    }
    let mut fields = Vec::new();
    for nm in &names {
        let depth = r.random_range(0..4);
        let prims = [Ty::Int, Ty::Bytes, Ty::Ip, Ty::Bool];
        let mut t = prims[r.random_range(0..4)].clone();
        for _ in 0..depth {
            t = if r.random_range(0..2) == 0 { Ty::arr(t) } else { Ty::map(t) };
        }
        fields.push((nm.clone(), t, r.random_range(0..2) == 0));
    }
    let mut text = String::from("{");
    for (i, (nm, t, opt)) in fields.iter().enumerate() {
        if i > 0 {
            text.push(',');
        }
        text.push_str(&format!("{}:{{\"type\":{},\"optional\":{}}}", esc_name(r, nm), ty_json_text(t), opt));
    }
    text.push('}');
    let fl: Vec<Value> = fields.iter().map(|(nm, t, opt)| {
        let (p, lay) = layers_of(t);
        json!({"nb": nm.as_bytes(), "prim": p, "lay": lay, "opt": opt})
    }).collect();
    let mut e = json!({"ev": "scheme", "id": id, "fields": fl, "dup": dup, "text": text});
    let o = reobserve_scheme(&e);
    e["de"] = o["de"].clone();
    e["built"] = o["built"].clone();
    e
}

/// observe what the engine does with the scheme JSON text (and, without duplicates, with the
/// scheme built from the field list)
pub fn reobserve_scheme(e: &Value) -> Value {
    let text = e["text"].as_str().unwrap().to_string();
    let dup = e["dup"].as_bool().unwrap();
    let fields: Vec<(String, Ty, bool)> = e["fields"].as_array().unwrap().iter().map(|f| {
        let nb: Vec<u8> = serde_json::from_value(f["nb"].clone()).unwrap();
        let lay: Vec<u8> = serde_json::from_value(f["lay"].clone()).unwrap();
        (String::from_utf8_lossy(&nb).to_string(), ty_from_layers(f["prim"].as_str().unwrap(), &lay), f["opt"].as_bool().unwrap())
    }).collect();
    let de = json!({
        "str": scheme_outcome(catch_unwind(AssertUnwindSafe(|| serde_json::from_str::<Scheme>(&text)))),
        "slice": scheme_outcome(catch_unwind(AssertUnwindSafe(|| serde_json::from_slice::<Scheme>(text.as_bytes())))),
        "reader": scheme_outcome(catch_unwind(AssertUnwindSafe(|| serde_json::from_reader::<_, Scheme>(text.as_bytes())))),
        "value": match serde_json::from_str::<Value>(&text) {
            Ok(v) => scheme_outcome(catch_unwind(AssertUnwindSafe(|| serde_json::from_value::<Scheme>(v)))),
            Err(_) => json!({"out": "skipped"}),
        },
    });
    // builder -> serialize -> parse back (only without duplicates)
    let built = if !dup {
        let mut b = SchemeBuilder::new();
        for (nm, t, opt) in &fields {
            if *opt { b.add_optional_field(nm, t.to_engine()).unwrap() } else { b.add_field(nm, t.to_engine()).unwrap() }
        }
        let s = b.build();
        let ser = serde_json::to_string(&s).unwrap_or_default();
        let back = scheme_outcome(catch_unwind(AssertUnwindSafe(|| serde_json::from_str::<Scheme>(&ser))));
        let ffi = {
            let fs: wirefilter_ffi::Scheme = s.clone().into();
            let rr = wirefilter_serialize_scheme_to_json(&fs);
            let sl = crate::ffi_bytes(rr.json.ptr as *const u8, rr.json.len);
            String::from_utf8_lossy(sl).to_string()
        };
        json!({"described": describe(&s), "back": back, "ffi_same": ffi == ser})
    } else {
        json!("dup")
    };
    json!({"de": de, "built": built})
}

pub fn gen_type_event(r: &mut StdRng, id: u64) -> Value {
    let depth = match r.random_range(0..10) {
        0..=3 => r.random_range(13..33),
        4 => 32,
        5 => 33,
        6 => 34,
        7 => r.random_range(35..131),
        _ => r.random_range(0..13),
    };
    let lay: Vec<u8> = match r.random_range(0..4) {
        0 => vec![0; depth],
        1 => vec![1; depth],
        _ => (0..depth).map(|_| r.random_range(0..2) as u8).collect(),
    };
    let prim = ["Bool", "Int", "Ip", "Bytes"][r.random_range(0..4)];
    let mut path: Vec<String> = lay.iter().map(|l| if *l == 0 { "Array".to_string() } else { "Map".to_string() }).collect();
    path.push(prim.to_string());
    let obs = observe_type(prim, &lay, &path);
    json!({"ev": "type", "id": id, "prim": prim, "lay": lay, "depth": depth, "path": path, "obs": obs})
}
