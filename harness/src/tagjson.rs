//! Engine AST JSON -> tagged all-record JSON (the form spec/WfJson.tla produces).
//!   structural string {"c":".."}  data string {"s":[bytes]}  number {"n":[limbs]}
//!   byte array {"b":[..]}  array {"a":[..]}  IP {"ip":[octets]}  CIDR {"cidr":[..],"len":n}
use crate::model::*;
use serde_json::{json, Map, Value};
use std::net::IpAddr;
use std::str::FromStr;

fn jc(s: &str) -> Value {
    json!({ "c": s })
}

fn num(v: &Value) -> Value {
    if let Some(i) = v.as_i64() {
        json!({ "n": limbs(i) })
    } else {
        json!({"c": format!("unrepresentable-number:{v}")})
    }
}

fn data_str(s: &str, ipish: bool) -> Value {
    if ipish {
        if let Ok(ip) = IpAddr::from_str(s) {
            return json!({ "ip": ip_octets(&ip) });
        }
        if let Some((a, l)) = s.split_once('/') {
            if let (Ok(ip), Ok(len)) = (IpAddr::from_str(a), l.parse::<u8>()) {
                return json!({"cidr": ip_octets(&ip), "len": len});
            }
        }
    }
    json!({ "s": s.as_bytes() })
}

/// rhs / literal position
fn rhs(v: &Value, items: bool) -> Value {
    match v {
        Value::Number(_) => num(v),
        Value::String(s) => data_str(s, true),
        Value::Array(a) => {
            if !items && a.iter().all(|x| x.is_u64()) {
                json!({"b": a})
            } else {
                json!({"a": a.iter().map(|x| rhs(x, false)).collect::<Vec<_>>()})
            }
        }
        Value::Object(o) => {
            let mut m = Map::new();
            for (k, x) in o {
                m.insert(k.clone(), rhs(x, false));
            }
            Value::Object(m)
        }
        other => json!({"c": format!("unexpected:{other}")}),
    }
}

fn index(v: &Value) -> Value {
    let mut m = Map::new();
    if let Some(o) = v.as_object() {
        let kind = o.get("kind").and_then(|k| k.as_str()).unwrap_or("?");
        m.insert("kind".into(), jc(kind));
        if let Some(val) = o.get("value") {
            m.insert(
                "value".into(),
                match kind {
                    "ArrayIndex" => num(val),
                    "MapKey" => data_str(val.as_str().unwrap_or("?"), false),
                    _ => jc("unexpected"),
                },
            );
        }
        for (k, _) in o {
            if k != "kind" && k != "value" {
                m.insert(k.clone(), jc("unexpected-key"));
            }
        }
    } else {
        return jc("unexpected-index");
    }
    Value::Object(m)
}

fn ident(v: &Value) -> Value {
    match v {
        Value::String(s) => jc(s),
        Value::Object(o) => {
            let mut m = Map::new();
            for (k, x) in o {
                match k.as_str() {
                    "name" => {
                        m.insert(k.clone(), jc(x.as_str().unwrap_or("?")));
                    }
                    "args" => {
                        let args = x
                            .as_array()
                            .map(|a| a.iter().map(arg).collect::<Vec<_>>())
                            .unwrap_or_default();
                        m.insert(k.clone(), json!({ "a": args }));
                    }
                    _ => {
                        m.insert(k.clone(), jc("unexpected-key"));
                    }
                }
            }
            Value::Object(m)
        }
        _ => jc("unexpected-ident"),
    }
}

fn lhs(v: &Value) -> Value {
    match v {
        Value::Array(a) if !a.is_empty() => {
            let mut out = vec![ident(&a[0])];
            out.extend(a[1..].iter().map(index));
            json!({ "a": out })
        }
        other => ident(other),
    }
}

fn arg(v: &Value) -> Value {
    let mut m = Map::new();
    if let Some(o) = v.as_object() {
        let kind = o.get("kind").and_then(|k| k.as_str()).unwrap_or("?");
        m.insert("kind".into(), jc(kind));
        if let Some(val) = o.get("value") {
            m.insert(
                "value".into(),
                match kind {
                    "IndexExpr" => lhs(val),
                    "Literal" => rhs(val, false),
                    "SimpleExpr" => logical(val),
                    _ => jc("unexpected"),
                },
            );
        }
    } else {
        return jc("unexpected-arg");
    }
    Value::Object(m)
}

pub fn logical(v: &Value) -> Value {
    let Some(o) = v.as_object() else {
        return jc("unexpected-logical");
    };
    let op = o.get("op").and_then(|k| k.as_str()).unwrap_or("?");
    let mut m = Map::new();
    for (k, x) in o {
        let t = match k.as_str() {
            "op" => jc(op),
            "items" => json!({"a": x.as_array().map(|a| a.iter().map(logical).collect::<Vec<_>>()).unwrap_or_default()}),
            "arg" => {
                if op == "Not" {
                    logical(x)
                } else {
                    arg(x)
                }
            }
            "lhs" => lhs(x),
            "rhs" => rhs(x, op == "OneOf"),
            _ => jc("unexpected-key"),
        };
        m.insert(k.clone(), t);
    }
    Value::Object(m)
}

pub fn value_ast(v: &Value) -> Value {
    lhs(v)
}
