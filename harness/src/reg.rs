//! Scheme registry (property C16): replay of registration histories and probes of the
//! built scheme through the public API.
use crate::mk::CtxFn;
use crate::model::*;
use serde_json::{json, Value};
use wirefilter::{IdentifierRedefinitionError, Scheme, SchemeBuilder};

pub fn apply_reg(b: &mut SchemeBuilder, op: &Value) -> &'static str {
    let map = |r: Result<(), IdentifierRedefinitionError>| match r {
        Ok(()) => "ok",
        Err(IdentifierRedefinitionError::Field(_)) => "FieldRedefinition",
        Err(IdentifierRedefinitionError::Function(_)) => "FunctionRedefinition",
    };
    match op["op"].as_str().unwrap() {
        "field" => {
            let ty: Ty = serde_json::from_value(op["ty"].clone()).unwrap();
            let name = op["name"].as_str().unwrap();
            if op["opt"].as_bool().unwrap() {
                map(b.add_optional_field(name, ty.to_engine()))
            } else {
                map(b.add_field(name, ty.to_engine()))
            }
        }
        "func" => map(b.add_function(op["name"].as_str().unwrap(), CtxFn)),
        _ => {
            let ty: Ty = serde_json::from_value(op["ty"].clone()).unwrap();
            match b.add_list(ty.to_engine(), crate::mk::SetList) {
                Ok(()) => "ok",
                Err(_) => "ListRedefinition",
            }
        }
    }
}

pub fn probe(s: &Scheme, name: &str) -> Value {
    // a lookup resolves the complete name: what comes back must carry that very name
    let field = match s.get_field(name) {
        Ok(f) if f.name() == name => json!({"ok": true, "ty": Ty::from_engine(wirefilter::GetType::get_type(&f)),
                        "opt": f.optional(), "idx": f.index()}),
        Ok(f) => json!({"ok": true, "ty": Ty::from_engine(wirefilter::GetType::get_type(&f)),
                        "opt": f.optional(), "idx": f.index(), "resolved_to_another_name": f.name()}),
        Err(_) => json!({"ok": false}),
    };
    let func = matches!(s.get_function(name), Ok(f) if f.name() == name);
    let asvalue = std::panic::catch_unwind(std::panic::AssertUnwindSafe(|| s.parse_value(name).is_ok())).unwrap_or(false);
    let call = format!("{name}()");
    let ascall = std::panic::catch_unwind(std::panic::AssertUnwindSafe(|| s.parse_value(&call).is_ok())).unwrap_or(false);
    json!({"name": name, "field": field, "func": func, "asvalue": asvalue, "ascall": ascall})
}

fn list_lookup(s: &Scheme) -> Vec<Value> {
    let pool = [Ty::Int, Ty::Bytes, Ty::Ip, Ty::Bool, Ty::arr(Ty::Int)];
    pool.iter()
        .map(|t| {
            let r = std::panic::catch_unwind(std::panic::AssertUnwindSafe(|| {
                s.get_list(&t.to_engine()).map(|l| Ty::from_engine(wirefilter::GetType::get_type(&l)))
            }));
            match r {
                Ok(Some(got)) => json!({"ty": t, "found": true, "got": got}),
                Ok(None) => json!({"ty": t, "found": false, "got": t}),
                Err(_) => json!({"ty": t, "found": true, "got": {"k": "Panic"}}),
            }
        })
        .collect()
}

pub fn summary(s: &Scheme) -> Value {
    json!({
        "listlookup": list_lookup(s),
        "nfields": s.field_count(), "nfuncs": s.function_count(), "nlists": s.list_count(),
        "order": s.fields().map(|f| f.name().to_string()).collect::<Vec<_>>(),
        "funcorder": s.functions().map(|f| f.name().to_string()).collect::<Vec<_>>(),
        "listorder": s.lists().map(|l| Ty::from_engine(wirefilter::GetType::get_type(&l))).collect::<Vec<_>>(),
    })
}

/// returns (observed, diffs)
pub fn replay_reg(v: &Value) -> (Value, Vec<String>) {
    let mut b = SchemeBuilder::new();
    let mut b2 = SchemeBuilder::new();
    let mut diffs = Vec::new();
    let mut res = Vec::new();
    let exp = v["res"].as_array().cloned().unwrap_or_default();
    for (i, op) in v["ops"].as_array().unwrap().iter().enumerate() {
        let r = apply_reg(&mut b, op);
        let _ = apply_reg(&mut b2, op);
        if i < exp.len() && exp[i] != r {
            diffs.push(format!("step {}: {} expected {} observed {}", i + 1, op, exp[i], r));
        }
        res.push(r);
    }
    let s = b.build();
    let s2 = b2.build();
    let mut probes = Vec::new();
    if let Some(ps) = v["probes"].as_array() {
        for p in ps {
            let name = p["name"].as_str().unwrap();
            let o = probe(&s, name);
            if &o != p {
                diffs.push(format!("probe {name}: expected {p} observed {o}"));
            }
            probes.push(o);
        }
    }
    let sm = summary(&s);
    if v.get("summary").is_some() && v["summary"] != sm {
        diffs.push(format!("summary: expected {} observed {}", v["summary"], sm));
    }
    // two schemes are interchangeable only if one is a clone of the other
    let cl = s.clone();
    if s != cl {
        diffs.push("a scheme differs from its clone".into());
    }
    if s == s2 {
        diffs.push("two independently built schemes compare equal".into());
    }
    // handles of an independently built scheme are not interchangeable either: a context refuses them
    for t in [Ty::Int, Ty::Bytes, Ty::Ip] {
        if let (Some(_), Some(foreign)) = (s.get_list(&t.to_engine()), s2.get_list(&t.to_engine())) {
            let accepted = std::panic::catch_unwind(std::panic::AssertUnwindSafe(|| {
                let ctx = wirefilter::ExecutionContext::<()>::new(&s);
                let _ = ctx.get_list_matcher(foreign);
            }))
            .is_ok();
            if accepted {
                diffs.push(format!("a context accepted the {:?} list handle of another scheme", t));
            }
        }
    }
    (json!({"res": res, "probes": probes, "summary": sm, "eq_clone": s == cl, "eq_rebuild": s == s2}), diffs)
}
