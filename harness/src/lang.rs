//! Observation of the parse -> compile -> execute pipeline through the public API.
//! `observe_*` runs the real engine on abstract inputs and returns what was observed,
//! in the vocabulary of the specification.  Panics in the code under test are data.
use crate::mk::*;
use crate::model::*;
use crate::tagjson;
use serde::{Deserialize, Serialize};
use serde_json::{json, Value};
use std::panic::{catch_unwind, AssertUnwindSafe};
use wirefilter::{FilterParser, Scheme};

#[derive(Clone, Debug, PartialEq, Serialize, Deserialize)]
pub struct Run {
    pub ctx: usize, // 1-based index into the context table
    pub out: String, // ok | panic | mismatch
    pub res: bool,
}

#[derive(Clone, Debug, PartialEq, Serialize, Deserialize)]
pub struct VRun {
    pub ctx: usize,
    pub out: String,
    pub res: Val,
    /// invocations of the harness functions during this run (only when recording is on)
    #[serde(default, skip_serializing_if = "Vec::is_empty")]
    pub calls: Vec<(String, Vec<Val>)>,
}

#[derive(Clone, Debug, PartialEq, Serialize, Deserialize)]
pub struct UsesObs {
    pub f: String,
    pub out: String, // ok | err
    pub uses: bool,
    pub list: bool,
}

/// One observation of parse (+ serialize, uses, compile, execute) of a filter.
#[derive(Clone, Debug, PartialEq, Serialize, Deserialize)]
pub struct FilterObs {
    pub ok: bool,
    pub out: String, // ok | err | panic
    pub ast: Value,
    pub runs: Vec<Run>,
    pub uses: Vec<UsesObs>,
    #[serde(default, skip_serializing_if = "String::is_empty")]
    pub err: String,
    /// what the definition-context function (ctxfn) saw in each phase: [phase, accessor, entries or -1]
    #[serde(default)]
    pub ctxobs: Vec<(String, String, i64)>,
}

pub struct World {
    pub specs: Vec<SchemeSpec>,
    pub schemes: Vec<Scheme>,
    /// the same schemes built through the other public construction routes (see `build_scheme_route`)
    pub alts: Vec<Vec<Scheme>>,
    pub ctxs: Vec<CtxSpec>,
}

impl World {
    pub fn new(specs: Vec<SchemeSpec>, ctxs: Vec<CtxSpec>) -> World {
        let schemes = specs.iter().map(build_scheme).collect();
        let alts = specs.iter().map(|s| (1..=3).filter(|&r| r < 3 || (s.funcs.is_empty() && s.lists.is_empty() && s.nne)).map(|r| crate::mk::build_scheme_route(s, r)).collect::<Vec<_>>()).collect();
        World {
            specs,
            schemes,
            alts,
            ctxs,
        }
    }

    /// The filter (or value expression) parsed, compiled and executed on a scheme built through another construction
    /// route must give what it gives on the main scheme: `Some(results)` per context, `None` when it does not parse.
    pub fn alt_filter_runs(&self, sch: usize, route: usize, max: u16, src: &str, ctxs: &[usize]) -> Option<Vec<Option<bool>>> {
        let scheme = &self.alts[sch - 1][route];
        let spec = &self.specs[sch - 1];
        let mut p = FilterParser::new(scheme);
        p.set_max_nesting_depth(max);
        let star = STAR.with(|s| s.get());
        if star >= 0 {
            p.wildcard_set_star_limit(star as usize);
        }
        let ast = catch_unwind(AssertUnwindSafe(|| p.parse(src).ok())).ok()??;
        let f = catch_unwind(AssertUnwindSafe(|| ast.compile())).ok()?;
        Some(ctxs.iter().map(|&c| {
            catch_unwind(AssertUnwindSafe(|| f.execute(&build_ctx(scheme, spec, &self.ctxs[c - 1])).ok())).ok().flatten()
        }).collect())
    }
    pub fn parser(&self, sch: usize, max: u16) -> FilterParser<'_> {
        let mut p = FilterParser::new(&self.schemes[sch - 1]);
        p.set_max_nesting_depth(max);
        let star = STAR.with(|s| s.get());
        if star >= 0 {
            p.wildcard_set_star_limit(star as usize);
        }
        p
    }

    /// the same settings through the other public route (a settings struct instead of setters)
    pub fn parser_via_settings(&self, sch: usize, max: u16) -> FilterParser<'_> {
        let star = STAR.with(|s| s.get());
        let settings = wirefilter::ParserSettings {
            max_nesting_depth: max,
            wildcard_star_limit: if star >= 0 { star as usize } else { usize::MAX },
            ..Default::default()
        };
        self.schemes[sch - 1].parser_with_settings(settings)
    }
}

thread_local! {
    static STAR: std::cell::Cell<i64> = const { std::cell::Cell::new(-1) };
}

/// wildcard star limit used by the parsers created from now on (-1: the default, unlimited)
pub fn set_star_limit(n: i64) {
    STAR.with(|s| s.set(n));
}

pub fn quiet_panics() {
    if std::env::var("WFH_LOUD").is_ok() {
        return;
    }
    std::panic::set_hook(Box::new(|_| {}));
}

pub fn observe_filter(
    w: &World,
    sch: usize,
    max: u16,
    src: &str,
    ctxs: &[usize],
    uses: &[String],
) -> FilterObs {
    let scheme = &w.schemes[sch - 1];
    let spec = &w.specs[sch - 1];
    let parser = w.parser(sch, max);
    CTXOBS.with(|c| c.borrow_mut().clear());
    let parsed = catch_unwind(AssertUnwindSafe(|| parser.parse(src).map_err(|e| e.to_string())));
    let ast = match parsed {
        Err(_) => {
            return FilterObs {
                ok: false,
                out: "panic".into(),
                ast: json!({"c": "none"}),
                runs: vec![],
                uses: vec![],
                err: String::new(),
                ctxobs: vec![],
            }
        }
        Ok(Err(e)) => {
            let alt_ok = catch_unwind(AssertUnwindSafe(|| w.parser_via_settings(sch, max).parse(src).is_ok())).unwrap_or(true);
            return FilterObs {
                ok: false,
                out: if alt_ok { "settings-routes-disagree".into() } else { "err".into() },
                ast: json!({"c": "none"}),
                runs: vec![],
                uses: vec![],
                err: e,
                ctxobs: vec![],
            }
        }
        Ok(Ok(a)) => a,
    };
    // both ways of configuring a parser must agree
    let alt = catch_unwind(AssertUnwindSafe(|| w.parser_via_settings(sch, max).parse(src).ok()));
    if !matches!(&alt, Ok(Some(b)) if *b == ast) {
        return FilterObs {
            ok: false,
            out: "settings-routes-disagree".into(),
            ast: json!({"c": "none"}),
            runs: vec![],
            uses: vec![],
            err: String::new(),
            ctxobs: vec![],
        };
    }
    CTXOBS.with(|c| c.borrow_mut().clear());
    let ast = match catch_unwind(AssertUnwindSafe(|| parser.parse(src))) {
        Ok(Ok(a)) => a,
        _ => ast,
    };
    let j = serde_json::to_value(&ast).unwrap_or(Value::Null);
    let mut tagged = tagjson::logical(&j);
    if json_depth(&tagged) > 120 {
        // TLC's JSON reader refuses documents nested deeper than 255 levels
        tagged = json!({"c": "deep"});
    }
    let mut u = Vec::new();
    for f in uses {
        let a = ast.uses(f);
        let b = ast.uses_list(f);
        u.push(match (a, b) {
            (Ok(a), Ok(b)) => UsesObs {
                f: f.clone(),
                out: "ok".into(),
                uses: a,
                list: b,
            },
            // exactly one of the two refusing the name is neither of the specified outcomes
            (Ok(_), Err(_)) | (Err(_), Ok(_)) => UsesObs {
                f: f.clone(),
                out: "uses-and-uses_list-disagree".into(),
                uses: false,
                list: false,
            },
            _ => UsesObs {
                f: f.clone(),
                out: "err".into(),
                uses: false,
                list: false,
            },
        });
    }
    let mut runs = Vec::new();
    let compiled = catch_unwind(AssertUnwindSafe(|| ast.clone().compile()));
    match compiled {
        Err(_) => {
            for &c in ctxs {
                runs.push(Run {
                    ctx: c,
                    out: "panic".into(),
                    res: false,
                });
            }
        }
        Ok(filter) => {
            for &c in ctxs {
                // building the context is part of the observation: if the engine hands out something the
                // harness cannot work with (e.g. a matcher of another list), that is recorded as a panic
                let r = catch_unwind(AssertUnwindSafe(|| {
                    let ctx = build_ctx(scheme, spec, &w.ctxs[c - 1]);
                    filter.execute(&ctx)
                }));
                runs.push(match r {
                    Ok(Ok(b)) => Run {
                        ctx: c,
                        out: "ok".into(),
                        res: b,
                    },
                    Ok(Err(_)) => Run {
                        ctx: c,
                        out: "mismatch".into(),
                        res: false,
                    },
                    Err(_) => Run {
                        ctx: c,
                        out: "panic".into(),
                        res: false,
                    },
                });
            }
        }
    }
    let ctxobs = CTXOBS.with(|c| c.borrow().iter().map(|(p, a, n)| (p.clone(), a.clone(), n.map(|x| x as i64).unwrap_or(-1))).collect());
    // the scheme built through the other construction routes: the same verdict and results
    for route in 0..w.alts[sch - 1].len() {
        let alt = w.alt_filter_runs(sch, route, max, src, ctxs);
        for (i, run) in runs.iter_mut().enumerate() {
            let same = match &alt {
                None => false,
                Some(rs) => run.out != "ok" || rs[i] == Some(run.res),
            };
            if !same {
                run.out = format!("scheme-construction-route-{}-disagrees", route + 1);
            }
        }
    }
    FilterObs {
        ok: true,
        out: "ok".into(),
        ast: tagged,
        runs,
        uses: u,
        err: String::new(),
        ctxobs,
    }
}

#[derive(Clone, Debug, PartialEq, Serialize, Deserialize)]
pub struct ValueObs {
    pub ok: bool,
    pub out: String,
    pub ast: Value,
    pub runs: Vec<VRun>,
    pub uses: Vec<UsesObs>,
}

pub fn observe_value(
    w: &World,
    sch: usize,
    max: u16,
    src: &str,
    ctxs: &[usize],
    uses: &[String],
) -> ValueObs {
    let scheme = &w.schemes[sch - 1];
    let spec = &w.specs[sch - 1];
    let parser = w.parser(sch, max);
    let parsed = catch_unwind(AssertUnwindSafe(|| parser.parse_value(src).map_err(|e| e.to_string())));
    let none = |out: &str| ValueObs {
        ok: false,
        out: out.into(),
        ast: json!({"c": "none"}),
        runs: vec![],
        uses: vec![],
    };
    let ast = match parsed {
        Err(_) => return none("panic"),
        Ok(Err(_)) => {
            let alt_ok = catch_unwind(AssertUnwindSafe(|| w.parser_via_settings(sch, max).parse_value(src).is_ok())).unwrap_or(true);
            return none(if alt_ok { "settings-routes-disagree" } else { "err" });
        }
        Ok(Ok(a)) => a,
    };
    let alt = catch_unwind(AssertUnwindSafe(|| w.parser_via_settings(sch, max).parse_value(src).ok()));
    if !matches!(&alt, Ok(Some(b)) if *b == ast) {
        return none("settings-routes-disagree");
    }
    let j = serde_json::to_value(&ast).unwrap_or(Value::Null);
    let tagged = tagjson::value_ast(&j);
    let mut u = Vec::new();
    for f in uses {
        u.push(match (ast.uses(f), ast.uses_list(f)) {
            (Ok(a), Ok(b)) => UsesObs {
                f: f.clone(),
                out: "ok".into(),
                uses: a,
                list: b,
            },
            // exactly one of the two refusing the name is neither of the specified outcomes
            (Ok(_), Err(_)) | (Err(_), Ok(_)) => UsesObs {
                f: f.clone(),
                out: "uses-and-uses_list-disagree".into(),
                uses: false,
                list: false,
            },
            _ => UsesObs {
                f: f.clone(),
                out: "err".into(),
                uses: false,
                list: false,
            },
        });
    }
    let mut runs = Vec::new();
    match catch_unwind(AssertUnwindSafe(|| ast.clone().compile())) {
        Err(_) => {
            for &c in ctxs {
                runs.push(VRun {
                    ctx: c,
                    out: "panic".into(),
                    res: Val::nil(),
                    calls: vec![],
                });
            }
        }
        Ok(fv) => {
            for &c in ctxs {
                CALLS.with(|l| l.borrow_mut().clear());
                let r = catch_unwind(AssertUnwindSafe(|| match fv.execute(&build_ctx(scheme, spec, &w.ctxs[c - 1])) {
                    Ok(Ok(v)) => ("ok", Val::from_engine(&v)),
                    Ok(Err(t)) => (
                        "ok",
                        Val::Nil {
                            ty: Some(Ty::from_engine(t)),
                        },
                    ),
                    Err(_) => ("mismatch", Val::nil()),
                }));
                runs.push(match r {
                    Ok((o, v)) => VRun {
                        ctx: c,
                        out: o.into(),
                        res: v,
                        calls: CALLS.with(|l| l.borrow().clone()),
                    },
                    Err(_) => VRun {
                        ctx: c,
                        out: "panic".into(),
                        res: Val::nil(),
                        calls: vec![],
                    },
                });
            }
        }
    }
    ValueObs {
        ok: true,
        out: "ok".into(),
        ast: tagged,
        runs,
        uses: u,
    }
}

/// One alias/layout variant for the canonicity check (C07): verdict, tagged AST JSON, the
/// serialized text, std hash of the AST, equality with the first variant, re-serialization.
fn scheme_of(w: &World, sch: usize) -> &wirefilter::Scheme {
    &w.schemes[sch - 1]
}

pub fn observe_canon(
    w: &World,
    sch: usize,
    max: u16,
    src: &str,
    first: &mut Option<wirefilter::FilterAst>,
) -> Value {
    use std::hash::{Hash, Hasher};
    let parser = w.parser(sch, max);
    let parsed = catch_unwind(AssertUnwindSafe(|| parser.parse(src).map_err(|e| e.to_string())));
    match parsed {
        Err(_) => json!({"src": src, "ok": false, "out": "panic"}),
        Ok(Err(_)) => json!({"src": src, "ok": false, "out": "err"}),
        Ok(Ok(ast)) => {
            let j = serde_json::to_value(&ast).unwrap_or(Value::Null);
            let text = serde_json::to_string(&ast).unwrap_or_default();
            let text2 = serde_json::to_string(&ast.clone()).unwrap_or_default();
            let mut h = std::collections::hash_map::DefaultHasher::new();
            ast.hash(&mut h);
            let hv = h.finish() as i64;
            let eq = match first {
                Some(f) => *f == ast,
                None => true,
            };
            if first.is_none() {
                *first = Some(ast);
            }
            // the C API route (default settings only): parse, serialize, hash, then compile - which consumes the
            // handle, the usual life of a parsed filter in a host program - and release the compiled filter
            let (chash, cok) = if max == 128 {
                let fs = wirefilter_ffi::Scheme::from(scheme_of(w, sch).clone());
                let r = wirefilter_ffi::wirefilter_parse_filter(&fs, src.as_ptr().cast(), src.len());
                match r.ast {
                    None => ("none".to_string(), false),
                    Some(a) => {
                        let sr = wirefilter_ffi::wirefilter_serialize_filter_to_json(&a);
                        let same_json = crate::ffi_bytes(sr.json.ptr as *const u8, sr.json.len) == text.as_bytes();
                        let hr = wirefilter_ffi::wirefilter_get_filter_hash(&a);
                        let ok = same_json && crate::ffi::c_hash_ok(text.as_bytes(), hr.hash);
                        let c = wirefilter_ffi::wirefilter_compile_filter(a);
                        if let Some(f) = c.filter {
                            wirefilter_ffi::wirefilter_free_compiled_filter(f);
                        }
                        (hr.hash.to_string(), ok)
                    }
                }
            } else {
                ("skipped".to_string(), true)
            };
            json!({"src": src, "ok": true, "out": "ok", "ast": tagjson::logical(&j),
                   "json": text.as_bytes().len() as u64, "jsontext": text, "hash": limbs(hv),
                   "eq": eq, "stable": text == text2, "chash": chash, "cok": cok})
        }
    }
}

pub fn json_depth(v: &Value) -> usize {
    match v {
        Value::Array(a) => 1 + a.iter().map(json_depth).max().unwrap_or(0),
        Value::Object(o) => 1 + o.values().map(json_depth).max().unwrap_or(0),
        _ => 0,
    }
}
