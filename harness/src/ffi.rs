//! C API (property C20): the exported `wirefilter_*` functions are called as Rust functions
//! from the rlib, side by side with the Rust API on a twin scheme; every call is recorded with
//! its status, whether its output equals the Rust API's, and the thread's last-error string
//! before and after.
use crate::gen::*;
use crate::mk::*;
use crate::model::*;
use rand::rngs::StdRng;
use rand::Rng;
use serde_json::{json, Value};
use std::ffi::CStr;
use std::panic::{catch_unwind, AssertUnwindSafe};
use wirefilter::{FunctionDefinition, FunctionDefinitionContext, FunctionParam, FunctionParamError, LhsValue, ParserSettings, Type};
use wirefilter_ffi as ffi;

/// function that panics on demand: in check_param (parse), compile, or when executed (match)
#[derive(Debug)]
pub struct Boom(pub &'static str);

impl FunctionDefinition for Boom {
    fn check_param(
        &self,
        _: &ParserSettings,
        _: &mut dyn ExactSizeIterator<Item = FunctionParam<'_>>,
        _: &FunctionParam<'_>,
        _: Option<&mut FunctionDefinitionContext>,
    ) -> Result<(), FunctionParamError> {
        if self.0 == "parse" {
            panic!("boom\0in check_param");
        }
        Ok(())
    }
    fn return_type(&self, _: &mut dyn ExactSizeIterator<Item = FunctionParam<'_>>, _: Option<&FunctionDefinitionContext>) -> Type {
        Type::Bool
    }
    fn arg_count(&self) -> (usize, Option<usize>) {
        (1, Some(0))
    }
    fn compile(
        &self,
        _: &mut dyn ExactSizeIterator<Item = FunctionParam<'_>>,
        _: Option<FunctionDefinitionContext>,
    ) -> wirefilter::CompiledFunction {
        if self.0 == "compile" {
            panic!("boom\0in compile");
        }
        let when = self.0;
        Box::new(move |args| {
            let _: Vec<_> = args.collect();
            if when == "match" {
                panic!("boom\0in match");
            }
            Some(LhsValue::Bool(true))
        })
    }
}


/// Oracle for `wirefilter_get_filter_hash`.  The statements (C07, C20) only say that the hash is a function of the
/// JSON (equal JSON, equal hash; the same for every spelling); the code documents it as the FNV-1a hash of the JSON
/// text.  The harness calibrates once, on three filters parsed first thing through the C API: if the documented
/// algorithm is in force, every later hash must be FNV-1a of the JSON (which catches any dependence on something else:
/// handle addresses, call history, memo tables); if the algorithm was replaced by another one - a change that keeps
/// the statements true - only functional consistency is demanded (the same JSON never gets two hashes).
pub fn c_hash_ok(json: &[u8], got: u64) -> bool {
    use std::collections::HashMap;
    use std::hash::Hasher;
    use std::sync::{Mutex, OnceLock};
    static IS_FNV: OnceLock<bool> = OnceLock::new();
    static SEEN: OnceLock<Mutex<HashMap<Vec<u8>, u64>>> = OnceLock::new();
    let fnv_of = |b: &[u8]| {
        let mut h = fnv::FnvHasher::default();
        h.write(b);
        h.finish()
    };
    let is_fnv = *IS_FNV.get_or_init(|| {
        let mut b = wirefilter::SchemeBuilder::new();
        b.add_field("calib.n", Type::Int).unwrap();
        b.add_field("calib.s", Type::Bytes).unwrap();
        let fs = ffi::Scheme::from(b.build());
        ["calib.n == 1", "calib.s == \"x\" or calib.n in {2 3..4}", "not (calib.n < 5 and calib.s contains \"ab\")"].iter().all(|t| {
            let r = ffi::wirefilter_parse_filter(&fs, t.as_ptr().cast(), t.len());
            match r.ast {
                None => false,
                Some(a) => {
                    let sr = ffi::wirefilter_serialize_filter_to_json(&a);
                    let j = crate::ffi_bytes(sr.json.ptr as *const u8, sr.json.len).to_vec();
                    let h = ffi::wirefilter_get_filter_hash(&a);
                    ffi::wirefilter_free_string(sr.json);
                    ffi::wirefilter_free_parsed_filter(a);
                    !j.is_empty() && h.hash == fnv_of(&j)
                }
            }
        })
    });
    let mut seen = SEEN.get_or_init(Default::default).lock().unwrap_or_else(|e| e.into_inner());
    let first = *seen.entry(json.to_vec()).or_insert(got);
    first == got && (!is_fnv || got == fnv_of(json))
}

pub fn last_error() -> Value {
    let p = ffi::wirefilter_get_last_error();
    if p.is_null() {
        json!({"null": true, "b": []})
    } else {
        let c = unsafe { CStr::from_ptr(p) };
        json!({"null": false, "b": c.to_bytes()})
    }
}

fn nul_sub(s: &str) -> Vec<u8> {
    s.bytes().map(|b| if b == 0 { 0x1a } else { b }).collect()
}

pub struct Session {
    pub spec: SchemeSpec,
    pub fscheme: Box<ffi::Scheme>,
    pub other: Box<ffi::Scheme>,
    pub rscheme: wirefilter::Scheme,
    pub fctx: Box<ffi::ExecutionContext<'static>>,
    pub octx: Box<ffi::ExecutionContext<'static>>,
    pub rctx: wirefilter::ExecutionContext<'static>,
    pub th: usize,
    pub seq: u64,
}

fn ctype(t: &Ty) -> ffi::CType {
    ffi::CType::from(t.to_engine())
}

fn add_extras(b: &mut wirefilter::SchemeBuilder) {
    for f in function_family() {
        add_func(b, &f).unwrap();
    }
    b.add_function("boom_parse", Boom("parse")).unwrap();
    b.add_function("boom_compile", Boom("compile")).unwrap();
    b.add_function("boom_match", Boom("match")).unwrap();
    b.add_list(Type::Int, SetList).unwrap();
}

impl Session {
    pub fn new(th: usize, events: &mut Vec<Value>) -> Session {
        ffi::panic::wirefilter_set_panic_catcher_hook();
        ffi::panic::wirefilter_enable_panic_catcher();
        let spec = SchemeSpec {
            fields: rich_fields(true),
            funcs: function_family(),
            lists: vec![Ty::Int, Ty::Ip, Ty::Bytes],
            listkinds: vec!["set".into(), "always".into(), "never".into()],
            nne: true,
        };
        // the C API builds the fields; functions and the harness list go in through the Rust side
        let mk_ffi = |events: Option<(&mut Vec<Value>, usize)>| -> Box<ffi::Scheme> {
            let mut b = ffi::wirefilter_create_scheme_builder();
            let mut ev = events;
            for f in &spec.fields {
                let before = last_error();
                let ok = ffi::wirefilter_add_type_field_to_scheme(&mut b, f.name.as_ptr().cast(), f.name.len(), ctype(&f.ty));
                if let Some((e, th)) = ev.as_mut() {
                    e.push(json!({"ev": "call", "th": *th, "fn": "add_type_field", "status": if ok { "ok" } else { "err" }, "rust_status": "ok",
                                  "same": ok, "le_before": before, "le_after": last_error(), "rust_err": {"have": false, "b": []}}));
                }
            }
            add_extras(&mut b);
            // built-in lists through the C API: always for Ip, never for Bytes; a second list for a type that has one
            // (also the harness list registered through the Rust side) must be refused with the Rust API's message
            let mut twin = wirefilter::SchemeBuilder::new();
            twin.add_list(Type::Int, SetList).unwrap();
            for (k, (always, t)) in [(true, Ty::Ip), (false, Ty::Bytes), (false, Ty::Ip), (true, Ty::Bytes), (true, Ty::Int), (false, Ty::Int)].into_iter().enumerate() {
                let before = last_error();
                let ok = if always { ffi::wirefilter_add_always_list_to_scheme(&mut b, ctype(&t)) } else { ffi::wirefilter_add_never_list_to_scheme(&mut b, ctype(&t)) };
                let rr = if always { twin.add_list(t.to_engine(), wirefilter::AlwaysList::default()) } else { twin.add_list(t.to_engine(), wirefilter::NeverList::default()) };
                let rerr = rr.as_ref().err().map(|e| nul_sub(&e.to_string()));
                if let Some((e, th)) = ev.as_mut() {
                    e.push(json!({"ev": "call", "th": *th, "fn": if always { "add_always_list" } else { "add_never_list" }, "status": if ok { "ok" } else { "err" },
                                  "rust_status": if rr.is_ok() { "ok" } else { "err" }, "same": ok == (k < 2), "le_before": before, "le_after": last_error(),
                                  "rust_err": {"have": !ok && rerr.is_some(), "b": if ok { vec![] } else { rerr.unwrap_or_default() }}}));
                }
            }
            ffi::wirefilter_build_scheme(b)
        };
        let fscheme = mk_ffi(Some((events, th)));
        let other = mk_ffi(None);
        let mut rb = wirefilter::SchemeBuilder::new();
        for f in &spec.fields {
            rb.add_optional_field(&f.name, f.ty.to_engine()).ok();
        }
        // the C API registers mandatory fields: mirror that
        let mut rb = wirefilter::SchemeBuilder::new();
        for f in &spec.fields {
            rb.add_field(&f.name, f.ty.to_engine()).unwrap();
        }
        add_extras(&mut rb);
        rb.add_list(Type::Ip, wirefilter::AlwaysList::default()).unwrap();
        rb.add_list(Type::Bytes, wirefilter::NeverList::default()).unwrap();
        let rscheme = rb.build();
        let fs: &'static ffi::Scheme = unsafe { &*(&*fscheme as *const ffi::Scheme) };
        let os: &'static ffi::Scheme = unsafe { &*(&*other as *const ffi::Scheme) };
        let rs: &'static wirefilter::Scheme = Box::leak(Box::new(rscheme.clone()));
        let fctx = ffi::wirefilter_create_execution_context(fs);
        let octx = ffi::wirefilter_create_execution_context(os);
        let rctx = wirefilter::ExecutionContext::new(rs);
        Session { spec, fscheme, other, rscheme, fctx, octx, rctx, th, seq: 0 }
    }

    fn ev(&mut self, f: &str, before: Value, status: &str, rust_status: &str, same: bool, rust_err: Option<String>, extra: Value) -> Value {
        self.seq += 1;
        let re = match rust_err {
            Some(t) => json!({"have": true, "b": nul_sub(&t)}),
            None => json!({"have": false, "b": []}),
        };
        json!({"ev": "call", "th": self.th, "seq": self.seq, "fn": f, "status": status, "rust_status": rust_status, "same": same,
               "le_before": before, "le_after": last_error(), "rust_err": re, "x": extra})
    }

    fn status(s: &ffi::Status) -> &'static str {
        match s {
            ffi::Status::Success => "ok",
            ffi::Status::Error => "err",
            ffi::Status::Panic => "panic",
        }
    }

    /// set every mandatory field (the C API declares all fields mandatory)
    pub fn fill(&mut self, r: &mut StdRng, events: &mut Vec<Value>) {
        let fields = self.spec.fields.clone();
        for f in &fields {
            let v = gen_val(r, &f.ty, 0);
            events.push(self.set_value(&f.name.clone().into_bytes(), &v));
        }
    }

    pub fn set_value(&mut self, name: &[u8], v: &Val) -> Value {
        let before = last_error();
        let np = name.as_ptr().cast();
        let nl = name.len();
        let (fname, ok) = match v {
            Val::Int { v } => ("add_int", ffi::wirefilter_add_int_value_to_execution_context(&mut self.fctx, np, nl, unlimbs(v))),
            Val::Bool { v } => ("add_bool", ffi::wirefilter_add_bool_value_to_execution_context(&mut self.fctx, np, nl, *v)),
            Val::Bytes { v } => {
                let leaked: &'static [u8] = Box::leak(v.clone().into_boxed_slice());
                ("add_bytes", ffi::wirefilter_add_bytes_value_to_execution_context(&mut self.fctx, np, nl, leaked.as_ptr(), leaked.len()))
            }
            Val::Ip { v } if v.len() == 4 => {
                let a: [u8; 4] = [v[0], v[1], v[2], v[3]];
                ("add_ipv4", ffi::wirefilter_add_ipv4_value_to_execution_context(&mut self.fctx, np, nl, &a))
            }
            Val::Ip { v } => {
                let mut a = [0u8; 16];
                a.copy_from_slice(v);
                ("add_ipv6", ffi::wirefilter_add_ipv6_value_to_execution_context(&mut self.fctx, np, nl, &a))
            }
            other => {
                let ev = other.to_engine().unwrap();
                let text: &'static str = Box::leak(serde_json::to_string(&ev).unwrap().into_boxed_str());
                ("add_json", ffi::wirefilter_add_json_value_to_execution_context(&mut self.fctx, np, nl, text.as_ptr(), text.len()))
            }
        };
        // Rust twin (the JSON setter's twin goes through the same type-directed JSON decoding)
        let is_json = fname == "add_json";
        let (rstat, rerr) = match std::str::from_utf8(name) {
            Err(e) => ("err", Some(e.to_string())),
            Ok(n) => {
                if is_json {
                    match self.rscheme.get_field(n) {
                        Err(e) => ("err", Some(e.to_string())),
                        Ok(f) => {
                            let text: &'static str = Box::leak(serde_json::to_string(&v.to_engine().unwrap()).unwrap().into_boxed_str());
                            let ty = wirefilter::GetType::get_type(&f);
                            match ty.deserialize_value(&mut serde_json::Deserializer::from_str(text)) {
                                Err(e) => ("err", Some(e.to_string())),
                                Ok(val) => match self.rctx.set_field_value_from_name(n, val) {
                                    Ok(_) => ("ok", None),
                                    Err(e) => ("err", Some(e.to_string())),
                                },
                            }
                        }
                    }
                } else {
                    match self.rctx.set_field_value_from_name(n, v.to_engine().unwrap()) {
                        Ok(_) => ("ok", None),
                        Err(e) => ("err", Some(e.to_string())),
                    }
                }
            }
        };
        // the JSON setter reports type errors through serde, with another text: only its presence is compared
        let rerr = if fname == "add_json" { None } else { rerr };
        let st = if ok { "ok" } else { "err" };
        self.ev(fname, before, st, rstat, (st == "ok") == (rstat == "ok"), if st == "err" { rerr } else { None }, json!({"name": name}))
    }

    pub fn parse(&mut self, text: &[u8], events: &mut Vec<Value>) -> Option<Box<ffi::FilterAst>> {
        let before = last_error();
        let res = ffi::wirefilter_parse_filter(&self.fscheme, text.as_ptr().cast(), text.len());
        let st = Self::status(&res.status);
        let (rstat, rerr, rjson): (&str, Option<String>, Option<String>) = match std::str::from_utf8(text) {
            Err(e) => ("err", Some(e.to_string()), None),
            Ok(t) => match catch_unwind(AssertUnwindSafe(|| self.rscheme.parse(t).map_err(|e| e.to_string()))) {
                Err(_) => ("panic", None, None),
                Ok(Err(e)) => ("err", Some(e), None),
                Ok(Ok(a)) => ("ok", None, Some(serde_json::to_string(&a).unwrap())),
            },
        };
        let pe = self.ev("parse", before, st, rstat, st == rstat, if st == "err" { rerr } else { None }, json!({"text": text}));
        events.push(pe);
        if let (Some(ast), Some(rj)) = (res.ast.as_ref(), rjson.as_ref()) {
            // serialization and hash through the C API vs the Rust API
            let b2 = last_error();
            let sr = ffi::wirefilter_serialize_filter_to_json(ast);
            let fj = crate::ffi_bytes(sr.json.ptr as *const u8, sr.json.len);
            let eq = fj == rj.as_bytes();
            let e2 = self.ev("serialize_filter", b2, Self::status(&sr.status), "ok", eq, None, json!({}));
            events.push(e2);
            let b2 = last_error();
            ffi::wirefilter_free_string(sr.json);
            let e2 = self.ev("free_string", b2, "ok", "ok", true, None, json!({}));
            events.push(e2);
            let b3 = last_error();
            let hr = ffi::wirefilter_get_filter_hash(ast);
            let eqh = c_hash_ok(rj.as_bytes(), hr.hash);
            let e3 = self.ev("filter_hash", b3, Self::status(&hr.status), "ok", eqh, None, json!({}));
            events.push(e3);
        }
        res.ast
    }

    pub fn uses(&mut self, ast: &ffi::FilterAst, text: &str, name: &[u8], events: &mut Vec<Value>) {
        for list in [false, true] {
            let before = last_error();
            let r = if list {
                ffi::wirefilter_filter_uses_list(ast, name.as_ptr().cast(), name.len())
            } else {
                ffi::wirefilter_filter_uses(ast, name.as_ptr().cast(), name.len())
            };
            let rast = self.rscheme.parse(text).unwrap();
            let (rstat, rused, rerr) = match std::str::from_utf8(name) {
                Err(e) => ("err", false, Some(e.to_string())),
                Ok(n) => match if list { rast.uses_list(n) } else { rast.uses(n) } {
                    Ok(u) => ("ok", u, None),
                    Err(e) => ("err", false, Some(e.to_string())),
                },
            };
            let st = Self::status(&r.status);
            let e = self.ev(if list { "uses_list" } else { "uses" }, before, st, rstat, st == rstat && r.used == rused, if st == "err" { rerr } else { None }, json!({"name": name}));
            events.push(e);
        }
    }

    pub fn compile_and_match(&mut self, ast: Box<ffi::FilterAst>, text: &str, wrong_ctx: bool, events: &mut Vec<Value>) {
        let before = last_error();
        let cr = ffi::wirefilter_compile_filter(ast);
        let st = Self::status(&cr.status);
        let rc = catch_unwind(AssertUnwindSafe(|| self.rscheme.parse(text).unwrap().compile()));
        let rstat = if rc.is_ok() { "ok" } else { "panic" };
        let e = self.ev("compile", before, st, rstat, st == rstat, None, json!({"text": text}));
        events.push(e);
        if let (Some(f), Ok(rf)) = (cr.filter.as_ref(), rc.as_ref()) {
            let before = last_error();
            let mr = if wrong_ctx { ffi::wirefilter_match(f, &self.octx) } else { ffi::wirefilter_match(f, &self.fctx) };
            let st = Self::status(&mr.status);
            let (rstat, rres, rerr): (&str, bool, Option<String>) = if wrong_ctx {
                ("err", false, Some(wirefilter::SchemeMismatchError.to_string()))
            } else {
                match catch_unwind(AssertUnwindSafe(|| rf.execute(&self.rctx))) {
                    Err(_) => ("panic", false, None),
                    Ok(Err(e)) => ("err", false, Some(e.to_string())),
                    Ok(Ok(b)) => ("ok", b, None),
                }
            };
            let e = self.ev("match", before, st, rstat, st == rstat && (st != "ok" || mr.matched == rres), if st == "err" { rerr } else { None }, json!({"text": text, "wrong_ctx": wrong_ctx}));
            events.push(e);
            // a second match of the same compiled filter gives the same answer; then the filter is released
            if !wrong_ctx && st == "ok" {
                let before = last_error();
                let m2 = ffi::wirefilter_match(f, &self.fctx);
                let e = self.ev("match", before, Self::status(&m2.status), "ok", m2.matched == rres, None, json!({"text": text, "again": true}));
                events.push(e);
            }
        }
        if let Some(f) = cr.filter {
            let before = last_error();
            ffi::wirefilter_free_compiled_filter(f);
            let e = self.ev("free_compiled_filter", before, "ok", "ok", true, None, json!({}));
            events.push(e);
        }
    }

    pub fn ctx_json(&mut self, events: &mut Vec<Value>) -> String {
        let before = last_error();
        let sr = ffi::wirefilter_serialize_execution_context_to_json(&mut self.fctx);
        let fj = crate::ffi_bytes(sr.json.ptr as *const u8, sr.json.len).to_vec();
        let rj = serde_json::to_string(&self.rctx).unwrap();
        let e = self.ev("serialize_ctx", before, Self::status(&sr.status), "ok", fj == rj.as_bytes(), None, json!({}));
        events.push(e);
        let before = last_error();
        ffi::wirefilter_free_string(sr.json);
        let e = self.ev("free_string", before, "ok", "ok", true, None, json!({}));
        events.push(e);
        rj
    }

    pub fn ctx_from_json(&mut self, text: &str, events: &mut Vec<Value>) {
        let before = last_error();
        let leaked: &'static str = Box::leak(text.to_string().into_boxed_str());
        // the C caller owns its buffer: it is overwritten and released as soon as the call returns
        let ok = {
            let mut buf: Vec<u8> = text.as_bytes().to_vec();
            let ok = ffi::wirefilter_deserialize_json_to_execution_context(&mut self.fctx, buf.as_ptr(), buf.len());
            buf.iter_mut().for_each(|b| *b = b'#');
            std::mem::forget(buf); // overwritten, not freed (see serde_ctx::feed)
            ok
        };
        use serde::de::DeserializeSeed;
        let mut de = serde_json::Deserializer::from_reader(leaked.as_bytes());
        let rr = (&mut self.rctx).deserialize(&mut de);
        let (rstat, rerr) = match rr {
            Ok(()) => ("ok", None),
            Err(e) => ("err", Some(e.to_string())),
        };
        let st = if ok { "ok" } else { "err" };
        let e = self.ev("deserialize_ctx", before, st, rstat, st == rstat, if st == "err" { rerr } else { None }, json!({"text": text}));
        events.push(e);
    }

    pub fn free_ast(&mut self, ast: Box<ffi::FilterAst>, events: &mut Vec<Value>) {
        let before = last_error();
        ffi::wirefilter_free_parsed_filter(ast);
        let e = self.ev("free_parsed_filter", before, "ok", "ok", true, None, json!({}));
        events.push(e);
    }

    /// the catcher switched off and on again on this thread: settings calls never fail and leave the last error alone
    pub fn toggle_catcher(&mut self, events: &mut Vec<Value>) {
        for f in ["disable_panic_catcher", "enable_panic_catcher"] {
            let before = last_error();
            if f == "disable_panic_catcher" { ffi::panic::wirefilter_disable_panic_catcher() } else { ffi::panic::wirefilter_enable_panic_catcher() };
            let e = self.ev(f, before, "ok", "ok", true, None, json!({}));
            events.push(e);
        }
    }

    /// version string: a static, non-empty, valid UTF-8 text, the same on every call
    pub fn version(&mut self, events: &mut Vec<Value>) {
        let before = last_error();
        let a = ffi::wirefilter_get_version();
        let b = ffi::wirefilter_get_version();
        let ta = crate::ffi_bytes(a.ptr as *const u8, a.len).to_vec();
        let tb = crate::ffi_bytes(b.ptr as *const u8, b.len).to_vec();
        let same = !ta.is_empty() && ta == tb && std::str::from_utf8(&ta).map(|t| t.split('.').count() >= 2 && t.chars().next().unwrap().is_ascii_digit()).unwrap_or(false);
        let e = self.ev("get_version", before, "ok", "ok", same, None, json!({"v": ta}));
        events.push(e);
    }

    pub fn clear(&mut self, events: &mut Vec<Value>) {
        let before = last_error();
        ffi::wirefilter_clear_last_error();
        let e = self.ev("clear", before, "ok", "ok", true, None, json!({}));
        events.push(e);
    }
}

/// one random session on thread `th`
pub fn random_session(r: &mut StdRng, th: usize, steps: usize) -> Vec<Value> {
    let mut events = Vec::new();
    let mut s = Session::new(th, &mut events);
    s.fill(r, &mut events);
    let spec = s.spec.clone();
    for _ in 0..steps {
        match r.random_range(0..14) {
            0..=4 => {
                // parse a random (possibly mutated) filter, then serialize/hash/uses/compile/match
                let mut g = FilterGen { r, spec: &spec, max_depth: 2, hints: vec![], call_pct: 25, list_pct: 15, set_pct: 15, set_max: 4, nest_pct: 30, badname_pct: 0, re_pct: 40 };
                let mut ts = g.filter();
                if r.random_range(0..3) == 0 {
                    ts = mutate(r, &ts, &spec);
                }
                let text = random_layout(r, &ts);
                if let Some(ast) = s.parse(text.as_bytes(), &mut events) {
                    let names: [&[u8]; 6] = [b"i", b"s", b"nosuch", b"\xff\xfe", b"i\x00", b"\x00"];
                    let nm = names[r.random_range(0..6)];
                    s.uses(&ast, &text, nm, &mut events);
                    let wrong = r.random_range(0..6) == 0;
                    if r.random_range(0..7) == 0 {
                        s.free_ast(ast, &mut events);
                    } else {
                        s.compile_and_match(ast, &text, wrong, &mut events);
                    }
                }
            }
            5 => {
                // error inputs: NUL inside, invalid UTF-8, garbage
                let inputs: [&[u8]; 12] = [b"i == 1 \x00", b"s == \"a\x00b\" oops", b"\xff\xfe == 1", b"i ==", b"nosuch == 1", b"s == \"\xc3\x28\"",
                                           b"i == 1\x00", b"i == 1 ||\n\x00i == 2", b"\x00", b"i == 1 and\n\x00\x00", b"i == 1 \x00 and \x00 1", b"s == \"\x00a\x00\" x"];
                let t = inputs[r.random_range(0..12)];
                let _ = s.parse(t, &mut events);
            }
            6 => {
                // panics under the catcher: in parse, compile and match (sometimes right after the catcher was switched
                // off and on again on this thread)
                if r.random_range(0..2) == 0 {
                    s.toggle_catcher(&mut events);
                }
                for text in ["boom_parse(i)", "boom_compile(i)", "boom_match(i)"] {
                    if let Some(ast) = s.parse(text.as_bytes(), &mut events) {
                        s.compile_and_match(ast, text, false, &mut events);
                    }
                }
            }
            7 | 8 => {
                // typed setters: right type, wrong type, unknown field, non-UTF-8 name
                let f = &spec.fields[r.random_range(0..spec.fields.len())];
                let v = match r.random_range(0..4) {
                    0 => crate::hist::wrong_typed(r, &f.ty),
                    _ => gen_val(r, &f.ty, 0),
                };
                let name: Vec<u8> = match r.random_range(0..8) {
                    0 => b"nosuch".to_vec(),
                    1 => vec![0xff, 0xfe],
                    _ => f.name.clone().into_bytes(),
                };
                let e = s.set_value(&name, &v);
                events.push(e);
            }
            9 => {
                let j = s.ctx_json(&mut events);
                if r.random_range(0..2) == 0 {
                    s.ctx_from_json(&j, &mut events);
                } else {
                    // a document that names only some of the fields merges into the existing state
                    let part = match serde_json::from_str::<serde_json::Value>(&j) {
                        Ok(serde_json::Value::Object(m)) => {
                            let keep: serde_json::Map<String, serde_json::Value> =
                                m.into_iter().filter(|(k, _)| k != "$lists").enumerate().filter(|(i, _)| i % 2 == 0).map(|(_, kv)| kv).collect();
                            serde_json::Value::Object(keep).to_string()
                        }
                        _ => "{}".to_string(),
                    };
                    s.ctx_from_json(&part, &mut events);
                }
                let _ = s.ctx_json(&mut events);
            }
            10 => {
                let bad = ["{\"i\": \"x\"}", "{\"nosuch\": 1}", "[1,2", "{\"ai\": [1, \"a\"]}"];
                s.ctx_from_json(bad[r.random_range(0..4)], &mut events);
            }
            11 => s.clear(&mut events),
            12 => {
                if r.random_range(0..3) == 0 { s.version(&mut events) } else {
                    let before = last_error();
                    let e = s.ev("get_last_error", before, "ok", "ok", true, None, json!({}));
                    events.push(e);
                }
            }
            _ => {
                let before = last_error();
                let e = s.ev("get_last_error", before, "ok", "ok", true, None, json!({}));
                events.push(e);
            }
        }
    }
    events
}

/// spec -> impl for the last-error protocol: a call history produced by TLC (thread, call kind,
/// failure text, expected last-error state of every thread after the call) is executed on real
/// threads in lock-step; after every call each thread reads its own last error.
pub fn replay_ffiseq(v: &Value) -> (Value, Vec<String>) {
    use std::sync::{Arc, Barrier};
    let hist: Vec<Value> = v["hist"].as_array().cloned().unwrap_or_default();
    let nth = hist.iter().map(|h| h["after"].as_array().map(|a| a.len()).unwrap_or(1)).max().unwrap_or(1);
    let barrier = Arc::new(Barrier::new(nth));
    let hist = Arc::new(hist);
    let mut handles = Vec::new();
    for t in 1..=nth {
        let barrier = barrier.clone();
        let hist = hist.clone();
        handles.push(std::thread::spawn(move || {
            let mut b = ffi::wirefilter_create_scheme_builder();
            let name = "i";
            ffi::wirefilter_add_type_field_to_scheme(&mut b, name.as_ptr().cast(), name.len(), ffi::CType::from(Type::Int));
            let scheme = ffi::wirefilter_build_scheme(b);
            let mut snaps = Vec::new();
            let mut wrong: Vec<String> = Vec::new();
            for (k, h) in hist.iter().enumerate() {
                if h["th"].as_u64().unwrap() as usize == t {
                    match h["call"].as_str().unwrap() {
                        "ok" => {
                            let src = "i == 1";
                            let r = ffi::wirefilter_parse_filter(&scheme, src.as_ptr().cast(), src.len());
                            if r.ast.is_none() {
                                wrong.push(format!("call {}: parsing `i == 1` failed", k + 1));
                            }
                        }
                        "fail" => {
                            let mut src: Vec<u8> = b"i == 1 ".to_vec();
                            let x: Vec<u8> = serde_json::from_value(h["text"].clone()).unwrap();
                            src.extend_from_slice(&x);
                            let r = ffi::wirefilter_parse_filter(&scheme, src.as_ptr().cast(), src.len());
                            if r.ast.is_some() {
                                wrong.push(format!("call {}: the C API parsed {:?}, which the Rust API rejects", k + 1, String::from_utf8_lossy(&src)));
                            }
                        }
                        _ => ffi::wirefilter_clear_last_error(),
                    }
                }
                barrier.wait();
                snaps.push(last_error());
                barrier.wait();
            }
            (snaps, wrong)
        }));
    }
    let mut diffs = Vec::new();
    let mut logs: Vec<Vec<Value>> = Vec::new();
    for h in handles {
        let (snaps, wrong) = h.join().unwrap();
        logs.push(snaps);
        diffs.extend(wrong);
    }
    for (k, h) in hist.iter().enumerate() {
        for t in 0..nth {
            let exp = &h["after"][t];
            let got = &logs[t][k];
            if exp["null"] != got["null"] {
                diffs.push(format!("after call {} ({} on thread {}): thread {} last error null={} expected null={}", k + 1, h["call"], h["th"], t + 1, got["null"], exp["null"]));
                continue;
            }
            if got["null"] == false {
                let gb: Vec<u8> = serde_json::from_value(got["b"].clone()).unwrap();
                let eb: Vec<u8> = serde_json::from_value(exp["b"].clone()).unwrap();
                if gb.is_empty() || gb.contains(&0) {
                    diffs.push(format!("after call {}: thread {} last error empty or with interior NUL", k + 1, t + 1));
                }
                // the message echoes the offending input: the substituted text must occur in it
                if !gb.windows(eb.len().max(1)).any(|w| w == &eb[..]) {
                    diffs.push(format!("after call {}: thread {} last error {:?} does not contain the expected text {:?}", k + 1, t + 1, String::from_utf8_lossy(&gb), eb));
                }
            }
        }
    }
    (json!(logs), diffs)
}

/// spec -> impl for WfFfiCatch: a history of catcher switches, succeeding / failing calls and panicking user
/// functions on several threads, executed in lock-step through the C API.  Runs in a child process (a panic that
/// is not caught aborts the process; the parent records that as the observation).
pub fn replay_fficatch(v: &Value) -> (Value, Vec<String>) {
    use std::sync::{Arc, Barrier};
    let hist: Vec<Value> = v["hist"].as_array().cloned().unwrap_or_default();
    let nth = hist.iter().map(|h| h["after"].as_array().map(|a| a.len()).unwrap_or(1)).max().unwrap_or(1);
    let barrier = Arc::new(Barrier::new(nth));
    let hist = Arc::new(hist);
    let mut handles = Vec::new();
    for t in 1..=nth {
        let barrier = barrier.clone();
        let hist = hist.clone();
        handles.push(std::thread::spawn(move || {
            let mut b = ffi::wirefilter_create_scheme_builder();
            let name = "i";
            ffi::wirefilter_add_type_field_to_scheme(&mut b, name.as_ptr().cast(), name.len(), ffi::CType::from(Type::Int));
            b.add_function("boom_parse", Boom("parse")).unwrap();
            b.add_function("boom_compile", Boom("compile")).unwrap();
            b.add_function("boom_match", Boom("match")).unwrap();
            let scheme = ffi::wirefilter_build_scheme(b);
            let sref: &'static ffi::Scheme = unsafe { &*(&*scheme as *const ffi::Scheme) };
            let mut ctx = ffi::wirefilter_create_execution_context(sref);
            ffi::wirefilter_add_int_value_to_execution_context(&mut ctx, name.as_ptr().cast(), name.len(), 1);
            ffi::wirefilter_clear_last_error();
            let mut snaps = Vec::new();
            let mut wrong: Vec<String> = Vec::new();
            let st = |s: &ffi::Status| match s { ffi::Status::Success => "ok", ffi::Status::Error => "err", ffi::Status::Panic => "panic" };
            for (k, h) in hist.iter().enumerate() {
                if h["th"].as_u64().unwrap() as usize == t {
                    let exp = h["status"].as_str().unwrap().to_string();
                    let got: String = match (h["call"].as_str().unwrap(), h["site"].as_str().unwrap_or("")) {
                        ("enable", _) => { ffi::panic::wirefilter_enable_panic_catcher(); "ok".into() }
                        ("disable", _) => { ffi::panic::wirefilter_disable_panic_catcher(); "ok".into() }
                        ("clear", _) => { ffi::wirefilter_clear_last_error(); "ok".into() }
                        ("ok", _) => {
                            let src = "i == 1";
                            let r = ffi::wirefilter_parse_filter(&scheme, src.as_ptr().cast(), src.len());
                            match r.ast {
                                None => st(&r.status).into(),
                                Some(a) => {
                                    let c = ffi::wirefilter_compile_filter(a);
                                    match c.filter.as_ref() {
                                        None => st(&c.status).into(),
                                        Some(f) => {
                                            let m = ffi::wirefilter_match(f, &ctx);
                                            if !m.matched { wrong.push(format!("call {}: `i == 1` did not match a context with i = 1", k + 1)); }
                                            st(&m.status).into()
                                        }
                                    }
                                }
                            }
                        }
                        ("fail", _) => {
                            let src = "i == ";
                            let r = ffi::wirefilter_parse_filter(&scheme, src.as_ptr().cast(), src.len());
                            if r.ast.is_some() { "ok".into() } else { st(&r.status).into() }
                        }
                        ("boom", site) => {
                            let src = format!("boom_{site}(i)");
                            let r = ffi::wirefilter_parse_filter(&scheme, src.as_ptr().cast(), src.len());
                            if site == "parse" {
                                if r.ast.is_some() { "ok".into() } else { st(&r.status).into() }
                            } else {
                                match r.ast {
                                    None => format!("parse-{}", st(&r.status)),
                                    Some(a) => {
                                        let c = ffi::wirefilter_compile_filter(a);
                                        if site == "compile" {
                                            if c.filter.is_some() { "ok".into() } else { st(&c.status).into() }
                                        } else {
                                            match c.filter.as_ref() {
                                                None => format!("compile-{}", st(&c.status)),
                                                Some(f) => {
                                                    let m = ffi::wirefilter_match(f, &ctx);
                                                    if m.matched { wrong.push(format!("call {}: a match that panicked reports matched = true", k + 1)); }
                                                    st(&m.status).into()
                                                }
                                            }
                                        }
                                    }
                                }
                            }
                        }
                        _ => "?".into(),
                    };
                    if got != exp {
                        wrong.push(format!("call {} ({} {} on thread {}): status {} expected {}", k + 1, h["call"], h["site"], t, got, exp));
                    }
                }
                barrier.wait();
                snaps.push(last_error());
                barrier.wait();
            }
            (snaps, wrong)
        }));
    }
    let mut diffs = Vec::new();
    let mut logs: Vec<Vec<Value>> = Vec::new();
    for h in handles {
        match h.join() {
            Ok((snaps, wrong)) => { logs.push(snaps); diffs.extend(wrong); }
            Err(_) => { logs.push(vec![]); diffs.push("a panic unwound out of a C API call into the calling thread".to_string()); }
        }
    }
    for (k, h) in hist.iter().enumerate() {
        for t in 0..nth {
            let exp = &h["after"][t];
            let Some(got) = logs[t].get(k) else { continue };
            let kind = exp["k"].as_str().unwrap_or("null");
            if (kind == "null") != (got["null"] == true) {
                diffs.push(format!("after call {} ({} on thread {}): thread {} last error null={} expected {}", k + 1, h["call"], h["th"], t + 1, got["null"], kind));
                continue;
            }
            if kind != "null" {
                let gb: Vec<u8> = serde_json::from_value(got["b"].clone()).unwrap_or_default();
                if gb.is_empty() || gb.contains(&0) {
                    diffs.push(format!("after call {}: thread {} last error empty or with interior NUL", k + 1, t + 1));
                }
                let text = String::from_utf8_lossy(&gb).to_string();
                let want = match (kind, exp["site"].as_str().unwrap_or("")) {
                    ("panic", "parse") => "boom\x1ain check_param",
                    ("panic", "compile") => "boom\x1ain compile",
                    ("panic", "match") => "boom\x1ain match",
                    _ => "",
                };
                if kind == "panic" && !text.contains(want) {
                    diffs.push(format!("after call {}: thread {} last error {:?} does not carry the panic message {:?}", k + 1, t + 1, text, want));
                }
                if kind == "err" && text.contains("boom") {
                    diffs.push(format!("after call {}: thread {} last error {:?} is a panic text, an error text was expected", k + 1, t + 1, text));
                }
            }
        }
    }
    (json!(logs), diffs)
}
