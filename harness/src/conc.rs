//! Concurrent execution (property C18): compile a set of filters once, execute them from T
//! threads released together by a barrier on shared and per-thread contexts, many rounds;
//! every thread reports, per (filter, context), the set of distinct results it observed.
use crate::gen::*;
use crate::lang::*;
use crate::mk::*;
use crate::model::*;
use rand::Rng;
use serde_json::{json, Value};
use std::sync::{Arc, Barrier};

pub struct Plan {
    pub specs: Vec<SchemeSpec>,
    pub ctxs: Vec<CtxSpec>,
    pub filters: Vec<(usize, Vec<Tok>, String)>, // scheme id, tokens, source
}

pub fn plan(seed: u64, nf: usize, nc: usize) -> Plan {
    let mut r = rng_from(seed);
    let specs = vec![rich_scheme(true, true, true, &[("set", Ty::Int), ("set", Ty::Bytes), ("always", Ty::Ip)])];
    let mut ctxs = Vec::new();
    for _ in 0..nc {
        ctxs.push(gen_ctx(&mut r, 1, &specs[0]));
    }
    // make the scalar fields differ between contexts in a way that flips set membership
    let ivals: [i64; 5] = [1, 2, 5, 100, 7];
    // "ab" and "ba" have the same length (and so do their buffers) but opposite verdicts for most pattern filters
    let svals: [&[u8]; 5] = [b"ab", b"ba", b"xxabxx", b"", b"aab"];
    for (k, c) in ctxs.iter_mut().enumerate() {
        c.vals[0] = Val::int(ivals[k % 5]);
        c.vals[1] = Val::int(ivals[(k + 2) % 5]);
        c.vals[2] = Val::bytes(svals[k % 5]);
        c.vals[4] = Val::Ip { v: vec![10, 0, 0, (k % 5) as u8] };
        c.vals[8] = Val::Arr { e: Ty::Int, v: vec![Val::int(ivals[k % 5]), Val::int(ivals[(k + 1) % 5])] };
        // two contexts out of three hold the same value of j, but the named sets of their list matchers differ:
        // list state belongs to the context, not to the compiled filter
        c.vals[1] = Val::int(ivals[k % 2]);
        c.lists[0] = MatcherSpec {
            kind: "set".into(),
            sets: vec![NamedSet { name: b"m".to_vec(), vals: if k % 3 == 0 { vec![Val::int(1), Val::int(2)] } else if k % 3 == 1 { vec![Val::int(100)] } else { vec![] } }],
        };
        c.lists[1] = MatcherSpec {
            kind: "set".into(),
            sets: vec![NamedSet { name: b"m".to_vec(), vals: if k % 2 == 0 { vec![Val::bytes(svals[k % 5])] } else { vec![Val::bytes(b"zz")] } }],
        };
    }
    // two sparse contexts that differ only in the contents of one equally long byte string: built and dropped in
    // turn they receive the same memory from the allocator (the recycled-buffer phase uses them)
    for v in [&b"ab"[..], &b"ba"[..]] {
        let mut c = ctxs[0].clone();
        for x in c.vals.iter_mut() {
            *x = Val::nil();
        }
        c.vals[2] = Val::bytes(v);
        for m in c.lists.iter_mut() {
            m.sets.clear(); // as in a context that nobody configured
        }
        ctxs.push(c);
    }
    let w = World::new(specs.clone(), ctxs.clone());
    let id = |n: &str| Tok::Id { name: n.into() };
    let int = |x: i64| Tok::Int { v: limbs(x), txt: x.to_string() };
    let q = |b: &[u8]| Tok::Bytes { v: b.to_vec(), form: "q".into(), txt: format!("\"{}\"", String::from_utf8_lossy(b)) };
    let lst = |n: &str| Tok::List { name: n.as_bytes().to_vec(), valid: true, txt: format!("${n}") };
    // a+b : true for "ab", "xxabxx", "aab"; false for "b", ""
    let re_ab = json!({"k": "cat", "a": {"k": "plus", "a": {"k": "lit", "c": 97}}, "b": {"k": "lit", "c": 98}});
    let re_tok = regex_tok(&mut r, re_ab, "none");
    let re_anch = regex_tok(&mut r, json!({"k": "cat", "a": {"k": "bol"}, "b": {"k": "cat", "a": {"k": "plus", "a": {"k": "lit", "c": 97}}, "b": {"k": "lit", "c": 98}}}), "none");
    let wild = |p: &[u8]| Tok::Wild { v: p.to_vec(), form: "q".into(), txt: format!("\"{}\"", String::from_utf8_lossy(p)) };
    let fixed: Vec<Vec<Tok>> = vec![
        vec![id("j"), Tok::In, lst("m")],
        vec![id("s"), Tok::In, lst("m")],
        vec![Tok::Quant { v: "any".into() }, Tok::Lp, id("ai"), Tok::Lb, Tok::Star, Tok::Rb, Tok::In, lst("m"), Tok::Rp],
        vec![id("s"), Tok::Bop { v: "matches".into(), a: 0 }, re_tok],
        vec![id("s"), Tok::Bop { v: "matches".into(), a: 1 }, re_anch],
        vec![id("s"), Tok::Bop { v: "wildcard".into(), a: 0 }, wild(b"*AB*")],
        vec![id("s"), Tok::Bop { v: "strict wildcard".into(), a: 0 }, wild(b"*ab")],
        vec![id("i"), Tok::In, Tok::Lbr, int(1), Tok::Irange { lo: limbs(5), hi: limbs(9), txt: "5..9".into() }, int(100), Tok::Rbr],
        vec![Tok::Quant { v: "any".into() }, Tok::Lp, id("ai"), Tok::Lb, Tok::Star, Tok::Rb, Tok::In, Tok::Lbr, int(2), int(7), Tok::Rbr, Tok::Rp],
        vec![id("j"), Tok::In, Tok::Lbr, Tok::Irange { lo: limbs(0), hi: limbs(4), txt: "0..4".into() }, Tok::Rbr, Tok::Lop { v: "xor".into(), a: 0 },
             id("i"), Tok::In, Tok::Lbr, int(7), int(2), Tok::Rbr],
        vec![id("s"), Tok::Bop { v: "contains".into(), a: 0 }, q(b"ab")],
        vec![id("s"), Tok::In, Tok::Lbr, q(b"ab"), q(b"b"), Tok::Rbr],
        vec![id("ip"), Tok::In, Tok::Lbr, Tok::Cidr { v: vec![10, 0, 0, 0], len: 31, txt: "10.0.0.0/31".into() },
             Tok::Ip { v: vec![10, 0, 0, 4], txt: "10.0.0.4".into() }, Tok::Rbr],
        vec![id("i"), Tok::Band { a: 1 }, int(4)],
        vec![id("blen"), Tok::Lp, id("s"), Tok::Rp, Tok::Ord { v: "ge".into(), a: 1 }, int(3)],
    ];
    let mut filters = Vec::new();
    for ts in fixed {
        let src = render(&ts);
        if w.schemes[0].parse(&src).is_ok() {
            filters.push((1, ts, src));
        }
    }
    let nf = nf + filters.len();
    let mut hints = Vec::new();
    for c in &ctxs {
        crate::collect_hints(c, &mut hints);
    }
    let mut tries = 0;
    while filters.len() < nf && tries < nf * 50 {
        tries += 1;
        let k = filters.len();
        let mut g = FilterGen {
            r: &mut r,
            spec: &specs[0],
            max_depth: 3,
            hints: hints.clone(),
            // rotate the emphasis: regex/wildcard, contains, lists, map-each, calls
            call_pct: if k % 5 == 4 { 70 } else { 20 },
            list_pct: if k % 5 == 2 { 60 } else { 10 },
            set_pct: if k % 5 == 1 { 85 } else { 15 },
            set_max: 6,
            nest_pct: 35,
            badname_pct: 0,
            re_pct: if k % 5 == 0 { 100 } else { 40 },
        };
        let ts = g.filter();
        let src = render(&ts);
        if w.schemes[0].parse(&src).is_ok() {
            filters.push((1, ts, src));
        }
    }
    Plan { specs, ctxs, filters }
}

/// one run with `threads` threads and `rounds` rounds; appends events
pub fn run(p: &Plan, threads: usize, rounds: usize, simd_expected: bool, id0: &mut u64, out: &mut Vec<Value>) {
    let w = World::new(p.specs.clone(), p.ctxs.clone());
    let scheme = &w.schemes[0];
    let filters: Vec<wirefilter::Filter> = p.filters.iter().map(|(_, _, s)| scheme.parse(s).unwrap().compile()).collect();
    let shared: Vec<wirefilter::ExecutionContext<'static>> = p.ctxs.iter().map(|c| build_ctx(scheme, &p.specs[0], c)).collect();
    let filters = Arc::new(filters);
    let shared = Arc::new(shared);
    let barrier = Arc::new(Barrier::new(threads));
    let nf = filters.len();
    let nc = shared.len();
    let results: Vec<Vec<(bool, bool, bool)>> = std::thread::scope(|s| {
        let mut hs = Vec::new();
        for t in 0..threads {
            let filters = filters.clone();
            let shared = shared.clone();
            let barrier = barrier.clone();
            let spec = &p.specs[0];
            let ctxspecs = &p.ctxs;
            let scheme = scheme;
            hs.push(s.spawn(move || {
                // odd threads use their own copies of the contexts, even threads the shared ones
                let own: Vec<wirefilter::ExecutionContext<'static>> = if t % 2 == 1 {
                    ctxspecs.iter().map(|c| build_ctx(scheme, spec, c)).collect()
                } else {
                    vec![]
                };
                let mut seen = vec![(false, false, false); nf * nc]; // (saw true, saw false, saw panic)
                barrier.wait();
                for round in 0..rounds {
                    for k in 0..nf * nc {
                        // vary the order per thread and round
                        let k = (k * 7 + t * 13 + round * 3) % (nf * nc);
                        let (f, c) = (k / nc, k % nc);
                        let ctx = if t % 2 == 1 { &own[c] } else { &shared[c] };
                        match std::panic::catch_unwind(std::panic::AssertUnwindSafe(|| filters[f].execute(ctx))) {
                            Ok(Ok(true)) => seen[k].0 = true,
                            Ok(Ok(false)) => seen[k].1 = true,
                            _ => seen[k].2 = true,
                        }
                    }
                }
                // hammer phase: all threads execute one filter at a time, each cycling through the
                // contexts from a different offset, so that the same compiled filter runs concurrently
                // on different values
                let hammer = rounds * 50;
                for f in 0..nf {
                    barrier.wait();
                    for i in 0..hammer {
                        let c = (i + t) % nc;
                        let k = f * nc + c;
                        let ctx = if t % 2 == 1 { &own[c] } else { &shared[c] };
                        match std::panic::catch_unwind(std::panic::AssertUnwindSafe(|| filters[f].execute(ctx))) {
                            Ok(Ok(true)) => seen[k].0 = true,
                            Ok(Ok(false)) => seen[k].1 = true,
                            _ => seen[k].2 = true,
                        }
                    }
                }
                seen
            }));
        }
        hs.into_iter().map(|h| h.join().unwrap()).collect()
    });
    let simd = wirefilter::verif::simd_active();
    for (t, seen) in results.iter().enumerate() {
        for k in 0..nf * nc {
            let (f, c) = (k / nc, k % nc);
            let mut rs: Vec<Value> = Vec::new();
            if seen[k].0 {
                rs.push(json!(true));
            }
            if seen[k].1 {
                rs.push(json!(false));
            }
            if seen[k].2 {
                rs = vec![json!(true), json!(false), json!(true)]; // a panic: never a singleton
            }
            out.push(json!({"ev": "conc", "id": *id0, "th": t + 1, "threads": threads, "rounds": rounds, "f": f + 1, "c": c + 1,
                            "results": rs, "simd": simd, "simd_expected": simd_expected}));
            *id0 += 1;
        }
    }
    // recycled buffers: contexts are built, used once and dropped, alternating between two contexts whose values
    // have equal sizes, so that the allocator hands the same memory to different contents; a long-lived filter
    // must not remember anything about memory it has seen
    {
        // one request buffer, overwritten between uses; each context borrows its only value from it
        let mut buf: Vec<u8> = vec![0u8; 2];
        let sfield = scheme.get_field("s").unwrap();
        for _ in 0..60 {
            for c in (nc - 2)..nc {
                let bytes: Vec<u8> = match &p.ctxs[c].vals[2] {
                    Val::Bytes { v } => v.clone(),
                    _ => vec![0, 0],
                };
                buf.copy_from_slice(&bytes);
                let mut fresh = wirefilter::ExecutionContext::<()>::new(scheme);
                fresh.set_field_value(sfield, &buf[..]).unwrap();
                for f in 0..nf {
                    let r = std::panic::catch_unwind(std::panic::AssertUnwindSafe(|| filters[f].execute(&fresh)));
                    let rs = match r {
                        Ok(Ok(b)) => vec![json!(b)],
                        _ => vec![json!(true), json!(false), json!(true)],
                    };
                    out.push(json!({"ev": "conc", "id": *id0, "th": 0, "threads": threads, "rounds": 1, "f": f + 1, "c": c + 1,
                                    "results": rs, "simd": simd, "simd_expected": simd_expected}));
                    *id0 += 1;
                }
                drop(fresh);
            }
        }
    }
    // histories over mandatory fields: a long-lived filter moves between contexts, some of which leave mandatory
    // fields unset; the outcome (true / false / panic) of a (filter, context) pair must be the one a fresh
    // compilation shows on its first execution, at every point of the history and on every thread
    {
        let mspec = scalar_scheme(false, true);
        let mscheme = build_scheme(&mspec);
        let msch: &'static wirefilter::Scheme = Box::leak(Box::new(mscheme));
        let srcs = ["i == 1 or j == 2", "i == 1 and j == 2", "b1 or b2", "b1 and b2", "b1 or b2 or b3", "b1 and b2 and b3", "b1 and b2 or b3",
                    "not (i == 1 or j == 2)", "i == 1 xor j == 2", "i == 1 || b1 || j == 2", "(i == 1 or b1) and (j == 2 or b2)", "i in {1 2} or j in {2 3}",
                    "s == \"ab\" or i == 1", "ip == 10.0.0.1 and b1"];
        // partial contexts: each of i, j, b1, b2, b3, s, ip set or unset
        let mut pc: Vec<wirefilter::ExecutionContext<'static>> = Vec::new();
        for m in 0u32..48 {
            let mut c = wirefilter::ExecutionContext::<()>::new(msch);
            if m & 1 != 0 { c.set_field_value_from_name("i", if m & 32 != 0 { 1i64 } else { 5 }).unwrap(); }
            if m & 2 != 0 { c.set_field_value_from_name("j", if m & 16 != 0 { 2i64 } else { 5 }).unwrap(); }
            if m & 4 != 0 { c.set_field_value_from_name("b1", m & 16 != 0).unwrap(); }
            if m & 8 != 0 { c.set_field_value_from_name("b2", m & 32 != 0).unwrap(); }
            if m % 3 == 0 { c.set_field_value_from_name("b3", m % 2 == 0).unwrap(); }
            if m % 5 < 2 { c.set_field_value_from_name("s", &b"ab"[..]).unwrap(); }
            if m % 7 < 3 { c.set_field_value_from_name("ip", std::net::IpAddr::from([10, 0, 0, 1])).unwrap(); }
            pc.push(c);
        }
        let outcome = |f: &wirefilter::Filter, c: &wirefilter::ExecutionContext<'static>| -> &'static str {
            match std::panic::catch_unwind(std::panic::AssertUnwindSafe(|| f.execute(c))) {
                Ok(Ok(true)) => "true",
                Ok(Ok(false)) => "false",
                Ok(Err(_)) => "error",
                Err(_) => "panic",
            }
        };
        let pc = Arc::new(pc);
        for src in srcs {
            let Ok(ast) = msch.parse(src) else { continue };
            let long = Arc::new(ast.compile());
            let refs: Vec<&'static str> = pc.iter().map(|c| outcome(&msch.parse(src).unwrap().compile(), c)).collect();
            let nthreads = threads.min(4);
            let seen: Vec<Vec<Vec<&'static str>>> = std::thread::scope(|s| {
                let hs: Vec<_> = (0..nthreads).map(|t| {
                    let long = long.clone();
                    let pc = pc.clone();
                    s.spawn(move || {
                        let mut seen: Vec<Vec<&'static str>> = vec![Vec::new(); pc.len()];
                        let mut x = (t as u64 + 1).wrapping_mul(0x9e3779b97f4a7c15);
                        for _ in 0..(40 * pc.len()) {
                            x ^= x << 13; x ^= x >> 7; x ^= x << 17;
                            let c = (x % pc.len() as u64) as usize;
                            let o = outcome(&long, &pc[c]);
                            if !seen[c].contains(&o) { seen[c].push(o); }
                        }
                        seen
                    })
                }).collect();
                hs.into_iter().map(|h| h.join().unwrap()).collect()
            });
            for c in 0..pc.len() {
                let mut all: Vec<&'static str> = Vec::new();
                for t in 0..nthreads { for o in &seen[t][c] { if !all.contains(o) { all.push(o); } } }
                if all.is_empty() { continue; }
                all.sort();
                out.push(json!({"ev": "agree", "id": *id0, "th": 0, "threads": nthreads, "src": src, "c": c + 1, "ref": refs[c], "seen": all}));
                *id0 += 1;
            }
        }
    }
    // recompilation: a fresh compilation of every filter must agree too (fresh random anchors)
    for f in 0..nf {
        let fresh = scheme.parse(&p.filters[f].2).unwrap().compile();
        for c in 0..nc {
            let r = fresh.execute(&shared[c]).unwrap_or(false);
            out.push(json!({"ev": "conc", "id": *id0, "th": 0, "threads": threads, "rounds": 1, "f": f + 1, "c": c + 1,
                            "results": [r], "simd": simd, "simd_expected": simd_expected}));
            *id0 += 1;
        }
    }
}
